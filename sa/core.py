"""E1-E3: index of the repository's modules, name/attribute resolver, class
hierarchy and light annotation-driven type inference.

Everything here only *parses* files under <repo>/src/exactly_lib (module `ast`);
nothing of the repository is imported or executed.
"""
import ast
import os
import sys
import warnings
warnings.filterwarnings("ignore", category=SyntaxWarning)
from typing import Dict, List, Optional, Iterator, Tuple, Union

ROOT_PKG = 'exactly_lib'


class AnalysisError(Exception):
    """The analyser cannot decide (anchor vanished, idiom not understood,
    instance floor missed).  Never a verdict about the property: exit 2."""


# --------------------------------------------------------------------------
# definitions

class Def:
    kind = 'def'

    @property
    def key(self) -> str:
        raise NotImplementedError

    def __repr__(self):
        return '<%s %s>' % (self.kind, self.key)

    def __eq__(self, other):
        return isinstance(other, Def) and self.key == other.key and self.kind == other.kind

    def __hash__(self):
        return hash((self.kind, self.key))


class ModuleRef(Def):
    kind = 'module'

    def __init__(self, name: str):
        self.name = name

    @property
    def key(self):
        return self.name


class External(Def):
    """A name outside the closed world (stdlib, builtins, third party)."""
    kind = 'external'

    def __init__(self, dotted: str):
        self.dotted = dotted

    @property
    def key(self):
        return self.dotted


class FuncDef(Def):
    kind = 'func'

    def __init__(self, module: 'Module', qualname: str, node, cls: Optional['ClassDef'] = None,
                 parent: Optional['FuncDef'] = None):
        self.module = module
        self.qualname = qualname
        self.node = node
        self.cls = cls
        self.parent = parent
        self._locals = None

    @property
    def key(self):
        return self.module.name + ':' + self.qualname

    @property
    def name(self):
        return self.node.name

    @property
    def decorators(self) -> List[str]:
        out = []
        for d in self.node.decorator_list:
            out.append(dotted_name(d) or (dotted_name(d.func) if isinstance(d, ast.Call) else '') or '?')
        return out

    @property
    def is_property(self):
        return any(d == 'property' or d.endswith('.setter') or d.endswith('.getter') for d in self.decorators) \
            and 'property' in self.decorators

    @property
    def is_static(self):
        return 'staticmethod' in self.decorators

    @property
    def is_classmethod(self):
        return 'classmethod' in self.decorators

    @property
    def is_generator(self) -> bool:
        for n in walk_own(self.node):
            if isinstance(n, (ast.Yield, ast.YieldFrom)):
                return True
        return False

    @property
    def params(self) -> List[ast.arg]:
        a = self.node.args
        return list(getattr(a, 'posonlyargs', [])) + list(a.args) + list(a.kwonlyargs)

    def positional_params(self) -> List[ast.arg]:
        a = self.node.args
        return list(getattr(a, 'posonlyargs', [])) + list(a.args)

    def param(self, name) -> Optional[ast.arg]:
        for p in self.params:
            if p.arg == name:
                return p
        a = self.node.args
        for p in (a.vararg, a.kwarg):
            if p is not None and p.arg == name:
                return p
        return None

    @property
    def self_name(self) -> Optional[str]:
        if self.cls is not None and not self.is_static:
            pp = self.positional_params()
            if pp:
                return pp[0].arg
        return None

    def loc(self):
        return '%s:%d' % (self.module.relpath, self.node.lineno)

    # local scope ----------------------------------------------------------
    def local_bindings(self) -> Dict[str, list]:
        """name -> list of binding descriptions for names bound in this function's own body:
        ('param', arg) | ('assign', value_node, stmt) | ('def', FuncDef) | ('class', ClassDef) |
        ('import', ImportRef) | ('for', iter_node, stmt) | ('with', ctx_node, stmt) | ('except', type_node, handler)
        | ('other', node)"""
        if self._locals is not None:
            return self._locals
        b: Dict[str, list] = {}

        def add(name, desc):
            b.setdefault(name, []).append(desc)

        a = self.node.args
        for p in self.params:
            add(p.arg, ('param', p))
        for p in (a.vararg, a.kwarg):
            if p is not None:
                add(p.arg, ('param', p))
        for n in walk_own(self.node):
            if isinstance(n, ast.Assign):
                for t in n.targets:
                    for nm, sub in _target_names(t, n.value):
                        add(nm, ('assign', sub, n))
            elif isinstance(n, ast.AnnAssign) and isinstance(n.target, ast.Name):
                add(n.target.id, ('annassign', n.value, n))
            elif isinstance(n, ast.AugAssign) and isinstance(n.target, ast.Name):
                add(n.target.id, ('augassign', n.value, n))
            elif isinstance(n, (ast.For, ast.AsyncFor)):
                for nm, _ in _target_names(n.target, None):
                    add(nm, ('for', n.iter, n))
            elif isinstance(n, ast.comprehension):
                for nm, _ in _target_names(n.target, None):
                    add(nm, ('for', n.iter, n))
            elif isinstance(n, (ast.With, ast.AsyncWith)):
                for it in n.items:
                    if it.optional_vars is not None:
                        for nm, _ in _target_names(it.optional_vars, None):
                            add(nm, ('with', it.context_expr, n))
            elif isinstance(n, ast.ExceptHandler) and n.name:
                add(n.name, ('except', n.type, n))
            elif isinstance(n, (ast.Import, ast.ImportFrom)):
                for local, ref in _import_bindings(n, self.module.name, self.module.is_package):
                    add(local, ('import', ref))
            elif isinstance(n, (ast.FunctionDef, ast.AsyncFunctionDef)) and n is not self.node:
                fd = self.module.func_for_node(n)
                if fd is not None:
                    add(n.name, ('def', fd))
            elif isinstance(n, ast.ClassDef):
                cd = self.module.class_for_node(n)
                if cd is not None:
                    add(n.name, ('class', cd))
            elif isinstance(n, ast.NamedExpr) and isinstance(n.target, ast.Name):
                add(n.target.id, ('assign', n.value, n))
        self._locals = b
        return b


class ClassDef(Def):
    kind = 'class'

    def __init__(self, module: 'Module', qualname: str, node: ast.ClassDef, parent_func: Optional[FuncDef] = None):
        self.module = module
        self.qualname = qualname
        self.node = node
        self.parent_func = parent_func
        self.methods: Dict[str, FuncDef] = {}
        self.class_attrs: Dict[str, ast.AST] = {}
        self.nested: Dict[str, 'ClassDef'] = {}
        self._mro = None

    @property
    def key(self):
        return self.module.name + ':' + self.qualname

    @property
    def name(self):
        return self.node.name

    def loc(self):
        return '%s:%d' % (self.module.relpath, self.node.lineno)


class VarDef(Def):
    """Module-level (or class-level) variable."""
    kind = 'var'

    def __init__(self, module: 'Module', name: str, values: List[ast.AST], stmts: List[ast.AST],
                 owner: Optional[ClassDef] = None):
        self.module = module
        self.name = name
        self.values = values
        self.stmts = stmts
        self.owner = owner

    @property
    def key(self):
        if self.owner is not None:
            return self.owner.key + '.' + self.name
        return self.module.name + ':' + self.name

    @property
    def value(self) -> Optional[ast.AST]:
        return self.values[-1] if self.values else None

    def loc(self):
        return '%s:%d' % (self.module.relpath, self.stmts[-1].lineno)


class ParamDef(Def):
    kind = 'param'

    def __init__(self, func: FuncDef, arg: ast.arg):
        self.func = func
        self.arg = arg

    @property
    def key(self):
        return self.func.key + '(' + self.arg.arg + ')'

    @property
    def name(self):
        return self.arg.arg


class LocalDef(Def):
    kind = 'local'

    def __init__(self, func: FuncDef, name: str, bindings: list):
        self.func = func
        self.name = name
        self.bindings = bindings

    @property
    def key(self):
        return self.func.key + '.' + self.name


class ImportRef:
    def __init__(self, module: str, attr: Optional[str]):
        self.module = module  # dotted module name
        self.attr = attr  # member name or None (whole module)

    def __repr__(self):
        return 'ImportRef(%s, %s)' % (self.module, self.attr)


# --------------------------------------------------------------------------
# ast helpers

def dotted_name(node) -> Optional[str]:
    parts = []
    while isinstance(node, ast.Attribute):
        parts.append(node.attr)
        node = node.value
    if isinstance(node, ast.Name):
        parts.append(node.id)
        return '.'.join(reversed(parts))
    return None


def walk_own(func_node) -> Iterator[ast.AST]:
    """Walk a function's own body: does not descend into nested function/class
    *bodies* (but yields the nested def node itself), does descend into lambdas and comprehensions."""
    stack = list(reversed(list(ast.iter_child_nodes(func_node))))
    while stack:
        n = stack.pop()
        yield n
        if isinstance(n, (ast.FunctionDef, ast.AsyncFunctionDef, ast.ClassDef)):
            # decorators / defaults belong to the enclosing scope, bodies do not
            continue
        stack.extend(reversed(list(ast.iter_child_nodes(n))))


def walk_deep(node) -> Iterator[ast.AST]:
    return ast.walk(node)


def _target_names(target, value) -> List[Tuple[str, Optional[ast.AST]]]:
    if isinstance(target, ast.Name):
        return [(target.id, value)]
    if isinstance(target, (ast.Tuple, ast.List)):
        out = []
        vals = value.elts if isinstance(value, (ast.Tuple, ast.List)) and len(value.elts) == len(target.elts) else None
        for i, t in enumerate(target.elts):
            sub = vals[i] if vals is not None else (ast.Subscript(value=value, slice=ast.Constant(value=i),
                                                                  ctx=ast.Load()) if value is not None else None)
            if sub is not None and vals is None:
                ast.copy_location(sub, value)
                sub._sa_tuple_index = i
            out.extend(_target_names(t, sub))
        return out
    if isinstance(target, ast.Starred):
        return _target_names(target.value, None)
    return []


def _import_bindings(node, cur_module: str, cur_is_package: bool) -> List[Tuple[str, ImportRef]]:
    out = []
    if isinstance(node, ast.Import):
        for a in node.names:
            if a.asname:
                out.append((a.asname, ImportRef(a.name, None)))
            else:
                root = a.name.split('.')[0]
                out.append((root, ImportRef(root, None)))
    else:
        base = node.module or ''
        if node.level:
            parts = cur_module.split('.')
            if not cur_is_package:
                parts = parts[:-1]
            if node.level > 1:
                parts = parts[:-(node.level - 1)]
            base = '.'.join(parts + ([base] if base else []))
        for a in node.names:
            out.append((a.asname or a.name, ImportRef(base, a.name)))
    return out


def set_parents(tree):
    for n in ast.walk(tree):
        for c in ast.iter_child_nodes(n):
            c._sa_parent = n


def parent(node):
    return getattr(node, '_sa_parent', None)


def ancestors(node):
    n = parent(node)
    while n is not None:
        yield n
        n = parent(n)


def unparse(node) -> str:
    try:
        return ast.unparse(node)
    except Exception:
        return '<%s>' % type(node).__name__


# --------------------------------------------------------------------------
# modules

class Module:
    def __init__(self, index: 'Index', name: str, path: str):
        self.index = index
        self.name = name
        self.path = path
        self.relpath = os.path.relpath(path, index.repo_root)
        self.is_package = os.path.basename(path) == '__init__.py'
        with open(path, 'rb') as f:
            self.src = f.read().decode('utf-8')
        try:
            self.tree = ast.parse(self.src, filename=path)
        except SyntaxError as ex:
            raise AnalysisError('cannot parse %s: %s' % (self.relpath, ex))
        set_parents(self.tree)
        self.defs: Dict[str, Def] = {}
        self.imports: Dict[str, ImportRef] = {}
        self.funcs_by_node: Dict[int, FuncDef] = {}
        self.classes_by_node: Dict[int, ClassDef] = {}
        self.all_funcs: List[FuncDef] = []
        self.all_classes: List[ClassDef] = []
        self._collect()

    def func_for_node(self, node) -> Optional[FuncDef]:
        return self.funcs_by_node.get(id(node))

    def class_for_node(self, node) -> Optional[ClassDef]:
        return self.classes_by_node.get(id(node))

    def _collect(self):
        def visit_body(body, qual_prefix: str, cls: Optional[ClassDef], func: Optional[FuncDef], top: bool):
            for st in body:
                self._visit_stmt(st, qual_prefix, cls, func, top, visit_body)

        visit_body(self.tree.body, '', None, None, True)

    def _visit_stmt(self, st, qual_prefix, cls, func, top, visit_body):
        if isinstance(st, (ast.FunctionDef, ast.AsyncFunctionDef)):
            fd = FuncDef(self, qual_prefix + st.name, st, cls=cls, parent=func)
            self.funcs_by_node[id(st)] = fd
            self.all_funcs.append(fd)
            st._sa_def = fd
            if cls is not None:
                # method of cls (direct child of class body)
                if st.name in cls.methods and _is_property_accessor(st):
                    pass  # keep the getter
                else:
                    cls.methods[st.name] = fd
            elif top:
                self.defs[st.name] = fd
            # nested definitions
            self._collect_nested(st, fd, visit_body)
        elif isinstance(st, ast.ClassDef):
            cd = ClassDef(self, qual_prefix + st.name, st, parent_func=func)
            self.classes_by_node[id(st)] = cd
            self.all_classes.append(cd)
            st._sa_def = cd
            if top:
                self.defs[st.name] = cd
            elif cls is not None:
                cls.nested[st.name] = cd
            for sub in st.body:
                if isinstance(sub, (ast.FunctionDef, ast.AsyncFunctionDef, ast.ClassDef)):
                    self._visit_stmt(sub, cd.qualname + '.', cd, func, False, visit_body)
                elif isinstance(sub, ast.Assign):
                    for t in sub.targets:
                        for nm, v in _target_names(t, sub.value):
                            cd.class_attrs[nm] = v
                elif isinstance(sub, ast.AnnAssign) and isinstance(sub.target, ast.Name) and sub.value is not None:
                    cd.class_attrs[sub.target.id] = sub.value
        elif top:
            if isinstance(st, ast.Assign):
                for t in st.targets:
                    for nm, v in _target_names(t, st.value):
                        self._add_var(nm, v, st)
            elif isinstance(st, ast.AnnAssign) and isinstance(st.target, ast.Name):
                if st.value is not None:
                    self._add_var(st.target.id, st.value, st)
            elif isinstance(st, ast.AugAssign) and isinstance(st.target, ast.Name):
                self._add_var(st.target.id, st, st)
            elif isinstance(st, (ast.Import, ast.ImportFrom)):
                for local, ref in _import_bindings(st, self.name, self.is_package):
                    self.imports[local] = ref
            elif isinstance(st, (ast.If, ast.Try)):
                # conditional top-level definitions (rare): collect both arms
                for sub in ast.iter_child_nodes(st):
                    if isinstance(sub, ast.stmt):
                        self._visit_stmt(sub, qual_prefix, cls, func, top, visit_body)
                    elif isinstance(sub, ast.ExceptHandler):
                        for s2 in sub.body:
                            self._visit_stmt(s2, qual_prefix, cls, func, top, visit_body)

    def _add_var(self, name, value, stmt):
        d = self.defs.get(name)
        if isinstance(d, VarDef):
            d.values.append(value)
            d.stmts.append(stmt)
        else:
            self.defs[name] = VarDef(self, name, [value], [stmt])

    def _collect_nested(self, func_node, fd: FuncDef, visit_body):
        for n in walk_own(func_node):
            if isinstance(n, (ast.FunctionDef, ast.AsyncFunctionDef)):
                sub = FuncDef(self, fd.qualname + '.<locals>.' + n.name, n, cls=None, parent=fd)
                self.funcs_by_node[id(n)] = sub
                self.all_funcs.append(sub)
                n._sa_def = sub
                self._collect_nested(n, sub, visit_body)
            elif isinstance(n, ast.ClassDef):
                cd = ClassDef(self, fd.qualname + '.<locals>.' + n.name, n, parent_func=fd)
                self.classes_by_node[id(n)] = cd
                self.all_classes.append(cd)
                n._sa_def = cd
                for sub in n.body:
                    if isinstance(sub, (ast.FunctionDef, ast.AsyncFunctionDef)):
                        m = FuncDef(self, cd.qualname + '.' + sub.name, sub, cls=cd, parent=fd)
                        self.funcs_by_node[id(sub)] = m
                        self.all_funcs.append(m)
                        sub._sa_def = m
                        cd.methods[sub.name] = m
                        self._collect_nested(sub, m, visit_body)
                    elif isinstance(sub, ast.Assign):
                        for t in sub.targets:
                            for nm, v in _target_names(t, sub.value):
                                cd.class_attrs[nm] = v

    def enclosing_func(self, node) -> Optional[FuncDef]:
        for a in ancestors(node):
            if isinstance(a, (ast.FunctionDef, ast.AsyncFunctionDef)):
                return self.func_for_node(a)
        return None

    def enclosing_class(self, node) -> Optional[ClassDef]:
        for a in ancestors(node):
            if isinstance(a, ast.ClassDef):
                return self.class_for_node(a)
            if isinstance(a, (ast.FunctionDef, ast.AsyncFunctionDef)):
                fd = self.func_for_node(a)
                if fd is not None and fd.cls is not None:
                    return fd.cls
        return None


def _is_property_accessor(node) -> bool:
    for d in node.decorator_list:
        dn = dotted_name(d) or ''
        if dn.endswith('.setter') or dn.endswith('.deleter'):
            return True
    return False


class Index:
    def __init__(self, repo_root: str = '/repo'):
        self.repo_root = os.path.abspath(repo_root)
        self.src_root = os.path.join(self.repo_root, 'src')
        self._modules: Dict[str, Optional[Module]] = {}
        self._all_names: Optional[List[str]] = None
        self._texts: Dict[str, str] = {}
        self.parsed = 0
        if not os.path.isdir(os.path.join(self.src_root, ROOT_PKG)):
            raise AnalysisError('no %s under %s' % (ROOT_PKG, self.src_root))

    # --- module access
    def module_path(self, name: str) -> Optional[str]:
        rel = name.replace('.', os.sep)
        p = os.path.join(self.src_root, rel + '.py')
        if os.path.isfile(p):
            return p
        p = os.path.join(self.src_root, rel, '__init__.py')
        if os.path.isfile(p):
            return p
        return None

    def has_module(self, name: str) -> bool:
        if name in self._modules:
            return self._modules[name] is not None
        return self.module_path(name) is not None

    def module(self, name: str) -> Module:
        m = self.get_module(name)
        if m is None:
            raise AnalysisError('module not found: ' + name)
        return m

    def get_module(self, name: str) -> Optional[Module]:
        if name in self._modules:
            return self._modules[name]
        p = self.module_path(name)
        if p is None or not name.startswith(ROOT_PKG):
            self._modules[name] = None
            return None
        m = Module(self, name, p)
        self.parsed += 1
        self._modules[name] = m
        return m

    def all_module_names(self) -> List[str]:
        if self._all_names is None:
            out = []
            base = os.path.join(self.src_root, ROOT_PKG)
            for dp, dns, fns in os.walk(base):
                dns.sort()
                for fn in sorted(fns):
                    if fn.endswith('.py'):
                        rel = os.path.relpath(os.path.join(dp, fn), self.src_root)[:-3]
                        parts = rel.split(os.sep)
                        if parts[-1] == '__init__':
                            parts = parts[:-1]
                        out.append('.'.join(parts))
            self._all_names = out
        return self._all_names

    def all_modules(self, prefix: str = ROOT_PKG) -> Iterator[Module]:
        for n in self.all_module_names():
            if n == prefix or n.startswith(prefix + '.'):
                yield self.module(n)

    def text(self, name: str) -> str:
        t = self._texts.get(name)
        if t is None:
            m = self._modules.get(name)
            if m is not None:
                t = m.src
            else:
                with open(self.module_path(name), 'rb') as f:
                    t = f.read().decode('utf-8')
            self._texts[name] = t
        return t

    def modules_mentioning(self, *words: str, prefix: str = ROOT_PKG) -> Iterator[Module]:
        """cheap pre-filter for whole-repo sweeps: modules whose text contains any of the words
        (only those are parsed)"""
        for n in self.all_module_names():
            if n == prefix or n.startswith(prefix + '.'):
                t = self.text(n)
                if any(w in t for w in words):
                    yield self.module(n)

    # --- lookups by dotted path
    def lookup(self, path: str) -> Def:
        """'exactly_lib.a.b:Class.method' or 'exactly_lib.a.b:func' or 'exactly_lib.a.b:VAR'"""
        modname, _, qual = path.partition(':')
        m = self.module(modname)
        if not qual:
            return ModuleRef(modname)
        parts = qual.split('.')
        d = self.module_member(m, parts[0])
        if d is None:
            raise AnalysisError('anchor not found: %s (no %s in %s)' % (path, parts[0], m.relpath))
        for p in parts[1:]:
            if isinstance(d, ClassDef):
                nd = self.class_member(d, p)
            elif isinstance(d, FuncDef):
                nd = None
                for kind, *rest in d.local_bindings().get(p, []):
                    if kind in ('def', 'class'):
                        nd = rest[0]
            else:
                nd = None
            if nd is None:
                raise AnalysisError('anchor not found: %s (no %s in %s)' % (path, p, d.key))
            d = nd
        return d

    def func(self, path: str) -> FuncDef:
        d = self.lookup(path)
        if not isinstance(d, FuncDef):
            raise AnalysisError('anchor is not a function: %s (%r)' % (path, d))
        return d

    def cls(self, path: str) -> ClassDef:
        d = self.lookup(path)
        if not isinstance(d, ClassDef):
            raise AnalysisError('anchor is not a class: %s (%r)' % (path, d))
        return d

    def var(self, path: str) -> VarDef:
        d = self.lookup(path)
        if not isinstance(d, VarDef):
            raise AnalysisError('anchor is not a variable: %s (%r)' % (path, d))
        return d

    def try_lookup(self, path: str) -> Optional[Def]:
        try:
            return self.lookup(path)
        except AnalysisError:
            return None

    # --- resolution
    def module_member(self, m: Module, name: str, _seen=None) -> Optional[Def]:
        if name in m.defs:
            return m.defs[name]
        if name in m.imports:
            return self.resolve_import(m.imports[name], _seen)
        if m.is_package and self.has_module(m.name + '.' + name):
            return ModuleRef(m.name + '.' + name)
        return None

    def resolve_import(self, ref: ImportRef, _seen=None) -> Def:
        if _seen is None:
            _seen = set()
        k = (ref.module, ref.attr)
        if k in _seen:
            return External(ref.module + ('.' + ref.attr if ref.attr else ''))
        _seen.add(k)
        if ref.attr is None:
            if ref.module.split('.')[0] == ROOT_PKG and self.has_module(ref.module):
                return ModuleRef(ref.module)
            return External(ref.module)
        if ref.module.split('.')[0] != ROOT_PKG:
            return External(ref.module + '.' + ref.attr)
        sub = ref.module + '.' + ref.attr
        m = self.get_module(ref.module)
        if m is not None:
            d = None
            if ref.attr in m.defs:
                d = m.defs[ref.attr]
            elif ref.attr in m.imports:
                d = self.resolve_import(m.imports[ref.attr], _seen)
            if d is not None:
                return d
        if self.has_module(sub):
            return ModuleRef(sub)
        return External(sub)

    def resolve_name(self, m: Module, func: Optional[FuncDef], name: str, cls_ctx: Optional[ClassDef] = None) -> Optional[Def]:
        f = func
        while f is not None:
            b = f.local_bindings().get(name)
            if b:
                kinds = {x[0] for x in b}
                if kinds == {'param'}:
                    return ParamDef(f, b[0][1])
                if kinds == {'def'}:
                    return b[-1][1]
                if kinds == {'class'}:
                    return b[-1][1]
                if kinds == {'import'}:
                    return self.resolve_import(b[-1][1])
                return LocalDef(f, name, b)
            f = f.parent
        if cls_ctx is not None and func is None:
            # class-body scope
            if name in cls_ctx.class_attrs:
                return VarDef(cls_ctx.module, name, [cls_ctx.class_attrs[name]], [cls_ctx.class_attrs[name]], owner=cls_ctx)
            if name in cls_ctx.methods:
                return cls_ctx.methods[name]
        d = self.module_member(m, name)
        if d is not None:
            return d
        if name in _BUILTINS:
            return External('builtins.' + name)
        return None

    def member_of(self, d: Def, attr: str) -> Optional[Def]:
        """static member: module.attr, Class.attr, external.attr"""
        if isinstance(d, ModuleRef):
            m = self.get_module(d.name)
            if m is None:
                return None
            return self.module_member(m, attr)
        if isinstance(d, External):
            return External(d.dotted + '.' + attr)
        if isinstance(d, ClassDef):
            return self.class_member(d, attr)
        return None

    def resolve_static(self, m: Module, func: Optional[FuncDef], expr, cls_ctx=None) -> Optional[Def]:
        """Resolve Name / dotted Attribute chain without type inference."""
        if isinstance(expr, ast.Name):
            return self.resolve_name(m, func, expr.id, cls_ctx)
        if isinstance(expr, ast.Attribute):
            base = self.resolve_static(m, func, expr.value, cls_ctx)
            if base is None:
                return None
            if isinstance(base, VarDef) and base.value is not None and len(base.values) == 1:
                # alias:  X = other.Y
                if isinstance(base.value, (ast.Name, ast.Attribute)):
                    tgt = self.resolve_static(base.module, None, base.value)
                    if tgt is not None:
                        return self.member_of(tgt, expr.attr)
            return self.member_of(base, expr.attr)
        return None

    # --- classes
    def bases(self, c: ClassDef) -> List[Def]:
        out = []
        for b in c.node.bases:
            if isinstance(b, ast.Subscript):
                b = b.value
            d = self.resolve_static(c.module, c.parent_func, b)
            if d is None:
                d = External('?' + (dotted_name(b) or unparse(b)))
            if isinstance(d, VarDef) and d.value is not None:
                d2 = self.resolve_static(d.module, None, d.value) if isinstance(d.value, (ast.Name, ast.Attribute)) else None
                if d2 is not None:
                    d = d2
            out.append(d)
        return out

    def mro(self, c: ClassDef) -> List[Def]:
        if c._mro is not None:
            return c._mro
        c._mro = [c]  # recursion guard
        seqs = []
        bs = self.bases(c)
        for b in bs:
            if isinstance(b, ClassDef):
                seqs.append(list(self.mro(b)))
            else:
                seqs.append([b])
        seqs.append(list(bs))
        res = [c]
        seqs = [s for s in seqs if s]
        while seqs:
            cand = None
            for s in seqs:
                h = s[0]
                if not any(h in t[1:] for t in seqs):
                    cand = h
                    break
            if cand is None:
                cand = seqs[0][0]  # inconsistent: fall back
            res.append(cand)
            seqs = [[x for x in s if x != cand] for s in seqs]
            seqs = [s for s in seqs if s]
        c._mro = res
        return res

    def class_member(self, c: ClassDef, name: str) -> Optional[Def]:
        for k in self.mro(c):
            if isinstance(k, ClassDef):
                if name in k.methods:
                    return k.methods[name]
                if name in k.class_attrs:
                    return VarDef(k.module, name, [k.class_attrs[name]], [k.class_attrs[name]], owner=k)
                if name in k.nested:
                    return k.nested[name]
        return None

    def is_subclass(self, c: Def, base: Def) -> bool:
        if not isinstance(c, ClassDef):
            return c == base
        return any(k == base for k in self.mro(c))

    def is_subclass_of_external(self, c: ClassDef, dotted: str) -> bool:
        return any(isinstance(k, External) and k.dotted == dotted for k in self.mro(c))

    def self_attr_assignments(self, c: ClassDef, attr: str, include_bases=True) -> List[Tuple[FuncDef, ast.AST, ast.AST]]:
        """(method, value_node, stmt) for every `self.<attr> = value` in methods of c (and bases)."""
        out = []
        classes = [k for k in self.mro(c) if isinstance(k, ClassDef)] if include_bases else [c]
        priv = None
        for k in classes:
            for m in k.methods.values():
                sn = m.self_name
                if sn is None:
                    continue
                for n in ast.walk(m.node):
                    targets = []
                    val = None
                    if isinstance(n, ast.Assign):
                        for t in n.targets:
                            for tt, vv in _attr_targets(t, n.value):
                                targets.append((tt, vv))
                    elif isinstance(n, ast.AnnAssign) and n.value is not None:
                        targets.append((n.target, n.value))
                    elif isinstance(n, ast.AugAssign):
                        targets.append((n.target, n.value))
                    for t, v in targets:
                        if isinstance(t, ast.Attribute) and isinstance(t.value, ast.Name) and t.value.id == sn \
                                and _same_attr(t.attr, attr, k):
                            out.append((m, v, n))
        return out

    # --- types
    def annotation_class(self, m: Module, func: Optional[FuncDef], ann) -> Optional[Def]:
        """class named by an annotation; Optional[X] -> X; 'X' strings parsed."""
        if ann is None:
            return None
        if isinstance(ann, ast.Constant) and isinstance(ann.value, str):
            try:
                ann = ast.parse(ann.value, mode='eval').body
            except SyntaxError:
                return None
        if isinstance(ann, ast.Subscript):
            head = dotted_name(ann.value) or ''
            if head.split('.')[-1] == 'Optional':
                return self.annotation_class(m, func, ann.slice)
            d = self.resolve_static(m, func, ann.value)
            return d if isinstance(d, (ClassDef, External)) else None
        if isinstance(ann, (ast.Name, ast.Attribute)):
            d = self.resolve_static(m, func, ann)
            if isinstance(d, VarDef) and d.value is not None and len(d.values) == 1:
                # type alias
                return self.annotation_class(d.module, None, d.value)
            return d if isinstance(d, (ClassDef, External)) else None
        return None

    def annotation_elem_class(self, m, func, ann) -> Optional[Def]:
        """element class of Sequence[X]/List[X]/Iterable[X]/Iterator[X]/Tuple[X, ...]"""
        if isinstance(ann, ast.Constant) and isinstance(ann.value, str):
            try:
                ann = ast.parse(ann.value, mode='eval').body
            except SyntaxError:
                return None
        if isinstance(ann, ast.Subscript):
            head = (dotted_name(ann.value) or '').split('.')[-1]
            if head == 'Optional':
                return self.annotation_elem_class(m, func, ann.slice)
            if head in ('Sequence', 'List', 'Iterable', 'Iterator', 'Set', 'FrozenSet', 'Collection', 'AbstractSet',
                        'list', 'set', 'frozenset'):
                return self.annotation_class(m, func, ann.slice)
            if head in ('Tuple', 'tuple') and isinstance(ann.slice, ast.Tuple) and ann.slice.elts:
                return self.annotation_class(m, func, ann.slice.elts[0])
        return None

    def type_of(self, m: Module, func: Optional[FuncDef], expr, depth=0) -> Optional[Def]:
        """Declared/constructed class of an expression, or None."""
        if depth > 8:
            return None
        if isinstance(expr, ast.Name):
            if func is not None and expr.id == func.self_name and func.cls is not None:
                return func.cls
            d = self.resolve_name(m, func, expr.id)
            return self._type_of_def(d, depth)
        if isinstance(expr, ast.Attribute):
            # static first (module.Class etc. have no instance type)
            bt = self.type_of(m, func, expr.value, depth + 1)
            if isinstance(bt, ClassDef):
                return self.attr_type(bt, expr.attr, depth + 1)
            return None
        if isinstance(expr, ast.Call):
            callee = self.callee(m, func, expr, depth + 1)
            if isinstance(callee, ClassDef):
                return callee
            if isinstance(callee, External) and callee.dotted.split('.')[-1][:1].isupper():
                return callee  # instance of a class outside the repository (pathlib.Path(), ...)
            if isinstance(callee, FuncDef):
                if callee.is_classmethod and callee.node.returns is None:
                    return callee.cls
                return self.annotation_class(callee.module, callee.parent, callee.node.returns) \
                    if callee.cls is None else self._method_return_class(callee)
            return None
        if isinstance(expr, ast.IfExp):
            return self.type_of(m, func, expr.body, depth + 1) or self.type_of(m, func, expr.orelse, depth + 1)
        if isinstance(expr, ast.Await):
            return self.type_of(m, func, expr.value, depth + 1)
        return None

    def _method_return_class(self, f: FuncDef) -> Optional[Def]:
        return self.annotation_class(f.module, f.parent, f.node.returns)

    def _type_of_def(self, d: Optional[Def], depth) -> Optional[Def]:
        if isinstance(d, ParamDef):
            if d.func.cls is not None and d.arg.arg == d.func.self_name:
                return d.func.cls
            return self.annotation_class(d.func.module, d.func.parent, d.arg.annotation)
        if isinstance(d, LocalDef):
            types = set()
            for b in d.bindings:
                if b[0] in ('assign', 'annassign'):
                    if b[0] == 'annassign':
                        t = self.annotation_class(d.func.module, d.func, b[2].annotation)
                    else:
                        t = self.type_of(d.func.module, d.func, b[1], depth + 1) if b[1] is not None else None
                    types.add(t)
                elif b[0] == 'for':
                    t = self.elem_type_of(d.func.module, d.func, b[1], depth + 1)
                    types.add(t)
                elif b[0] == 'with':
                    types.add(None)
                elif b[0] == 'except':
                    t = self.annotation_class(d.func.module, d.func, b[1]) if b[1] is not None else None
                    types.add(t)
                else:
                    types.add(None)
            types.discard(None)
            if len(types) == 1:
                return next(iter(types))
            return None
        if isinstance(d, VarDef):
            if d.value is not None and len(d.values) == 1:
                return self.type_of(d.module, None, d.value, depth + 1)
        return None

    def elem_type_of(self, m, func, expr, depth=0) -> Optional[Def]:
        if isinstance(expr, ast.Name):
            d = self.resolve_name(m, func, expr.id)
            if isinstance(d, ParamDef):
                return self.annotation_elem_class(d.func.module, d.func.parent, d.arg.annotation)
        if isinstance(expr, ast.Attribute):
            bt = self.type_of(m, func, expr.value, depth + 1)
            if isinstance(bt, ClassDef):
                mem = self.class_member(bt, expr.attr)
                if isinstance(mem, FuncDef) and mem.is_property:
                    return self.annotation_elem_class(mem.module, mem.parent, mem.node.returns)
                for meth, v, st in self.self_attr_assignments(bt, expr.attr):
                    if isinstance(v, ast.Name):
                        p = meth.param(v.id)
                        if p is not None:
                            t = self.annotation_elem_class(meth.module, meth.parent, p.annotation)
                            if t is not None:
                                return t
        if isinstance(expr, ast.Call):
            callee = self.callee(m, func, expr, depth + 1)
            if isinstance(callee, FuncDef):
                return self.annotation_elem_class(callee.module, callee.parent, callee.node.returns)
        return None

    def attr_type(self, c: ClassDef, attr: str, depth=0) -> Optional[Def]:
        mem = self.class_member(c, attr)
        if isinstance(mem, FuncDef):
            if mem.is_property:
                return self.annotation_class(mem.module, mem.parent, mem.node.returns)
            return None
        types = set()
        for meth, v, st in self.self_attr_assignments(c, attr):
            t = None
            if isinstance(st, ast.AnnAssign):
                t = self.annotation_class(meth.module, meth, st.annotation)
            if t is None and v is not None:
                if isinstance(v, ast.Constant) and v.value is None:
                    continue
                t = self.type_of(meth.module, meth, v, depth + 1)
            types.add(t)
        types.discard(None)
        if len(types) == 1:
            return next(iter(types))
        if isinstance(mem, VarDef) and mem.value is not None:
            return self.type_of(mem.module, None, mem.value, depth + 1)
        return None

    def callee(self, m: Module, func: Optional[FuncDef], call: ast.Call, depth=0) -> Optional[Def]:
        d = self.resolve_value(m, func, call.func, depth)
        if isinstance(d, FuncDef) and d.is_property and isinstance(call.func, ast.Attribute):
            # `obj.prop(...)` calls the *value* of the property, which is not statically known
            return None
        return d

    def resolve_value(self, m: Module, func: Optional[FuncDef], expr, depth=0) -> Optional[Def]:
        """Resolve a function-valued / class-valued expression: static chain first,
        then `obj.method` through the declared type of obj."""
        if depth > 8:
            return None
        if isinstance(expr, ast.Name):
            d = self.resolve_name(m, func, expr.id)
            if isinstance(d, VarDef) and d.value is not None and len(d.values) == 1 \
                    and isinstance(d.value, (ast.Name, ast.Attribute)):
                d2 = self.resolve_value(d.module, None, d.value, depth + 1)
                if d2 is not None:
                    return d2
            if isinstance(d, LocalDef):
                vals = [b for b in d.bindings]
                if len(vals) == 1 and vals[0][0] == 'assign' and isinstance(vals[0][1], (ast.Name, ast.Attribute)):
                    d2 = self.resolve_value(m, d.func, vals[0][1], depth + 1)
                    if d2 is not None:
                        return d2
            return d
        if isinstance(expr, ast.Attribute):
            # super().m
            if isinstance(expr.value, ast.Call) and isinstance(expr.value.func, ast.Name) \
                    and expr.value.func.id == 'super' and func is not None:
                c = func.cls
                f = func
                while c is None and f is not None:
                    f = f.parent
                    c = f.cls if f is not None else None
                if c is not None:
                    for k in self.mro(c)[1:]:
                        if isinstance(k, ClassDef) and expr.attr in k.methods:
                            return k.methods[expr.attr]
                        if isinstance(k, External):
                            return External(k.dotted + '.' + expr.attr)
                return None
            st = self.resolve_static(m, func, expr)
            if st is not None and not isinstance(st, (LocalDef, ParamDef)):
                return st
            bt = self.type_of(m, func, expr.value, depth + 1)
            if isinstance(bt, ClassDef):
                mem = self.class_member(bt, expr.attr)
                if mem is not None:
                    return mem
                # attribute holding a callable: self._f = some_function
                return None
            if isinstance(bt, External):
                return External(bt.dotted + '.' + expr.attr)
            return None
        return None

    def subclasses_of(self, base: ClassDef, prefix: str = ROOT_PKG) -> List[ClassDef]:
        out = []
        for m in self.modules_mentioning(base.name, prefix=prefix):
            pass
        for m in self.all_modules(prefix):
            for c in m.all_classes:
                if c != base and self.is_subclass(c, base):
                    out.append(c)
        return out


def _attr_targets(t, v):
    if isinstance(t, ast.Attribute):
        return [(t, v)]
    if isinstance(t, (ast.Tuple, ast.List)):
        out = []
        for e in t.elts:
            out.extend(_attr_targets(e, None))
        return out
    return []


def _mangle(name: str, cls: ClassDef) -> str:
    if name.startswith('__') and not name.endswith('__'):
        return '_' + cls.name.lstrip('_') + name
    return name


def _same_attr(a: str, b: str, cls: ClassDef) -> bool:
    if a == b:
        return True
    return _mangle(a, cls) == _mangle(b, cls)


_BUILTINS = set(dir(__builtins__)) if not isinstance(__builtins__, dict) else set(__builtins__.keys())
