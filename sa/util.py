"""Shared queries for the rule modules: references (who-may-call), call sites,
handler tables, value classification."""
import ast
from typing import List, Optional, Tuple, Iterator, Dict, Set, Iterable

from .core import (Index, Module, FuncDef, ClassDef, VarDef, ParamDef, LocalDef, External, ModuleRef, Def,
                   AnalysisError, dotted_name, unparse, walk_own, ancestors, parent)
from .absint import Interp, Hooks, State, Path, K, Sym, Obj, Exc, FuncVal, BoundMethod, ListVal, wrap, AVal
from .fold import Folder, Record, EnumMember, Ref, is_unknown


class Site:
    """a syntactic reference / call site"""

    def __init__(self, module: Module, func: Optional[FuncDef], node):
        self.module = module
        self.func = func
        self.node = node

    @property
    def where(self) -> str:
        return self.func.key if self.func is not None else self.module.name + ':<module>'

    @property
    def loc(self) -> str:
        return '%s:%d' % (self.module.relpath, getattr(self.node, 'lineno', 0))

    def __repr__(self):
        return 'Site(%s @ %s)' % (self.where, self.loc)


def enclosing_func(m: Module, node) -> Optional[FuncDef]:
    return m.enclosing_func(node)


def references_to(ix: Index, target: Def, prefix: str = 'exactly_lib', names: Optional[Iterable[str]] = None,
                  include_imports: bool = False) -> List[Site]:
    """All syntactic references (Name / Attribute nodes) in src that resolve to `target`.
    `names`: simple names under which the target may appear (default: its own name)."""
    if names is None:
        if isinstance(target, External):
            names = [target.dotted.split('.')[-1]]
        elif isinstance(target, ModuleRef):
            names = [target.name.split('.')[-1]]
        else:
            names = [target.key.split(':')[-1].split('.')[-1]]
    names = list(names)
    out = []
    for m in ix.modules_mentioning(*names, prefix=prefix):
        aliases = set(names)
        # import aliases in this module (module level and function level)
        for n in ast.walk(m.tree):
            if isinstance(n, ast.ImportFrom):
                for a in n.names:
                    if a.name in names and a.asname:
                        aliases.add(a.asname)
            elif isinstance(n, ast.Import):
                for a in n.names:
                    if a.asname and a.name.split('.')[-1] in names:
                        aliases.add(a.asname)
        for n in ast.walk(m.tree):
            if isinstance(n, ast.Name) and n.id in aliases:
                pass
            elif isinstance(n, ast.Attribute) and n.attr in aliases:
                pass
            else:
                continue
            if isinstance(parent(n), ast.Attribute) and parent(n).value is n and isinstance(target, (ModuleRef,)):
                pass
            f = m.enclosing_func(n)
            cls_ctx = None
            if f is None:
                cls_ctx = m.enclosing_class(n)
            try:
                d = ix.resolve_value(m, f, n)
            except RecursionError:
                d = None
            if d is None and cls_ctx is not None and isinstance(n, ast.Name):
                d = ix.resolve_name(m, None, n.id, cls_ctx)
            if d == target:
                out.append(Site(m, f, n))
    return out


def call_sites_of(ix: Index, target: Def, prefix: str = 'exactly_lib', names=None) -> List[Site]:
    """references that are the callee of a Call; Site.node is the ast.Call"""
    out = []
    for s in references_to(ix, target, prefix, names):
        p = parent(s.node)
        if isinstance(p, ast.Call) and p.func is s.node:
            out.append(Site(s.module, s.func, p))
    return out


def calls_in(ix: Index, fd: FuncDef, deep: bool = False) -> List[Tuple[ast.Call, Optional[Def]]]:
    out = []
    it = ast.walk(fd.node) if deep else walk_own(fd.node)
    for n in it:
        if isinstance(n, ast.Call):
            f = fd
            if deep:
                f = fd.module.enclosing_func(n) or fd
            out.append((n, ix.callee(fd.module, f, n)))
    return out


def external_calls(ix: Index, m: Module) -> Iterator[Tuple[ast.Call, Optional[FuncDef], str]]:
    """(call, enclosing func, dotted external name) for every call in the module whose callee resolves
    to a name outside the repository"""
    for n in ast.walk(m.tree):
        if isinstance(n, ast.Call):
            f = m.enclosing_func(n)
            d = ix.callee(m, f, n)
            if isinstance(d, External):
                yield n, f, d.dotted


def func_paths(ix: Index, fo: Folder, fd: FuncDef, hooks: Optional[Hooks] = None, args=None) -> List[Path]:
    it = Interp(ix, fo, hooks or Hooks())
    return it.run_function(fd, args=args)


def describe(v) -> str:
    if isinstance(v, K):
        return repr(v.v)
    if isinstance(v, Sym):
        o = v.origin
        if o and o[0] == 'call':
            return 'call:%s' % o[1]
        if o and o[0] == 'attr':
            return '%s.%s' % (describe(o[1]), o[2])
        if o and o[0] == 'param':
            return 'param:%s' % o[1]
        return v.tag
    if isinstance(v, Exc):
        return 'exc:%s' % v.cls.key.split(':')[-1]
    if isinstance(v, Obj):
        return 'obj:%s' % v.cls.name
    if isinstance(v, BoundMethod):
        return '%s.%s' % (describe(v.recv), v.fd.name)
    if isinstance(v, FuncVal):
        return 'func:%s' % (v.fd.key if v.fd else 'lambda')
    if isinstance(v, ListVal):
        return '[%s]' % ', '.join(describe(x) for x in v.items)
    return repr(v)


def origin_call_key(v) -> Optional[str]:
    if isinstance(v, Sym) and v.origin and v.origin[0] == 'call':
        return v.origin[1]
    return None


def root_sym(v):
    if isinstance(v, Sym):
        return getattr(v, 'root', v)
    return v


def attr_chain(v) -> Optional[Tuple[object, Tuple[str, ...]]]:
    """(base value, (attr, attr, ...)) for a value that is an attribute path of a base value"""
    names = []
    seen = 0
    while isinstance(v, Sym) and seen < 12:
        seen += 1
        r = root_sym(v)
        o = r.origin
        if o and o[0] == 'attr':
            names.append(o[2])
            v = o[1]
            continue
        break
    return v, tuple(reversed(names))


def handler_table(ix: Index, fd: FuncDef, try_node: ast.Try) -> List[Tuple[List[Optional[Def]], ast.ExceptHandler]]:
    out = []
    for h in try_node.handlers:
        if h.type is None:
            out.append(([External('builtins.BaseException')], h))
        else:
            types = h.type.elts if isinstance(h.type, ast.Tuple) else [h.type]
            out.append(([ix.resolve_static(fd.module, fd, t) for t in types], h))
    return out


def enclosing_trys(node, stop=None) -> List[Tuple[ast.Try, str]]:
    """try statements enclosing node (innermost first) with the part the node is in: body|handler|orelse|final"""
    out = []
    child = node
    for a in ancestors(node):
        if a is stop:
            break
        if isinstance(a, (ast.FunctionDef, ast.AsyncFunctionDef, ast.Lambda)):
            break
        if isinstance(a, ast.Try):
            part = None
            if any(child is s for s in a.body):
                part = 'body'
            elif any(child is s for s in a.orelse):
                part = 'orelse'
            elif any(child is s for s in a.finalbody):
                part = 'final'
            else:
                part = 'handler'
            out.append((a, part))
        child = a
    return out


def stmt_of(node):
    n = node
    while n is not None and not isinstance(n, ast.stmt):
        n = parent(n)
    return n


def keyword_arg(call: ast.Call, name: str):
    for kw in call.keywords:
        if kw.arg == name:
            return kw.value
    return None


def bound_call_args(fd: FuncDef, call: ast.Call, skip_first: bool) -> Optional[Dict[str, ast.AST]]:
    """parameter name -> argument expression node"""
    pos = fd.positional_params()
    if skip_first:
        pos = pos[1:]
    out = {}
    for i, a in enumerate(call.args):
        if isinstance(a, ast.Starred) or i >= len(pos):
            return None
        out[pos[i].arg] = a
    for kw in call.keywords:
        if kw.arg is None:
            return None
        out[kw.arg] = kw.value
    return out


def ctor_of(ix: Index, c: ClassDef) -> Optional[FuncDef]:
    d = ix.class_member(c, '__new__')
    if isinstance(d, FuncDef):
        return d
    d = ix.class_member(c, '__init__')
    return d if isinstance(d, FuncDef) else None


def ctor_call_args(ix: Index, c: ClassDef, call: ast.Call) -> Optional[Dict[str, ast.AST]]:
    f = ctor_of(ix, c)
    if f is None:
        return None
    return bound_call_args(f, call, skip_first=True)


def is_abstract_body(fd: FuncDef) -> bool:
    """repo convention: body is docstring / pass / raise NotImplementedError(...)"""
    body = [s for s in fd.node.body
            if not (isinstance(s, ast.Expr) and isinstance(s.value, ast.Constant) and isinstance(s.value.value, str))]
    if not body:
        return True
    if len(body) == 1:
        s = body[0]
        if isinstance(s, ast.Pass):
            return True
        if isinstance(s, ast.Raise) and s.exc is not None:
            n = s.exc.func if isinstance(s.exc, ast.Call) else s.exc
            if dotted_name(n) == 'NotImplementedError':
                return True
    return False


def mentions_name(node, name: str) -> bool:
    return any(isinstance(n, ast.Name) and n.id == name for n in ast.walk(node))


def constructed(ix: Index, v):
    """(class key, positional arg values, keyword arg values, parameter-name -> value) for a value built by a
    constructor call: either an opaque `new:` value or a constant tuple record"""
    if isinstance(v, K) and isinstance(v.v, Record):
        rec = v.v
        byname = {k: wrap(x) for k, x in rec.args.items()}
        return rec.cls.key, list(byname.values()), {}, byname
    if isinstance(v, Sym) and v.origin and v.origin[0] == 'call':
        key = v.origin[1]
        args, kwargs = list(v.origin[2]), dict(v.origin[3])
        byname = dict(kwargs)
        d = ix.try_lookup(key) if ':' in key else None
        if isinstance(d, ClassDef):
            ctor = ctor_of(ix, d)
            if ctor is not None:
                names = [p.arg for p in ctor.positional_params()[1:]]
                for n, a in zip(names, args):
                    byname[n] = a
        elif isinstance(d, FuncDef):
            names = [p.arg for p in d.positional_params()]
            if d.cls is not None and not d.is_static:
                names = names[1:]
            for n, a in zip(names, args):
                byname[n] = a
        return key, args, kwargs, byname
    return None


def constructed_class(ix: Index, v) -> Optional[str]:
    r = constructed(ix, v)
    return r[0] if r else None


# ------------------------------------------------------------------ temporaries

def resolve_temp(f: Optional[FuncDef], node, depth: int = 0):
    """the expression a local name stands for, when the name is bound exactly once in f by a plain assignment
    (`tmp = <expr>; ... tmp`); anything else is returned unchanged"""
    if f is None or depth > 4 or not isinstance(node, ast.Name):
        return node
    bs = f.local_bindings().get(node.id, [])
    if len(bs) == 1 and bs[0][0] == 'assign' and bs[0][1] is not None:
        return resolve_temp(f, bs[0][1], depth + 1)
    return node


def return_value(f: Optional[FuncDef], ret: ast.Return):
    """value expression of a return statement; `tmp = <expr>; return tmp` gives <expr>"""
    v = ret.value
    if isinstance(v, ast.Name):
        par = parent(ret)
        if par is not None:
            for field in ('body', 'orelse', 'finalbody'):
                blk = getattr(par, field, None)
                if isinstance(blk, list) and ret in blk:
                    i = blk.index(ret)
                    if i > 0 and isinstance(blk[i - 1], ast.Assign) and len(blk[i - 1].targets) == 1 \
                            and isinstance(blk[i - 1].targets[0], ast.Name) and blk[i - 1].targets[0].id == v.id:
                        return blk[i - 1].value
        return resolve_temp(f, v)
    return v


def returned_values(f: FuncDef) -> List[ast.AST]:
    """value expressions of the return statements of f's own body, temporaries resolved"""
    return [return_value(f, n) for n in walk_own(f.node) if isinstance(n, ast.Return) and n.value is not None]


def block_return(f: Optional[FuncDef], stmts) -> Optional[ast.AST]:
    """value of a block `[tmp = <expr>;] return <expr>|tmp` (temporaries resolved), else None"""
    body = [s for s in stmts if not isinstance(s, (ast.Pass,))
            and not (isinstance(s, ast.Expr) and isinstance(s.value, ast.Constant))]
    if not body or not isinstance(body[-1], ast.Return) or body[-1].value is None:
        return None
    if len(body) == 1:
        return resolve_temp(f, body[0].value)
    if len(body) == 2 and isinstance(body[0], ast.Assign) and len(body[0].targets) == 1 \
            and isinstance(body[0].targets[0], ast.Name) and isinstance(body[1].value, ast.Name) \
            and body[1].value.id == body[0].targets[0].id:
        return body[0].value
    return None
