"""C06 Expression grammar: precedence tables, operator meaning, evaluation shape (DESIGN.md section 5, clauses a-f)."""
import ast
from typing import List, Optional

from ..core import Index, FuncDef, ClassDef, External, AnalysisError, unparse, walk_own, dotted_name, parent
from ..fold import Folder, Record, EnumMember, Ref, is_unknown, single_return_expr
from ..absint import Interp, Hooks, State, K, Sym, Obj, Exc, NONE, ListVal, FuncVal, BoundMethod
from ..report import Check
from .. import util
from .common import ForkHooks, labels_of, check_bool_fold

SEG = 'exactly_lib.impls.types.matcher.standard_expression_grammar'
GR = 'exactly_lib.impls.types.expression.grammar'
PA = 'exactly_lib.impls.types.expression.parser'
CS = 'exactly_lib.impls.types.matcher.impls.combinator_sdvs'
CM = 'exactly_lib.impls.types.matcher.impls.combinator_matchers'

MATCHER_TYPES = {
    'integer_matcher': 'exactly_lib.impls.types.integer_matcher.parse_integer_matcher',
    'line_matcher': 'exactly_lib.impls.types.line_matcher.parse_line_matcher',
    'string_matcher': 'exactly_lib.impls.types.string_matcher.parse_string_matcher',
    'file_matcher': 'exactly_lib.impls.types.file_matcher.parse_file_matcher',
    'files_matcher': 'exactly_lib.impls.types.files_matcher.parse_files_matcher',
}


def check(c: Check):
    c.explanation = (
        'Precedence and operator tables of the expression grammar extracted by abstract evaluation of new_grammar '
        '(levels in order of increasing precedence: || then &&; prefix !), the constructor chain from each operator to '
        'the primitive combinator of that meaning with operands passed on in order through the SDV / DDV / ADV layers, '
        'who-may-construct a Grammar (the five matcher types all use the one standard grammar), fold shapes of the '
        'combinators (ALL / ANY, lazy, left to right; negation), def-use shape of the precedence-climbing parser '
        '(operands parsed with the strictly remaining levels, operators looked up in the current level), and the '
        'error discipline of the parser. Decides clauses a-f of DESIGN.md C06; not layout / line-break acceptance.')
    clause_a(c)
    clause_b(c)
    clause_c(c)
    clause_d(c)
    clause_e(c)
    clause_f(c)
    clause_g(c)
    clause_i(c)
    from .common import check_application_purity
    check_application_purity(c, 'C06-h', ['exactly_lib.type_val_prims.matcher.matcher_base_class:MatcherWTrace', 'exactly_lib.type_val_prims.string_transformer:StringTransformer'], floor=25)


def _const(v):
    return v.v if isinstance(v, K) else None


def _nav(ix, v):
    """(name, value) of a NameAndValue(...) abstract value"""
    con = util.constructed(ix, v)
    if con is None or not con[0].endswith(':NameAndValue'):
        return None
    args = con[1]
    if len(args) != 2:
        return None
    return _const(args[0]), args[1]


def _made_by(ix: Index, fv) -> Optional[str]:
    """class an operator's mk_expression function constructs"""
    if isinstance(fv, K) and isinstance(fv.v, Ref) and isinstance(fv.v.d, ClassDef):
        return fv.v.d.key
    fd = fv.fd if isinstance(fv, (FuncVal, BoundMethod)) else None
    if fd is None:
        return None
    r = single_return_expr(fd)
    if isinstance(r, ast.Call):
        d = ix.callee(fd.module, fd, r)
        if isinstance(d, ClassDef):
            # operands passed as given?
            first = r.args[0] if r.args else None
            if isinstance(first, ast.Name) and first.id == fd.positional_params()[0].arg:
                return d.key
            return d.key + '?reordered'
    return None


# ---------------------------------------------------------------- a
def clause_a(c: Check):
    ix, fo = c.ix, c.fo
    ng = ix.func(SEG + ':new_grammar')
    paths = util.func_paths(ix, fo, ng, Hooks())
    c.require(len(paths) == 1 and paths[0].kind == 'return', 'C06-a: new_grammar has %d paths' % len(paths))
    con = util.constructed(ix, paths[0].val)
    c.require(con is not None and con[0] == GR + ':Grammar', 'C06-a: new_grammar does not return a Grammar')
    by = con[3]
    levels_v = by.get('infix_operators_in_order_of_increasing_precedence')
    it = Interp(ix, fo)
    levels = it.concrete_items(levels_v)
    c.require(levels is not None, 'C06-a: the infix operator levels are not a literal sequence')
    table = []
    for lv in levels:
        ops = it.concrete_items(lv)
        c.require(ops is not None, 'C06-a: an operator level is not a literal sequence')
        row = []
        for op in ops:
            nv = _nav(ix, op)
            c.require(nv is not None, 'C06-a: operator entry is not NameAndValue(name, operator)')
            name, opv = nv
            ocon = util.constructed(ix, opv)
            mk = ocon[3].get('mk_expression') if ocon else None
            row.append((name, (_made_by(ix, mk) or '?').split(':')[-1]))
        table.append(row)
    want = [[('||', 'Disjunction')], [('&&', 'Conjunction')]]
    c.expect(table == want, 'C06-a', 'new_grammar/infix-levels',
             'infix operators in order of increasing precedence are %s (documented: || binds weaker than &&)' % table,
             ng.loc(), detail=str(table))
    c.sample({'infix operator levels (increasing precedence)': table})
    pre = it.concrete_items(by.get('prefix_operators'))
    c.require(pre is not None, 'C06-a: prefix operators are not a literal sequence')
    ptab = []
    for op in pre:
        nv = _nav(ix, op)
        c.require(nv is not None, 'C06-a: prefix operator entry is not NameAndValue')
        ocon = util.constructed(ix, nv[1])
        mk = ocon[3].get('mk_expression') if ocon else None
        ptab.append((nv[0], (_made_by(ix, mk) or '?').split(':')[-1]))
    c.expect(ptab == [('!', 'Negation')], 'C06-a', 'new_grammar/prefix-operators', 'prefix operators are %s' % ptab, ng.loc())
    for const, val in (('OR_OPERATOR_NAME', '||'), ('AND_OPERATOR_NAME', '&&'), ('NOT_OPERATOR_NAME', '!')):
        v = fo.fold_path('exactly_lib.definitions.logic:' + const)
        c.expect(v == val, 'C06-a', 'logic.' + const, '%s is %r' % (const, v), 'src/exactly_lib/definitions/logic.py')
    # Grammar stores the levels in the given order
    init = ix.func(GR + ':Grammar.__init__')
    gcls = ix.cls(GR + ':Grammar')
    it2 = Interp(ix, fo, Hooks())
    lv0, lv1, lv2 = Sym('level0'), Sym('level1'), Sym('level2')
    lp = [p.arg for p in init.positional_params() if 'precedence' in p.arg]
    c.require(len(lp) == 1, 'C06-a: precedence-levels parameter of Grammar not found')
    ok = False
    for obj, st in it2.instantiate(gcls, State(), {lp[0]: ListVal([lv0, lv1, lv2])}):
        stored = st.heap.get((obj.oid, 'infix_ops_inc_precedence'))
        items = stored.items if isinstance(stored, ListVal) else None
        ok = items is not None and len(items) == 3
        if ok:
            for x, lv in zip(items, (lv0, lv1, lv2)):
                xo = x.origin if isinstance(x, Sym) else None
                ok = ok and bool(xo) and xo[0] == 'call' and xo[1].endswith('name_and_value:to_dict') and len(xo[2]) == 1 \
                     and xo[2][0] is lv
    c.expect(ok, 'C06-a', 'Grammar/keeps-level-order', 'Grammar does not keep the precedence levels in the given order',
             init.loc())


# ---------------------------------------------------------------- b
def clause_b(c: Check):
    """operator -> meaning through the SDV / DDV / ADV / primitive layers, evaluated on explicit operand lists: each
    layer builds the next from its operands one by one in the given order"""
    from .common import mapped_in_order
    ix, fo = c.ix, c.fo

    class H(Hooks):
        def inline(self, fd, st):
            return fd.module.name == CM and fd.name == 'of'

        def inline_class(self, cd, st):
            return False

    def run_layer(cls, meth_name, attr):
        f = ix.class_member(cls, meth_name)
        it = Interp(ix, fo, H())
        st = State()
        obj = it.new_obj(cls)
        xs = [Sym('operand%d' % i, nullness=False) for i in range(3)]
        st.heap[(obj.oid, attr)] = ListVal(list(xs))
        paths = it.run_function(f, {}, st, recv=obj)
        return f, xs, paths

    for name in ('Disjunction', 'Conjunction'):
        # SDV -> DDV
        sdv = ix.cls(CS + ':' + name)
        f, xs, paths = run_layer(sdv, 'resolve', '_operands')
        ok = len(paths) == 1 and paths[0].kind == 'return'
        if ok:
            con = util.constructed(ix, paths[0].val)
            ok = con is not None and con[0] == CM + ':' + name + 'Ddv' and bool(con[1]) \
                 and mapped_in_order(paths[0], con[1][0], xs, 'resolve')
        c.expect(bool(ok), 'C06-b', 'chain/%s/sdv->ddv' % name,
                 '%s.resolve does not build %sDdv of its operands, resolved one by one in the given order' % (name, name), f.loc())
        # DDV -> ADV
        ddv = ix.cls(CM + ':' + name + 'Ddv')
        f, xs, paths = run_layer(ddv, 'value_of_any_dependency', '_operands')
        ok = len(paths) == 1 and paths[0].kind == 'return'
        if ok:
            con = util.constructed(ix, paths[0].val)
            ok = con is not None and con[0] == CM + ':_SequenceOfOperandsAdv' and len(con[1]) >= 2
            if ok:
                mk = con[1][0]
                ok = isinstance(mk, K) and isinstance(mk.v, Ref) and getattr(mk.v.d, 'key', None) == CM + ':' + name \
                     and mapped_in_order(paths[0], con[1][1], xs, 'value_of_any_dependency')
        c.expect(bool(ok), 'C06-b', 'chain/%s/ddv->adv' % name,
                 '%sDdv does not make a %s of its operands in the given order' % (name, name), f.loc())
    # ADV -> primitive
    adv = ix.cls(CM + ':_SequenceOfOperandsAdv')
    f, xs, paths = run_layer(adv, 'primitive', '_operands')
    ok = len(paths) == 1 and paths[0].kind == 'return'
    if ok:
        o = paths[0].val.origin if isinstance(paths[0].val, Sym) else None
        ok = bool(o) and o[0] == 'call' and bool(o[2]) and mapped_in_order(paths[0], o[2][0], xs, 'primitive')
        if ok:
            cv = paths[0].trace[o[5]].data.get('callee_val')
            ok = util.attr_chain(cv)[1] == ('_make_matcher',)
    c.expect(bool(ok), 'C06-b', 'chain/adv.primitive', 'the primitive is not made by the stored maker of the operands\' '
                                                      'primitives in the given order', f.loc())
    init = ix.class_member(adv, '__init__')
    names = [p.arg for p in init.positional_params()[1:]]
    ok = True
    for attr, want in (('_make_matcher', names[0]), ('_operands', names[1])):
        ok = ok and any(isinstance(v, ast.Name) and v.id == want for meth, v, st_ in ix.self_attr_assignments(adv, attr))
    c.expect(ok, 'C06-b', 'chain/adv.of', 'the ADV layer does not keep its maker and operands as given', adv.loc())
    # negation chain
    nsdv = ix.cls(CS + ':Negation')
    r = single_return_expr(ix.class_member(nsdv, 'resolve'))
    ok = isinstance(r, ast.Call) and getattr(ix.callee(nsdv.module, ix.class_member(nsdv, 'resolve'), r), 'key', None) == CM + ':NegationDdv'
    c.expect(bool(ok), 'C06-b', 'chain/Negation/sdv->ddv', 'Negation.resolve does not build NegationDdv', nsdv.loc())
    nadv = ix.cls(CM + ':_NegationAdv')
    r = single_return_expr(ix.class_member(nadv, 'primitive'))
    ok = isinstance(r, ast.Call) and getattr(ix.callee(nadv.module, ix.class_member(nadv, 'primitive'), r), 'key', None) == CM + ':Negation'
    c.expect(bool(ok), 'C06-b', 'chain/Negation/adv->primitive', '_NegationAdv does not build Negation', nadv.loc())


def _is_order_preserving_map(node, src: str) -> bool:
    """[f(x) for x in <src>]  (no filter, single generator) or <src> itself"""
    if unparse(node) == src:
        return True
    return isinstance(node, ast.ListComp) and len(node.generators) == 1 and not node.generators[0].ifs \
        and unparse(node.generators[0].iter) == src


# ---------------------------------------------------------------- c
ALLOWED_GRAMMAR_CTORS = {
    SEG + ':new_grammar': 'the standard matcher grammar',
    'exactly_lib.impls.types.string_transformer.parse_string_transformer': 'string transformers (| composition)',
    'exactly_lib.impls.types.files_condition.parse': 'files-condition (no operators)',
    'exactly_lib.impls.types.files_source.parse:_grammar': 'files-source (no operators)',
}


def clause_c(c: Check):
    ix, fo = c.ix, c.fo
    gcls = ix.cls(GR + ':Grammar')
    sites = util.call_sites_of(ix, gcls)
    for s in sites:
        where = s.where.replace(':<module>', '')
        ok = any(where == k or where.startswith(k + ':') or where.startswith(k) for k in ALLOWED_GRAMMAR_CTORS)
        c.expect(ok, 'C06-c', 'Grammar()@' + where, 'an expression grammar is constructed in %s' % where, s.loc)
    c.floor('C06-c', 'Grammar constructions', len(sites), 4)
    ng = ix.func(SEG + ':new_grammar')
    for t, modname in sorted(MATCHER_TYPES.items()):
        m = ix.module(modname)
        ok = False
        for node in ast.walk(m.tree):
            if isinstance(node, ast.Call) and ix.callee(m, m.enclosing_func(node), node) == ng:
                ok = True
        c.expect(ok, 'C06-c', 'uses-standard-grammar/' + t, 'the %s does not build its grammar with new_grammar' % t,
                 m.relpath)
    # string transformer: one infix level, | -> sequence, applied left to right
    stm = ix.module('exactly_lib.impls.types.string_transformer.parse_string_transformer')
    gv = stm.defs.get('GRAMMAR')
    c.require(gv is not None and isinstance(gv.value, ast.Call), 'C06-c: string transformer GRAMMAR not found')
    b = util.ctor_call_args(ix, gcls, gv.value) or {}
    lv = b.get('infix_operators_in_order_of_increasing_precedence')
    ok = isinstance(lv, (ast.Tuple, ast.List)) and len(lv.elts) == 1 and isinstance(lv.elts[0], (ast.Tuple, ast.List)) \
         and len(lv.elts[0].elts) == 1
    name = None
    if ok:
        nv = lv.elts[0].elts[0]
        name = fo.fold(stm, None, nv.args[0]) if isinstance(nv, ast.Call) and nv.args else None
    c.expect(ok and name == '|', 'C06-c', 'string-transformer/one-level-pipe',
             'the string transformer grammar does not have exactly one infix operator | (%s)' % name, stm.relpath)
    seq = ix.try_lookup('exactly_lib.impls.types.string_transformer.impl.sequence:SequenceStringTransformer.transform')
    if not isinstance(seq, FuncDef):
        seq = None
        sm = ix.module('exactly_lib.impls.types.string_transformer.impl.sequence')
        for cls in sm.all_classes:
            f = cls.methods.get('transform') or cls.methods.get('_transform')
            if f is not None and any(isinstance(n, ast.For) for n in ast.walk(f.node)):
                seq = f
    c.require(seq is not None, 'C06-c: sequence transformer application not found')
    loops = [n for n in ast.walk(seq.node) if isinstance(n, ast.For)]
    ok = len(loops) == 1 and isinstance(loops[0].iter, (ast.Attribute, ast.Name))
    c.expect(ok, 'C06-c', 'string-transformer/sequence-left-to-right',
             'the sequence applies its transformers as %s' % (unparse(loops[0].iter) if loops else None), seq.loc())


# ---------------------------------------------------------------- d
def clause_d(c: Check):
    ix = c.ix

    def elem(d, n, cv):
        return isinstance(n.func, ast.Attribute) and n.func.attr == 'matches_w_trace'

    check_bool_fold(c, 'C06-d', ix.func(CM + ':Conjunction.matches_w_trace'), elem, 'ALL')
    check_bool_fold(c, 'C06-d', ix.func(CM + ':Disjunction.matches_w_trace'), elem, 'ANY')
    for cname, stop in (('Conjunction', 'F'), ('Disjunction', 'T')):
        _operands_applied_in_given_order(c, ix.cls(CM + ':' + cname), stop, elem)
    # negation
    neg = ix.func(CM + ':Negation.matches_w_trace')
    mr = ix.cls('exactly_lib.type_val_prims.matcher.matching_result:MatchingResult')
    hooks = ForkHooks(ix)
    hooks.fork_on(elem, [('T', lambda: K(Record(mr, {'value': True, 'trace': Sym('t')}))),
                         ('F', lambda: K(Record(mr, {'value': False, 'trace': Sym('t')})))])
    from .common import _bool_of_result
    for p in util.func_paths(ix, c.fo, neg, hooks):
        lab = labels_of(p)
        c.require(len(lab) == 1, 'C06-d: Negation evaluates its operand %d times' % len(lab))
        got = _bool_of_result(ix, p.val) if p.kind == 'return' else None
        c.expect(got is (lab[0] == 'F'), 'C06-d', 'Negation.matches_w_trace/' + lab[0],
                 'the negation of a %s operand is %s' % ('matching' if lab[0] == 'T' else 'non-matching', got), neg.loc())


def _operands_applied_in_given_order(c: Check, cls: ClassDef, stop: str, elem):
    """the combinator constructed from operands [o0, o1, o2] applies o0, then o1, then o2 - to the (frozen) model it
    was given - and nothing after the deciding operand: decided on the object its own constructor builds, so that
    a reordering anywhere between constructor and application is seen"""
    ix, fo = c.ix, c.fo
    mr = ix.cls('exactly_lib.type_val_prims.matcher.matching_result:MatchingResult')
    init = ix.class_member(cls, '__init__')
    c.require(isinstance(init, FuncDef), 'C06-d: %s has no constructor' % cls.name)
    op_params = [p.arg for p in init.positional_params()[1:] if 'operand' in p.arg]
    c.require(len(op_params) == 1, 'C06-d: operands parameter of %s not found' % init.key)
    m = ix.class_member(cls, 'matches_w_trace')
    hooks = ForkHooks(ix, loop_bound=3)
    hooks.fork_on(elem, [('T', lambda: K(Record(mr, {'value': True, 'trace': Sym('trace')}))),
                         ('F', lambda: K(Record(mr, {'value': False, 'trace': Sym('trace')})))])
    hooks.inline_set = {f for k in ix.mro(cls) if isinstance(k, ClassDef) for f in [k.methods.get('__init__')]
                        if f is not None and k.module.name == cls.module.name}
    it = Interp(ix, fo, hooks)
    n = 0
    for width in (2, 3):
        ops = [Sym('operand%d' % i, nullness=False, truth=True) for i in range(width)]
        for obj, st in it.instantiate(cls, State(), {op_params[0]: ListVal(list(ops))}):
            for p in it.run_function(m, {}, st, recv=obj):
                c.count()
                calls = [e for e in p.trace if e.kind == 'call' and 'label' in e.data]
                labs = [e.data['label'] for e in calls]
                recvs = [_receiver(e) for e in calls]
                want_n = (labs.index(stop) + 1) if stop in labs else width
                in_order = len(calls) == want_n and all(recvs[i] is ops[i] for i in range(len(calls)))
                n += 1
                c.expect(in_order, 'C06-d', '%s/applies-operands-in-given-order' % cls.name,
                         '%s of %d operands with results %s applies %s (expected the operands in the order given, up to '
                         'the deciding one)' % (cls.name, width, labs, [
                             ('operand%d' % ops.index(r)) if any(r is o for o in ops) else util.describe(r) for r in recvs]),
                         m.loc())
    c.floor('C06-d', 'evaluations of %s on explicit operand lists' % cls.name, n, 6)


def _receiver(e):
    r = e.data.get('recv')
    if r is None:
        cv = e.data.get('callee_val')
        if isinstance(cv, Sym) and cv.origin and cv.origin[0] == 'attr':
            r = cv.origin[1]
    return r


def clause_g(c: Check):
    """| : the sequence transformer is the left-to-right composition of its operands; identity operands may be
    skipped, and the sequence reports itself as identity exactly when every operand is"""
    ix, fo = c.ix, c.fo
    cls = ix.cls('exactly_lib.impls.types.string_transformer.impl.sequence:SequenceStringTransformer')
    st_cls = ix.cls('exactly_lib.type_val_prims.string_transformer:StringTransformer')
    init = ix.class_member(cls, '__init__')
    pp = [p.arg for p in init.positional_params()[1:]]
    c.require(len(pp) == 1, 'C06-g: SequenceStringTransformer.__init__ does not take one sequence')
    transform = ix.class_member(cls, 'transform')
    ident = ix.class_member(cls, 'is_identity_transformer')
    c.require(isinstance(transform, FuncDef) and isinstance(ident, FuncDef) and ident.is_property,
              'C06-g: transform / is_identity_transformer of the sequence not found')

    class H(Hooks):
        loop_bound = 4

        def inline(self, fd, st):
            return fd in (ident, init)

    n = 0
    import itertools
    for width in (0, 1, 2, 3):
        for flags in itertools.product((False, True), repeat=width):
            it = Interp(ix, fo, H())
            st0 = State()
            ops = []
            for i, is_id in enumerate(flags):
                o = it.new_obj(st_cls)
                st0.heap[(o.oid, 'is_identity_transformer')] = K(is_id)
                ops.append(o)
            desc = '[%s]' % ', '.join('identity' if f else 't%d' % i for i, f in enumerate(flags))
            insts = it.instantiate(cls, st0, {pp[0]: ListVal(list(ops))})
            c.require(len(insts) == 1, 'C06-g: constructor of the sequence has %d paths for %s' % (len(insts), desc))
            obj, st = insts[0]
            n += 1
            c.count()
            # identity flag
            vals = [v for k, v, s_ in it.get_attr(obj, 'is_identity_transformer', st.fork())]
            got = vals[0].v if len(vals) == 1 and isinstance(vals[0], K) else None
            c.expect(got is all(flags), 'C06-g', 'sequence/is-identity',
                     'the sequence of %s reports is_identity_transformer=%s (a sequence that is wrongly taken for the '
                     'identity is dropped by an enclosing sequence)' % (desc, got if got is not None else '?'), cls.loc())
            # application
            model = Sym('model')
            paths = it.run_function(transform, {transform.positional_params()[1].arg: model}, st.fork(), recv=obj)
            ok = len(paths) == 1 and paths[0].kind == 'return'
            applied, cur = [], model
            if ok:
                p = paths[0]
                for idx, e in enumerate(p.trace):
                    if e.kind != 'call':
                        continue
                    r = e.data.get('recv')
                    if not any(r is o for o in ops):
                        continue
                    a = e.data['args'][0] if e.data['args'] else None
                    if e.data.get('callee') is None or getattr(e.data['callee'], 'name', '') != 'transform' or a is not cur:
                        ok = False
                        break
                    applied.append([i for i, o in enumerate(ops) if r is o][0])
                    cur = idx
                    # the value of this call
                    cur = next((x for x in _call_values(p, idx)), None)
                    if cur is None:
                        ok = False
                        break
                ok = ok and p.val is cur
            want = [i for i, f in enumerate(flags) if not f]
            full = list(range(width))
            c.expect(ok and applied in (want, full), 'C06-g', 'sequence/left-to-right-composition',
                     'the sequence of %s applies operands %s%s (expected %s, each to the result of the one before, the '
                     'last result returned)' % (desc, applied, '' if ok else ' with broken threading', want), transform.loc())
    c.floor('C06-g', 'operand lists the sequence transformer is evaluated on', n, 15)


def _call_values(p, ev_idx):
    """abstract values in the final state that are the result of call event ev_idx"""
    seen = []
    def visit(v):
        if isinstance(v, Sym) and v.origin and v.origin[0] == 'call' and v.origin[5] == ev_idx:
            seen.append(v)
    for f in p.state.frames:
        for v in f.env.values():
            visit(v)
    visit(p.val)
    for v in p.state.heap.values():
        visit(v)
    for e in p.trace:
        if e.kind == 'call':
            for a in e.data.get('args', []):
                visit(a)
    return seen


# ---------------------------------------------------------------- e
_PAREN, _ANY = 'inside-parentheses', 'next-expression-on-any-line'
_QUERY = 'consume_optional_constant_string_that_must_be_unquoted_and_equal'


class _Reference:
    """The documented reading of `operand (OP operand)*` per precedence level, driven by the same answers of the
    token stream ("is the next token one of these operators?") as the analysed parser:
      - level i operands are expressions of level i+1; the last level's operands are primitives
      - a run of one operator gives one n-ary expression of the operands in source order; a following run at the
        same level takes the expression so far as its first operand (left associative)
      - outside parentheses an operator must be on the current line; the operand after an operator may start on a
        following line; inside parentheses line breaks are permitted everywhere"""

    def __init__(self, answers: List[str], n_levels: int):
        self.answers = list(answers)
        self.n = n_levels
        self.events = []
        self.n_leaf = 0
        self.n_name = 0
        self.exhausted = False

    def ask(self, what, must_be_on_current_line: bool):
        if not self.answers:
            self.exhausted = True
            raise StopIteration
        a = self.answers.pop(0)
        self.events.append(('query', what, must_be_on_current_line, a))
        if a == 'none':
            return None
        self.n_name += 1
        return self.n_name - 1

    def level(self, i: int, mode):
        if i == self.n:
            self.events.append(('primitive', mode is None))
            self.n_leaf += 1
            return ('primitive', self.n_leaf - 1)
        cur = self.level(i + 1, mode)
        if mode == _ANY:
            mode = None
        while True:
            name = self.ask(('operators-of-level', i), mode is None)
            if name is None:
                return cur
            operands = [cur]
            while True:
                operands.append(self.level(i + 1, _PAREN if mode == _PAREN else _ANY))
                if self.ask(('operator', name), mode != _PAREN) is None:
                    break
            cur = ('op', i, name, operands)


def _fmt_tree(t) -> str:
    if t is None:
        return '?'
    if t[0] == 'primitive':
        return 'p%d' % t[1]
    if t[0] == 'op':
        return '(L%d:%s)' % (t[1], (' op%s ' % t[2]).join(_fmt_tree(x) for x in t[3]))
    return str(t)


def clause_e(c: Check):
    """precedence climbing, associativity and layout: the parser is evaluated abstractly against every sequence of
    answers of the token stream (bounded) and compared with the documented reading"""
    ix, fo = c.ix, c.fo
    pcls = ix.cls(PA + ':_Parser')
    m = ix.module(PA)
    modes = {}
    for const, tag in (('_IS_INSIDE_PARENTHESES', _PAREN), ('_NEXT_EXPR_ON_ANY_LINE', _ANY)):
        v = fo.fold_path(PA + ':' + const)
        c.require(not is_unknown(v) and v is not None, 'C06-e: layout mode constant %s not found' % const)
        modes[tag] = v
    c.require(modes[_PAREN] != modes[_ANY], 'C06-e: the two layout modes have the same value')
    inline = ['parse_w_maybe_infix_ops', 'parse_w_infix_ops', 'parse_optional_infix_op_name',
              'infix_op_sequence_for_single_op']
    fds = []
    for n in inline:
        f = ix.class_member(pcls, n)
        c.require(isinstance(f, FuncDef), 'C06-e: _Parser.%s not found' % n)
        fds.append(f)
    nested = [f for f in m.all_funcs if f.parent in fds]
    prim = ix.class_member(pcls, 'parse_mandatory_primitive')
    c.require(isinstance(prim, FuncDef), 'C06-e: _Parser.parse_mandatory_primitive not found')
    entry = fds[0]
    pp = [p.arg for p in entry.positional_params()[1:]]
    c.require(len(pp) == 2, 'C06-e: parse_w_maybe_infix_ops does not take (layout mode, levels)')

    def is_query(d, n, cv):
        return isinstance(n.func, ast.Attribute) and n.func.attr == _QUERY

    n_paths = 0
    # bounds: one level with up to 3 runs of up to 4 operands; two levels with one run of up to 3 operands per
    # level and operand (two levels with longer runs is beyond reach: the number of answer sequences explodes)
    configs = [(1, 3), (2, 1)]
    if c.tier == 'thorough':
        # three levels (more than any grammar of the repository has): ~60 000 answer sequences per mode
        configs += [(1, 4), (3, 1)]
    def evaluate(n_levels, bound, mode_tag, rec):
        hooks = ForkHooks(ix, loop_bound=bound)
        hooks.max_recursion = n_levels + 2
        hooks.inline_set = set(fds) | set(nested)
        hooks.fork_on(is_query, [('none', lambda: NONE),
                                 ('op', lambda: Sym('operator-name', truth=True, nullness=False))])
        it = Interp(ix, fo, hooks)
        levels = [Sym('level%d' % i) for i in range(n_levels)]
        paths = it.run_function(entry, {pp[0]: K(modes[mode_tag] if mode_tag else None), pp[1]: ListVal(levels)})
        for p in paths:
            _judge_infix_path(rec, p, levels, mode_tag, prim, entry)
        return len(paths)

    # the two modes every entry point starts with (entry-point and parenthesis obligations below)
    jobs = [(n_levels, bound, mode_tag) for n_levels, bound in configs for mode_tag in (_ANY, _PAREN)]
    small = [j for j in jobs if j[0] < 3]
    big = [j for j in jobs if j[0] >= 3]
    for j in small:
        n = evaluate(*j, c)
        c.count(n)
        n_paths += n
    if big:
        # the large evaluations run in forked workers (the index is inherited); their verdicts are replayed here
        import multiprocessing
        global _EVALUATE
        _EVALUATE = evaluate
        ctx = multiprocessing.get_context('fork')
        with ctx.Pool(len(big)) as pool:
            for n, calls in pool.map(_run_job, big):
                c.count(n)
                n_paths += n
                for name, args, kwargs in calls:
                    getattr(c, name)(*args, **kwargs)
    c.floor('C06-e', 'token-answer sequences the infix parser is evaluated on', n_paths, 200)
    _clause_e_primitive(c, pcls, prim, modes)
    _clause_e_entry_points(c, pcls, modes)


class _Recorder:
    """collects the verdict calls of a worker process (deduplicated) for replay on the real Check"""

    def __init__(self):
        self.calls = {}

    def ok(self, *a, **kw):
        self.calls.setdefault(('ok', a[:2]), ('ok', a, kw))

    def bad(self, *a, **kw):
        self.calls.setdefault(('bad', a[:2]), ('bad', a, kw))

    def expect(self, cond, *a, **kw):
        k = ('expect', bool(cond), a[:2])
        self.calls.setdefault(k, ('expect', (bool(cond),) + a, kw))


_EVALUATE = None


def _run_job(job):
    rec = _Recorder()
    n = _EVALUATE(*job, rec)
    return n, list(rec.calls.values())


def _judge_infix_path(c, p, levels, mode_tag, prim, entry):
    labs = labels_of(p)
    key_base = 'infix/%d-levels/%s' % (len(levels), mode_tag or 'operators-on-current-line')
    where = entry.loc()
    if p.kind != 'return':
        c.bad('C06-e', key_base + '/raises', 'the infix parser raises %s for the token answers %s' % (
            util.describe(p.val), labs), where)
        return
    # what the parser did: primitives parsed and questions asked, in order
    got, names = _scan_events(p, levels, prim)
    ref = _Reference(labs, len(levels))
    want_tree = None
    try:
        want_tree = ref.level(0, mode_tag)
    except (StopIteration, RuntimeError):
        pass
    if ref.exhausted or ref.answers:
        c.bad('C06-e', key_base + '/questions-asked',
              'for the token answers %s the parser asks %d questions; the documented reading asks %s' % (
                  labs, len(labs), 'more' if ref.exhausted else 'fewer'), where)
        return
    for i, (g, w) in enumerate(zip(got, ref.events)):
        if g == w:
            continue
        if g[0] != w[0]:
            c.bad('C06-e', key_base + '/step-order', 'answers %s, step %d: the parser does %s where the documented '
                                                     'reading does %s' % (labs, i, g, w), where)
        elif g[0] == 'primitive':
            c.bad('C06-e', key_base + '/primitive-line-break',
                  'answers %s, step %d: primitive parsed with must_be_on_current_line=%s, documented %s' % (
                      labs, i, g[1], w[1]), where)
        elif g[1] != w[1]:
            c.bad('C06-e', key_base + '/operators-asked-for',
                  'answers %s, step %d: the parser looks for %s where the documented reading looks for %s' % (
                      labs, i, g[1], w[1]), where)
        else:
            c.bad('C06-e', key_base + '/operator-line-break',
                  'answers %s, step %d: operator %s looked for with must_be_on_current_line=%s, documented %s '
                  '(outside parentheses an operator ends at the line end; inside parentheses line breaks are free)' % (
                      labs, i, g[1], g[2], w[2]), where)
        return
    if len(got) != len(ref.events):
        c.bad('C06-e', key_base + '/step-order', 'answers %s: the parser does %d steps, the documented reading %d' % (
            labs, len(got), len(ref.events)), where)
        return
    tree = _tree_of(p, p.val, levels, prim, names)
    c.expect(tree == want_tree, 'C06-e', key_base + '/structure',
             'answers %s: the expression is built as %s, the documented structure is %s' % (
                 labs, _fmt_tree(tree), _fmt_tree(want_tree)), where)
    c.ok('C06-e', key_base + '/layout-and-order')


def _scan_events(p, levels, prim):
    """-> (steps of the parser in order, {event index of an answered operator name: ordinal})"""
    names, got = {}, []
    for idx, e in enumerate(p.trace):
        if e.kind != 'call':
            continue
        d = e.data
        if d.get('callee') == prim:
            a = d['args'][0] if d['args'] else d['kwargs'].get('must_be_on_current_line')
            got.append(('primitive', a.v if isinstance(a, K) else '?'))
        elif 'label' in d:
            args = d['args']
            ops = args[0] if args else None
            line = args[1] if len(args) > 1 else d['kwargs'].get('must_be_on_current_line')
            what = ('?', util.describe(ops))
            o = ops.origin if isinstance(ops, Sym) else None
            if o and o[0] == 'call' and isinstance(o[4].func, ast.Attribute) and o[4].func.attr == 'keys':
                cvv = p.trace[o[5]].data.get('callee_val') if o[5] is not None else None
                recv = cvv.origin[1] if isinstance(cvv, Sym) and cvv.origin and cvv.origin[0] == 'attr' else None
                for li, l in enumerate(levels):
                    if recv is l:
                        what = ('operators-of-level', li)
            elif isinstance(ops, ListVal) and len(ops.items) == 1 \
                    and getattr(ops.items[0], 'event_idx', None) in names:
                what = ('operator', names[ops.items[0].event_idx])
            got.append(('query', what, line.v if isinstance(line, K) else '?', d['label']))
            if d['label'] == 'op':
                names[idx] = len(names)
    return got, names


def _tree_of(p, v, levels, prim, names):
    o = v.origin if isinstance(v, Sym) else None
    if not o or o[0] != 'call':
        return ('?', util.describe(v))
    ev = p.trace[o[5]] if o[5] is not None else None
    if ev is not None and ev.data.get('callee') == prim:
        n = len([1 for e in p.trace[:o[5]] if e.kind == 'call' and e.data.get('callee') == prim])
        return ('primitive', n)
    node = o[4]
    if isinstance(node.func, ast.Attribute) and node.func.attr == 'mk_expression' and ev is not None:
        cv = ev.data.get('callee_val')
        opv = cv.origin[1] if isinstance(cv, Sym) and cv.origin and cv.origin[0] == 'attr' else None
        oo = opv.origin if isinstance(opv, Sym) else None
        if oo and oo[0] == 'index':
            base, idx = oo[1], oo[2]
            li = [i for i, l in enumerate(levels) if base is l]
            ni = names.get(getattr(idx, 'event_idx', None))
            args = o[2]
            items = args[0].items if args and isinstance(args[0], ListVal) else None
            if li and ni is not None and items is not None:
                return ('op', li[0], ni, [_tree_of(p, x, levels, prim, names) for x in items])
    return ('?', util.describe(v))


def _chain(v):
    base, names = util.attr_chain(v)
    return base, names


def _clause_e_primitive(c: Check, pcls, prim, modes):
    """parentheses, prefix operators, primitives: parse_mandatory_primitive evaluated on every answer of the token
    stream to "( ?" and "prefix operator ?" """
    ix, fo = c.ix, c.fo
    where = prim.loc()
    inl = [ix.class_member(pcls, n) for n in ('consume_optional_start_parentheses', 'consume_optional_prefix_operator')]
    c.require(all(isinstance(f, FuncDef) for f in inl), 'C06-e: helpers of parse_mandatory_primitive not found')
    parse = ix.class_member(pcls, 'parse')
    endp = ix.class_member(pcls, 'consume_mandatory_end_parentheses')
    c.require(isinstance(parse, FuncDef) and isinstance(endp, FuncDef), 'C06-e: _Parser.parse / end parentheses not found')

    def is_query(d, n, cv):
        return isinstance(n.func, ast.Attribute) and n.func.attr == _QUERY

    seen = set()
    for must in (False, True):
        hooks = ForkHooks(ix, loop_bound=1)
        hooks.inline_set = set(inl)
        hooks.fork_on(is_query, [('none', lambda: NONE),
                                 ('found', lambda: Sym('token', truth=True, nullness=False))])
        it = Interp(ix, fo, hooks)
        grammar, tokens = Sym('grammar'), Sym('token-parser')
        init = ix.class_member(pcls, '__init__')
        ip = [p_.arg for p_ in init.positional_params()[1:]]
        c.require(len(ip) == 2, 'C06-e: _Parser.__init__ does not take (grammar, token parser)')
        given = {}
        for n in ip:
            given[n] = grammar if 'grammar' in n else tokens
        for obj, st in it.instantiate(pcls, State(), given):
            for p in it.run_function(prim, {prim.positional_params()[1].arg: K(must)}, st, recv=obj):
                labs = labels_of(p)
                seen.add(tuple(labs))
                calls = [e for e in p.trace if e.kind == 'call' and e.func is not None and e.func.cls is pcls
                         and e.func.name != '__init__']
                key = 'primitive/%s' % ('-'.join(labs))
                c.count()
                if must:
                    tcalls = [e for e in calls if isinstance(e.node.func, ast.Attribute)
                              and util.attr_chain(e.data.get('callee_val'))[0] is tokens]
                    first = tcalls[0] if tcalls else None
                    ok = first is not None and first.node.func.attr == 'require_is_not_at_eol'
                    c.expect(ok, 'C06-e', key + '/must-be-on-current-line',
                             'an expression that must start on the current line is parsed without checking that the '
                             'line has not ended', where)
                queries = [e for e in calls if 'label' in e.data]
                for q in queries:
                    line = q.data['args'][1] if len(q.data['args']) > 1 else q.data['kwargs'].get('must_be_on_current_line')
                    c.expect(isinstance(line, K) and line.v is False, 'C06-e', key + '/token-on-any-line',
                             '`(` / prefix operator looked for with must_be_on_current_line=%s' % util.describe(line), where)
                if p.kind != 'return':
                    c.bad('C06-e', key + '/raises', 'parse_mandatory_primitive raises %s' % util.describe(p.val), where)
                    continue
                if labs == ['found']:
                    q0 = queries[0].data['args'][0]
                    items = it.concrete_items(q0) or []
                    ok = [x.v for x in items if isinstance(x, K)] == ['(']
                    pc = [e for e in calls if e.data.get('callee') == parse]
                    ec = [e for e in calls if e.data.get('callee') == endp]
                    ok = ok and len(pc) == 1 and len(ec) == 1 and p.trace.index(pc[0]) < p.trace.index(ec[0])
                    a = pc[0].data['args'][0] if pc and pc[0].data['args'] else None
                    ok = ok and isinstance(a, K) and a.v == modes[_PAREN] and type(a.v) is type(modes[_PAREN])
                    o = p.val.origin if isinstance(p.val, Sym) else None
                    ok = ok and bool(o) and o[0] == 'call' and o[5] == p.trace.index(pc[0])
                    c.expect(bool(ok), 'C06-e', 'primitive/parentheses',
                             '`( EXPR )` is not read as: the full grammar in inside-parentheses mode, then a mandatory '
                             '`)`, giving EXPR itself', where)
                elif labs == ['none', 'found'] and _is_falsy_operator_path(prim, p, inl[1]):
                    # the path on which the operator's mk_expression is falsy: infeasible when it is a mandatory
                    # callable of the operator (obligation below)
                    po = ix.cls(GR + ':PrefixOperator')
                    init = ix.class_member(po, '__init__')
                    ann = [unparse(p_.annotation) for p_ in init.params if p_.arg == 'mk_expression' and p_.annotation]
                    c.expect(bool(ann) and ann[0].startswith('Callable'), 'C06-e', 'primitive/prefix-operator-callable',
                             'PrefixOperator.mk_expression is not a mandatory callable (%s)' % ann, po.loc())
                elif labs == ['none', 'found']:
                    q1 = queries[1].data['args'][0]
                    o = q1.origin if isinstance(q1, Sym) else None
                    ok = bool(o) and o[0] == 'call' and isinstance(o[4].func, ast.Attribute) and o[4].func.attr == 'keys'
                    rc = [e for e in calls if e.data.get('callee') == prim]
                    ok = ok and len(rc) == 1
                    a = None
                    if rc:
                        a = rc[0].data['args'][0] if rc[0].data['args'] else rc[0].data['kwargs'].get('must_be_on_current_line')
                    ok = ok and isinstance(a, K) and a.v is False
                    ro = p.val.origin if isinstance(p.val, Sym) else None
                    ok = ok and bool(ro) and ro[0] == 'call' and len(ro[2]) == 1
                    if ok:
                        operand = ro[2][0]
                        oo = operand.origin if isinstance(operand, Sym) else None
                        ok = bool(oo) and oo[0] == 'call' and oo[5] == p.trace.index(rc[0])
                        cv = p.trace[ro[5]].data.get('callee_val') if ro[5] is not None else None
                        base, names = util.attr_chain(cv) if cv is not None else (None, ())
                        ok = ok and names[-1:] == ('mk_expression',)
                        sub = cv.origin[1] if isinstance(cv, Sym) and cv.origin and cv.origin[0] == 'attr' else None
                        so = sub.origin if isinstance(sub, Sym) else None
                        ok = ok and bool(so) and so[0] == 'index' \
                             and getattr(so[2], 'event_idx', -1) == p.trace.index(queries[1]) \
                             and util.attr_chain(so[1])[1][-1:] == ('prefix_operators',)
                    c.expect(bool(ok), 'C06-e', 'primitive/prefix-operator',
                             'a prefix operator is not applied to exactly the one following primitive (binds tighter '
                             'than every infix operator)', where)
                elif labs == ['none', 'none']:
                    ro = p.val.origin if isinstance(p.val, Sym) else None
                    ok = bool(ro) and ro[0] == 'call' and isinstance(ro[4].func, ast.Attribute) \
                         and ro[4].func.attr == 'parse_mandatory_string_that_must_be_unquoted'
                    if ok:
                        handler = [x for x in list(ro[2]) + list(ro[3].values()) if isinstance(x, BoundMethod)]
                        ok = len(handler) == 1 and handler[0].fd.name == 'parse_primitive' and handler[0].recv is obj
                    c.expect(bool(ok), 'C06-e', 'primitive/plain', 'a plain primitive is not an unquoted name handed to '
                                                                   'parse_primitive', where)
                else:
                    c.bad('C06-e', key + '/shape', 'unexpected sequence of token questions %s' % labs, where)
    c.expect(seen == {('found',), ('none', 'found'), ('none', 'none')}, 'C06-e', 'primitive/alternatives',
             'the alternatives of a primitive are %s (expected: parenthesis, prefix operator, plain)' % sorted(seen), where)


def _is_falsy_operator_path(prim: FuncDef, p, consume_prefix: FuncDef) -> bool:
    """the last decision of the path is `if <result of consume_optional_prefix_operator>:` taken as false"""
    if not p.guards:
        return False
    test, truth = p.guards[-1]
    if truth or not isinstance(test, ast.Name):
        return False
    for kind, value, _ in prim.local_bindings().get(test.id, []):
        if kind == 'assign' and isinstance(value, ast.Call) and isinstance(value.func, ast.Attribute) \
                and value.func.attr == consume_prefix.name:
            return True
    return False


def _clause_e_entry_points(c: Check, pcls, modes):
    ix, fo = c.ix, c.fo
    parse = ix.class_member(pcls, 'parse')
    hooks = Hooks()
    it = Interp(ix, fo, hooks)
    entry = ix.class_member(pcls, 'parse_w_maybe_infix_ops')
    for tag in (_ANY, _PAREN):
        ok = False
        paths = it.run_function(parse, {parse.positional_params()[1].arg: K(modes[tag])})
        if len(paths) == 1 and paths[0].kind == 'return':
            o = paths[0].val.origin if isinstance(paths[0].val, Sym) else None
            if o and o[0] == 'call' and o[1] == entry.key and len(o[2]) == 2:
                a0, a1 = o[2]
                ok = isinstance(a0, K) and a0.v == modes[tag] and util.attr_chain(a1)[1] == ('grammar', 'infix_ops_inc_precedence')
        c.expect(ok, 'C06-e', 'parse/all-levels/' + tag,
                 'parsing an expression does not start from the lowest precedence level of the grammar in the given '
                 'layout mode', parse.loc())
    for cname, meth, arg in (('_FullParserOnAnyLineParser', 'parse', modes[_ANY]),
                             ('_SimpleParserOnAnyLineParser', 'parse_mandatory_primitive', False)):
        cls = ix.cls(PA + ':' + cname)
        f = ix.class_member(cls, 'parse_from_token_parser')
        r = single_return_expr(f) if isinstance(f, FuncDef) else None
        ok = isinstance(r, ast.Call) and isinstance(r.func, ast.Attribute) and r.func.attr == meth \
             and isinstance(r.func.value, ast.Call) and ix.callee(f.module, f, r.func.value) == pcls and len(r.args) == 1
        if ok:
            v = fo.fold(f.module, f, r.args[0])
            ok = v == arg and type(v) is type(arg)
        c.expect(bool(ok), 'C06-e', 'entry/' + cname, '%s does not start the parser with %s(%r)' % (cname, meth, arg),
                 cls.loc())


# ---------------------------------------------------------------- f
def clause_f(c: Check):
    ix = c.ix
    m = ix.module(PA)
    siiae = ix.cls('exactly_lib.section_document.element_parsers.instruction_parser_exceptions:'
                   'SingleInstructionInvalidArgumentException')
    n = 0
    for node in ast.walk(m.tree):
        if isinstance(node, ast.Raise) and node.exc is not None:
            n += 1
            f = m.enclosing_func(node)
            d = ix.callee(m, f, node.exc) if isinstance(node.exc, ast.Call) else ix.resolve_static(m, f, node.exc)
            c.expect(d == siiae, 'C06-f', 'raise@%s' % (f.key if f else PA),
                     'the expression parser raises %s' % getattr(d, 'key', unparse(node.exc)), '%s:%d' % (m.relpath, node.lineno))
        if isinstance(node, ast.ExceptHandler):
            f = m.enclosing_func(node)
            c.bad('C06-f', 'handler@%s' % (f.key if f else PA), 'the expression parser catches exceptions (a malformed '
                                                               'expression could be re-read as something else)',
                  '%s:%d' % (m.relpath, node.lineno))
    c.floor('C06-f', 'raise statements in the expression parser', n, 2)


# ---------------------------------------------------------------- i
# components of primitives that are parsed as a *full* expression: each is delimited by the surrounding syntax, so
# a following infix operator cannot be meant for the enclosing expression (read and confirmed one by one)
FULL_COMPONENTS = {
    ('exactly_lib.impls.types.files_condition.parse', 'file_matcher'):
        'the matcher of a `NAME : FILE-MATCHER` entry of a files-condition: ended by the end of the line / the closing brace',
    ('exactly_lib.impls.types.files_source.parse', 'files_source'):
        'the contents of a nested `dir NAME = FILES-SOURCE` inside a file list: delimited by braces',
    ('exactly_lib.impls.types.files_matcher.parse_files_matcher', 'files_condition'):
        'the FILES-CONDITION operand of `matches`: the files-condition grammar has no infix operators',
}


def _unreferenced(ix: Index, f: FuncDef, seen: set) -> bool:
    """a module-level function that is referenced nowhere, or only from module-level functions that are themselves
    unreferenced (dead code)"""
    if f in seen:
        return True
    seen.add(f)
    if len(seen) > 8:
        return False
    for s in util.references_to(ix, f):
        g = s.func
        while g is not None and g.parent is not None:
            g = g.parent
        if g is None or g.cls is not None or not _unreferenced(ix, g, seen):
            return False
    return True


def clause_i(c: Check):
    """SIB/CFGOBL operand precedence of prefix-like primitives: a primitive that is followed by an expression of a
    grammar (`-selection FILE-MATCHER FILES-MATCHER`, `-transformed-by TRANSFORMER MATCHER`, `every line : MATCHER`,
    `contents MATCHER`, `num-lines INTEGER-MATCHER` ...) parses that component as a *simple* expression, so that a
    following && / || belongs to the enclosing expression as documented (primitives bind tighter than infix
    operators). Every use of `<grammar module>.parsers(..).full` under `impls.types` must be one of the delimited
    components listed above; unreferenced functions are not judged."""
    ix, fo = c.ix, c.fo
    n_simple, n_full = 0, 0
    for name in ix.all_module_names():
        if not name.startswith('exactly_lib.impls.types.'):
            continue
        if 'parsers(' not in ix.text(name):
            continue
        m = ix.module(name)
        for node in ast.walk(m.tree):
            if not (isinstance(node, ast.Attribute) and node.attr in ('simple', 'full')):
                continue
            f = m.enclosing_func(node)
            v = util.resolve_temp(f, node.value) if f is not None else node.value
            if not isinstance(v, ast.Call):
                continue
            d = ix.callee(m, f, v)
            if not (isinstance(d, FuncDef) and d.name == 'parsers' and d.cls is None):
                continue
            if node.attr == 'simple':
                n_simple += 1
                continue
            if f is not None and f.name == 'parsers':
                continue  # the definition of the pair itself
            # an unreferenced module-level function is dead code
            top = f
            while top is not None and top.parent is not None:
                top = top.parent
            if top is not None and top.cls is None and _unreferenced(ix, top, set()):
                c.note('C06-i: %s uses a full-expression component but is never referenced' % top.key)
                continue
            n_full += 1
            target = d.module.name.split('.')[-2] if d.module.name.endswith('.parse') else d.module.name.split('.')[-1]
            target = target.replace('parse_', '')
            target = {'files_condition': 'files_condition', 'parse': target}.get(target, target)
            key = (name, target)
            c.expect(key in FULL_COMPONENTS, 'C06-i', 'component-parsed-as-full/%s/%s' % key,
                     'a component of a primitive of %s is parsed as a full %s expression: an infix operator that follows '
                     'it is swallowed by the component instead of belonging to the enclosing expression (documented '
                     'precedence: primitives bind tighter than && / ||)' % (name.split('.')[-1], target.replace('_', '-')),
                     '%s:%d' % (m.relpath, node.lineno), detail=FULL_COMPONENTS.get(key, ''))
    c.floor('C06-i', 'components of primitives parsed as simple expressions', n_simple, 12)
    c.floor('C06-i', 'delimited components parsed as full expressions', n_full, 3)
