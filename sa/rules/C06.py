"""C06 Expression grammar: precedence tables, operator meaning, evaluation shape (DESIGN.md section 5, clauses a-f)."""
import ast
from typing import List, Optional

from ..core import Index, FuncDef, ClassDef, External, AnalysisError, unparse, walk_own, dotted_name, parent
from ..fold import Folder, Record, EnumMember, Ref, is_unknown, single_return_expr
from ..absint import Interp, Hooks, State, K, Sym, Obj, Exc, NONE, ListVal, FuncVal, BoundMethod
from ..report import Check
from .. import util
from .common import ForkHooks, labels_of, check_bool_fold

SEG = 'exactly_lib.impls.types.matcher.standard_expression_grammar'
GR = 'exactly_lib.impls.types.expression.grammar'
PA = 'exactly_lib.impls.types.expression.parser'
CS = 'exactly_lib.impls.types.matcher.impls.combinator_sdvs'
CM = 'exactly_lib.impls.types.matcher.impls.combinator_matchers'

MATCHER_TYPES = {
    'integer_matcher': 'exactly_lib.impls.types.integer_matcher.parse_integer_matcher',
    'line_matcher': 'exactly_lib.impls.types.line_matcher.parse_line_matcher',
    'string_matcher': 'exactly_lib.impls.types.string_matcher.parse_string_matcher',
    'file_matcher': 'exactly_lib.impls.types.file_matcher.parse_file_matcher',
    'files_matcher': 'exactly_lib.impls.types.files_matcher.parse_files_matcher',
}


def check(c: Check):
    c.explanation = (
        'Precedence and operator tables of the expression grammar extracted by abstract evaluation of new_grammar '
        '(levels in order of increasing precedence: || then &&; prefix !), the constructor chain from each operator to '
        'the primitive combinator of that meaning with operands passed on in order through the SDV / DDV / ADV layers, '
        'who-may-construct a Grammar (the five matcher types all use the one standard grammar), fold shapes of the '
        'combinators (ALL / ANY, lazy, left to right; negation), def-use shape of the precedence-climbing parser '
        '(operands parsed with the strictly remaining levels, operators looked up in the current level), and the '
        'error discipline of the parser. Decides clauses a-f of DESIGN.md C06; not layout / line-break acceptance.')
    clause_a(c)
    clause_b(c)
    clause_c(c)
    clause_d(c)
    clause_e(c)
    clause_f(c)


def _const(v):
    return v.v if isinstance(v, K) else None


def _nav(ix, v):
    """(name, value) of a NameAndValue(...) abstract value"""
    con = util.constructed(ix, v)
    if con is None or not con[0].endswith(':NameAndValue'):
        return None
    args = con[1]
    if len(args) != 2:
        return None
    return _const(args[0]), args[1]


def _made_by(ix: Index, fv) -> Optional[str]:
    """class an operator's mk_expression function constructs"""
    if isinstance(fv, K) and isinstance(fv.v, Ref) and isinstance(fv.v.d, ClassDef):
        return fv.v.d.key
    fd = fv.fd if isinstance(fv, (FuncVal, BoundMethod)) else None
    if fd is None:
        return None
    r = single_return_expr(fd)
    if isinstance(r, ast.Call):
        d = ix.callee(fd.module, fd, r)
        if isinstance(d, ClassDef):
            # operands passed as given?
            first = r.args[0] if r.args else None
            if isinstance(first, ast.Name) and first.id == fd.positional_params()[0].arg:
                return d.key
            return d.key + '?reordered'
    return None


# ---------------------------------------------------------------- a
def clause_a(c: Check):
    ix, fo = c.ix, c.fo
    ng = ix.func(SEG + ':new_grammar')
    paths = util.func_paths(ix, fo, ng, Hooks())
    c.require(len(paths) == 1 and paths[0].kind == 'return', 'C06-a: new_grammar has %d paths' % len(paths))
    con = util.constructed(ix, paths[0].val)
    c.require(con is not None and con[0] == GR + ':Grammar', 'C06-a: new_grammar does not return a Grammar')
    by = con[3]
    levels_v = by.get('infix_operators_in_order_of_increasing_precedence')
    it = Interp(ix, fo)
    levels = it.concrete_items(levels_v)
    c.require(levels is not None, 'C06-a: the infix operator levels are not a literal sequence')
    table = []
    for lv in levels:
        ops = it.concrete_items(lv)
        c.require(ops is not None, 'C06-a: an operator level is not a literal sequence')
        row = []
        for op in ops:
            nv = _nav(ix, op)
            c.require(nv is not None, 'C06-a: operator entry is not NameAndValue(name, operator)')
            name, opv = nv
            ocon = util.constructed(ix, opv)
            mk = ocon[3].get('mk_expression') if ocon else None
            row.append((name, (_made_by(ix, mk) or '?').split(':')[-1]))
        table.append(row)
    want = [[('||', 'Disjunction')], [('&&', 'Conjunction')]]
    c.expect(table == want, 'C06-a', 'new_grammar/infix-levels',
             'infix operators in order of increasing precedence are %s (documented: || binds weaker than &&)' % table,
             ng.loc(), detail=str(table))
    c.sample({'infix operator levels (increasing precedence)': table})
    pre = it.concrete_items(by.get('prefix_operators'))
    c.require(pre is not None, 'C06-a: prefix operators are not a literal sequence')
    ptab = []
    for op in pre:
        nv = _nav(ix, op)
        c.require(nv is not None, 'C06-a: prefix operator entry is not NameAndValue')
        ocon = util.constructed(ix, nv[1])
        mk = ocon[3].get('mk_expression') if ocon else None
        ptab.append((nv[0], (_made_by(ix, mk) or '?').split(':')[-1]))
    c.expect(ptab == [('!', 'Negation')], 'C06-a', 'new_grammar/prefix-operators', 'prefix operators are %s' % ptab, ng.loc())
    for const, val in (('OR_OPERATOR_NAME', '||'), ('AND_OPERATOR_NAME', '&&'), ('NOT_OPERATOR_NAME', '!')):
        v = fo.fold_path('exactly_lib.definitions.logic:' + const)
        c.expect(v == val, 'C06-a', 'logic.' + const, '%s is %r' % (const, v), 'src/exactly_lib/definitions/logic.py')
    # Grammar stores the levels in the given order
    init = ix.func(GR + ':Grammar.__init__')
    ok = False
    for meth, v, st in ix.self_attr_assignments(ix.cls(GR + ':Grammar'), 'infix_ops_inc_precedence'):
        if isinstance(v, ast.ListComp) and len(v.generators) == 1 and not v.generators[0].ifs \
                and unparse(v.generators[0].iter) == 'infix_operators_in_order_of_increasing_precedence':
            ok = True
    c.expect(ok, 'C06-a', 'Grammar/keeps-level-order', 'Grammar does not keep the precedence levels in the given order',
             init.loc())


# ---------------------------------------------------------------- b
def clause_b(c: Check):
    ix = c.ix
    chains = [
        ('Disjunction', 'DisjunctionDdv', 'Disjunction'),
        ('Conjunction', 'ConjunctionDdv', 'Conjunction'),
    ]
    for sdv_name, ddv_name, prim_name in chains:
        sdv = ix.cls(CS + ':' + sdv_name)
        res = ix.class_member(sdv, 'resolve')
        r = single_return_expr(res)
        d = ix.callee(res.module, res, r) if isinstance(r, ast.Call) else None
        ok = isinstance(d, ClassDef) and d.key == CM + ':' + ddv_name
        ok = ok and _is_order_preserving_map(r.args[0], 'self._operands')
        c.expect(bool(ok), 'C06-b', 'chain/%s/sdv->ddv' % sdv_name,
                 '%s.resolve builds %s over %s' % (sdv_name, getattr(d, 'key', None), unparse(r.args[0]) if isinstance(r, ast.Call) and r.args else '?'),
                 res.loc())
        ddv = ix.cls(CM + ':' + ddv_name)
        v = ix.class_member(ddv, 'value_of_any_dependency')
        r = single_return_expr(v)
        ok = isinstance(r, ast.Call) and r.args and getattr(ix.resolve_static(v.module, v, r.args[0]), 'key', None) == CM + ':' + prim_name \
             and unparse(r.args[1]) == 'self._operands'
        c.expect(bool(ok), 'C06-b', 'chain/%s/ddv->adv' % sdv_name,
                 '%s does not make a %s of its operands' % (ddv_name, prim_name), v.loc())
    adv = ix.cls(CM + ':_SequenceOfOperandsAdv')
    of = ix.class_member(adv, 'of')
    r = single_return_expr(of)
    ok = isinstance(r, ast.Call) and len(r.args) >= 2 and unparse(r.args[0]) == 'make_matcher' \
         and _is_order_preserving_map(r.args[1], 'operands')
    c.expect(bool(ok), 'C06-b', 'chain/adv.of', 'the ADV layer does not keep the operands in order', of.loc())
    prim = ix.class_member(adv, 'primitive')
    r = single_return_expr(prim)
    ok = isinstance(r, ast.Call) and unparse(r.func) == 'self._make_matcher' and _is_order_preserving_map(r.args[0], 'self._operands')
    c.expect(bool(ok), 'C06-b', 'chain/adv.primitive', 'the primitive is not made of the operands in order', prim.loc())
    # negation chain
    nsdv = ix.cls(CS + ':Negation')
    r = single_return_expr(ix.class_member(nsdv, 'resolve'))
    ok = isinstance(r, ast.Call) and getattr(ix.callee(nsdv.module, ix.class_member(nsdv, 'resolve'), r), 'key', None) == CM + ':NegationDdv'
    c.expect(bool(ok), 'C06-b', 'chain/Negation/sdv->ddv', 'Negation.resolve does not build NegationDdv', nsdv.loc())
    nadv = ix.cls(CM + ':_NegationAdv')
    r = single_return_expr(ix.class_member(nadv, 'primitive'))
    ok = isinstance(r, ast.Call) and getattr(ix.callee(nadv.module, ix.class_member(nadv, 'primitive'), r), 'key', None) == CM + ':Negation'
    c.expect(bool(ok), 'C06-b', 'chain/Negation/adv->primitive', '_NegationAdv does not build Negation', nadv.loc())


def _is_order_preserving_map(node, src: str) -> bool:
    """[f(x) for x in <src>]  (no filter, single generator) or <src> itself"""
    if unparse(node) == src:
        return True
    return isinstance(node, ast.ListComp) and len(node.generators) == 1 and not node.generators[0].ifs \
        and unparse(node.generators[0].iter) == src


# ---------------------------------------------------------------- c
ALLOWED_GRAMMAR_CTORS = {
    SEG + ':new_grammar': 'the standard matcher grammar',
    'exactly_lib.impls.types.string_transformer.parse_string_transformer': 'string transformers (| composition)',
    'exactly_lib.impls.types.files_condition.parse': 'files-condition (no operators)',
    'exactly_lib.impls.types.files_source.parse:_grammar': 'files-source (no operators)',
}


def clause_c(c: Check):
    ix, fo = c.ix, c.fo
    gcls = ix.cls(GR + ':Grammar')
    sites = util.call_sites_of(ix, gcls)
    for s in sites:
        where = s.where.replace(':<module>', '')
        ok = any(where == k or where.startswith(k + ':') or where.startswith(k) for k in ALLOWED_GRAMMAR_CTORS)
        c.expect(ok, 'C06-c', 'Grammar()@' + where, 'an expression grammar is constructed in %s' % where, s.loc)
    c.floor('C06-c', 'Grammar constructions', len(sites), 4)
    ng = ix.func(SEG + ':new_grammar')
    for t, modname in sorted(MATCHER_TYPES.items()):
        m = ix.module(modname)
        ok = False
        for node in ast.walk(m.tree):
            if isinstance(node, ast.Call) and ix.callee(m, m.enclosing_func(node), node) == ng:
                ok = True
        c.expect(ok, 'C06-c', 'uses-standard-grammar/' + t, 'the %s does not build its grammar with new_grammar' % t,
                 m.relpath)
    # string transformer: one infix level, | -> sequence, applied left to right
    stm = ix.module('exactly_lib.impls.types.string_transformer.parse_string_transformer')
    gv = stm.defs.get('GRAMMAR')
    c.require(gv is not None and isinstance(gv.value, ast.Call), 'C06-c: string transformer GRAMMAR not found')
    b = util.ctor_call_args(ix, gcls, gv.value) or {}
    lv = b.get('infix_operators_in_order_of_increasing_precedence')
    ok = isinstance(lv, (ast.Tuple, ast.List)) and len(lv.elts) == 1 and isinstance(lv.elts[0], (ast.Tuple, ast.List)) \
         and len(lv.elts[0].elts) == 1
    name = None
    if ok:
        nv = lv.elts[0].elts[0]
        name = fo.fold(stm, None, nv.args[0]) if isinstance(nv, ast.Call) and nv.args else None
    c.expect(ok and name == '|', 'C06-c', 'string-transformer/one-level-pipe',
             'the string transformer grammar does not have exactly one infix operator | (%s)' % name, stm.relpath)
    seq = ix.try_lookup('exactly_lib.impls.types.string_transformer.impl.sequence:SequenceStringTransformer.transform')
    if not isinstance(seq, FuncDef):
        seq = None
        sm = ix.module('exactly_lib.impls.types.string_transformer.impl.sequence')
        for cls in sm.all_classes:
            f = cls.methods.get('transform') or cls.methods.get('_transform')
            if f is not None and any(isinstance(n, ast.For) for n in ast.walk(f.node)):
                seq = f
    c.require(seq is not None, 'C06-c: sequence transformer application not found')
    loops = [n for n in ast.walk(seq.node) if isinstance(n, ast.For)]
    ok = len(loops) == 1 and isinstance(loops[0].iter, (ast.Attribute, ast.Name))
    c.expect(ok, 'C06-c', 'string-transformer/sequence-left-to-right',
             'the sequence applies its transformers as %s' % (unparse(loops[0].iter) if loops else None), seq.loc())


# ---------------------------------------------------------------- d
def clause_d(c: Check):
    ix = c.ix

    def elem(d, n, cv):
        return isinstance(n.func, ast.Attribute) and n.func.attr == 'matches_w_trace'

    check_bool_fold(c, 'C06-d', ix.func(CM + ':Conjunction.matches_w_trace'), elem, 'ALL')
    check_bool_fold(c, 'C06-d', ix.func(CM + ':Disjunction.matches_w_trace'), elem, 'ANY')
    # negation
    neg = ix.func(CM + ':Negation.matches_w_trace')
    mr = ix.cls('exactly_lib.type_val_prims.matcher.matching_result:MatchingResult')
    hooks = ForkHooks(ix)
    hooks.fork_on(elem, [('T', lambda: K(Record(mr, {'value': True, 'trace': Sym('t')}))),
                         ('F', lambda: K(Record(mr, {'value': False, 'trace': Sym('t')})))])
    from .common import _bool_of_result
    for p in util.func_paths(ix, c.fo, neg, hooks):
        lab = labels_of(p)
        c.require(len(lab) == 1, 'C06-d: Negation evaluates its operand %d times' % len(lab))
        got = _bool_of_result(ix, p.val) if p.kind == 'return' else None
        c.expect(got is (lab[0] == 'F'), 'C06-d', 'Negation.matches_w_trace/' + lab[0],
                 'the negation of a %s operand is %s' % ('matching' if lab[0] == 'T' else 'non-matching', got), neg.loc())


# ---------------------------------------------------------------- e
def clause_e(c: Check):
    """precedence climbing: def-use shape of _Parser.parse_w_infix_ops"""
    ix = c.ix
    f = ix.func(PA + ':_Parser.parse_w_infix_ops')
    levels = [p.arg for p in f.positional_params() if 'levels' in p.arg]
    c.require(len(levels) == 1, 'C06-e: levels parameter of parse_w_infix_ops not found')
    lv = levels[0]
    b = f.local_bindings()
    cur = [n for n, bs in b.items() if any(x[0] == 'assign' and x[1] is not None and unparse(x[1]) == lv + '[0]' for x in bs)]
    nxt = [n for n, bs in b.items() if any(x[0] == 'assign' and x[1] is not None and unparse(x[1]) == lv + '[1:]' for x in bs)]
    c.expect(len(cur) == 1 and len(nxt) == 1, 'C06-e', 'parse_w_infix_ops/levels-split',
             'the levels are not split into current (%s[0]) and strictly remaining (%s[1:])' % (lv, lv), f.loc())
    if len(cur) != 1 or len(nxt) != 1:
        return
    cur, nxt = cur[0], nxt[0]
    # operands: parsed with the remaining levels only
    operand_calls = [n for n in ast.walk(f.node) if isinstance(n, ast.Call) and isinstance(n.func, ast.Attribute)
                     and n.func.attr in ('parse_w_maybe_infix_ops', 'infix_op_sequence_for_single_op')]
    ok = bool(operand_calls)
    for call in operand_calls:
        names = {x.id for a in call.args + [k.value for k in call.keywords] for x in ast.walk(a) if isinstance(x, ast.Name)}
        if lv in names:
            ok = False
        if call.func.attr == 'parse_w_maybe_infix_ops' and nxt not in names:
            ok = False
        if call.func.attr == 'infix_op_sequence_for_single_op' and nxt not in names:
            ok = False
    c.expect(ok, 'C06-e', 'parse_w_infix_ops/operands-use-higher-levels',
             'operands of a level are not parsed with the strictly higher-precedence levels only', f.loc())
    # operators: looked up among the names of the current level
    names_var = [n for n, bs in b.items() if any(x[0] == 'assign' and x[1] is not None and unparse(x[1]) == cur + '.keys()' for x in bs)]
    ok = len(names_var) == 1
    if ok:
        for call in ast.walk(f.node):
            if isinstance(call, ast.Call) and isinstance(call.func, ast.Attribute) and call.func.attr == 'parse_optional_infix_op_name':
                if names_var[0] not in [unparse(a) for a in call.args]:
                    ok = False
        subs = [n for n in ast.walk(f.node) if isinstance(n, ast.Subscript) and unparse(n.value) == cur]
        ok = ok and len(subs) >= 1
    c.expect(ok, 'C06-e', 'parse_w_infix_ops/operators-of-current-level',
             'operators are not looked up in the current precedence level', f.loc())
    # parenthesised expression: the full grammar again, then a mandatory )
    pm = ix.func(PA + ':_Parser.parse_mandatory_primitive')
    src = unparse(pm.node)
    ok = 'self.parse(_IS_INSIDE_PARENTHESES)' in src and 'self.consume_mandatory_end_parentheses()' in src \
         and src.index('self.parse(_IS_INSIDE_PARENTHESES)') < src.index('self.consume_mandatory_end_parentheses()')
    c.expect(ok, 'C06-e', 'parse_mandatory_primitive/parentheses', 'a parenthesised expression is not parsed with the '
                                                                   'full grammar followed by a mandatory )', pm.loc())
    ok = 'self.parse_mandatory_primitive(' in src and 'mk_prefix_op_expr(expression)' in src
    c.expect(ok, 'C06-e', 'parse_mandatory_primitive/prefix-operator-binds-primitive',
             'a prefix operator is not applied to the following primitive only', pm.loc())
    # parse() starts with all levels of the grammar
    p0 = ix.func(PA + ':_Parser.parse')
    r = single_return_expr(p0)
    ok = r is not None and 'self.grammar.infix_ops_inc_precedence' in unparse(r)
    c.expect(ok, 'C06-e', 'parse/starts-with-all-levels', 'parsing does not start from the lowest precedence level', p0.loc())
    # operand sequence of one operator is kept in order and handed to the operator
    sq = ix.func(PA + ':_Parser.infix_op_sequence_for_single_op')
    src = unparse(sq.node)
    ok = 'operands = [first_operand]' in src and 'operands.append(next_operand)' in src \
         and 'return operator.mk_expression(operands)' in src
    c.expect(ok, 'C06-e', 'infix_op_sequence_for_single_op/operands-in-order', 'operands are not collected in source '
                                                                              'order', sq.loc())


# ---------------------------------------------------------------- f
def clause_f(c: Check):
    ix = c.ix
    m = ix.module(PA)
    siiae = ix.cls('exactly_lib.section_document.element_parsers.instruction_parser_exceptions:'
                   'SingleInstructionInvalidArgumentException')
    n = 0
    for node in ast.walk(m.tree):
        if isinstance(node, ast.Raise) and node.exc is not None:
            n += 1
            f = m.enclosing_func(node)
            d = ix.callee(m, f, node.exc) if isinstance(node.exc, ast.Call) else ix.resolve_static(m, f, node.exc)
            c.expect(d == siiae, 'C06-f', 'raise@%s' % (f.key if f else PA),
                     'the expression parser raises %s' % getattr(d, 'key', unparse(node.exc)), '%s:%d' % (m.relpath, node.lineno))
        if isinstance(node, ast.ExceptHandler):
            f = m.enclosing_func(node)
            c.bad('C06-f', 'handler@%s' % (f.key if f else PA), 'the expression parser catches exceptions (a malformed '
                                                               'expression could be re-read as something else)',
                  '%s:%d' % (m.relpath, node.lineno))
    c.floor('C06-f', 'raise statements in the expression parser', n, 2)
