"""C15 Directory trees: populating from a file list and matching directory contents (DESIGN.md section 5,
clauses a-h)."""
import ast
from typing import List, Optional

from ..core import Index, FuncDef, ClassDef, External, AnalysisError, unparse, walk_own, dotted_name, parent, ancestors
from ..fold import Folder, Record, EnumMember, Ref, is_unknown, single_return_expr
from ..absint import Interp, Hooks, State, K, Sym, Obj, Exc, NONE, ListVal, FuncVal, BoundMethod
from ..report import Check
from .. import util
from .common import ForkHooks, labels_of, check_bool_fold, _bool_of_result
from .common import check_zero_is_a_value

FL = 'exactly_lib.impls.types.files_source.impl.file_list'
FM = 'exactly_lib.impls.types.files_matcher.models'
QM = 'exactly_lib.impls.types.matcher.impls.quantifier_matchers'
CM = 'exactly_lib.impls.types.matcher.impls.combinator_matchers'
FC = 'exactly_lib.impls.file_creation'
FP = 'exactly_lib.impls.file_properties'

NO_LINK_RESOLUTION_PACKAGES = ('exactly_lib.impls.types.file_matcher', 'exactly_lib.impls.types.files_matcher',
                               'exactly_lib.impls.types.files_condition', 'exactly_lib.impls.types.files_source',
                               'exactly_lib.type_val_prims.matcher')
LINK_RESOLVING_CALLS = {'resolve', 'absolute', 'readlink'}
LINK_RESOLVING_FUNCS = {'os.path.realpath', 'os.path.abspath', 'os.readlink'}


def check(c: Check):
    c.explanation = (
        'Obligations on the file-list populator (the name validator is composed into the validator of every entry '
        'with the entry\'s own name and rejects absolute names and `..` parts; entries reach the populator only through '
        'the validated layers; the target of an entry is built from the parts of its name under the populated '
        'directory; entries are applied in the listed order through the SDV / DDV / ADV / primitive layers), path '
        'analysis of file creation (an existing path is refused before anything is opened; files are opened in '
        'exclusive mode), fold shapes of the quantifiers and of matches -full / non-full, composition of selection '
        '(conjunction, earlier selection first) and pruning (disjunction), agreement of the file-type tables (syntax '
        'token, stat predicate, path predicate, both file-type accessors), and absence of symbolic-link resolution in '
        'the matcher packages. Decides clauses a-h of DESIGN.md C15; not the tree produced / matched, depth limits or '
        'counting (value level).')
    clause_a(c)
    clause_b(c)
    clause_c(c)
    clause_d(c)
    clause_e(c)
    clause_f(c)
    clause_g(c)
    clause_h(c)
    clause_j(c)
    clause_k(c)
    clause_m(c)
    # l: depth limits - 0 is a limit, not "no limit"
    check_zero_is_a_value(c, 'C15-l', ['exactly_lib.impls.types.files_matcher.models',
                                       'exactly_lib.impls.types.file_matcher.impl.dir_contents'], 4,
                          '`-min-depth 0` / `-max-depth 0` are limits, not "no limit"')
    from .common import sweep_records
    sweep_records(c, 'C15-rec', ['exactly_lib.impls.file_properties', 'exactly_lib.impls.types.files_matcher', 'exactly_lib.impls.types.file_matcher', 'exactly_lib.impls.types.files_source'], floor=3)
    from .common import check_application_purity
    check_application_purity(c, 'C15-i', ['exactly_lib.type_val_prims.matcher.matcher_base_class:MatcherWTrace', 'exactly_lib.type_val_prims.string_transformer:StringTransformer'], floor=25)


class _NoInline(Hooks):
    loop_bound = 3

    def inline(self, fd, st):
        return False

    def inline_class(self, cd, st):
        return False


# ---------------------------------------------------------------- a
def clause_a(c: Check):
    ix, fo = c.ix, c.fo
    ddv = ix.cls(FL + ':FileSpecificationDdv')
    val = ix.cls(FL + ':_IsValidPosixPath')
    it = Interp(ix, fo, _NoInline())
    name, maker = Sym('name'), Sym('maker')
    init = ix.class_member(ddv, '__init__')
    pp = [p.arg for p in init.positional_params()[1:]]
    c.require(len(pp) == 2, 'C15-a: FileSpecificationDdv.__init__ does not take (name, maker)')
    insts = it.instantiate(ddv, State(), {pp[0]: name, pp[1]: maker})
    c.require(len(insts) == 1, 'C15-a: FileSpecificationDdv.__init__ forks')
    obj, st = insts[0]
    v = st.heap.get((obj.oid, '_validator'))
    o = v.origin if isinstance(v, Sym) else None
    ok = bool(o) and o[0] == 'call' and o[1].endswith('ddv_validators:all_of') and o[2] and isinstance(o[2][0], ListVal)
    has_name_validator = False
    has_maker_validator = False
    if ok:
        for x in o[2][0].items:
            con = util.constructed(ix, x)
            if con is not None and con[0] == val.key and con[1] and con[1][0] is name:
                has_name_validator = True
            b, n = util.attr_chain(x)
            if n[-1:] == ('validator',):
                has_maker_validator = True
    c.expect(ok and has_name_validator, 'C15-a', 'FileSpecificationDdv/name-validator-composed',
             'the validator of a file-list entry does not include _IsValidPosixPath(<the entry\'s name>) (an absolute or '
             '`..` name would be created outside the populated directory)', ddv.loc())
    c.expect(ok and has_maker_validator, 'C15-a', 'FileSpecificationDdv/maker-validator-composed',
             'the validator of a file-list entry does not include the validator of its contents', ddv.loc())
    vm = ix.class_member(ddv, 'validator')
    r = single_return_expr(vm)
    c.expect(isinstance(r, ast.Attribute) and r.attr == '_validator', 'C15-a', 'FileSpecificationDdv.validator',
             'FileSpecificationDdv.validator() does not give the composed validator', vm.loc())
    # the list: the validators of all entries
    dcls = ix.cls(FL + ':_Ddv')
    it = Interp(ix, fo, _NoInline())
    f0, f1 = Sym('file0', cls=ddv), Sym('file1', cls=ddv)
    insts = it.instantiate(dcls, State(), {ix.class_member(dcls, '__init__').positional_params()[1].arg: ListVal([f0, f1])})
    c.require(len(insts) == 1, 'C15-a: _Ddv.__init__ forks')
    obj, st = insts[0]
    v = st.heap.get((obj.oid, '_validator'))
    o = v.origin if isinstance(v, Sym) else None
    ok = bool(o) and o[0] == 'call' and o[1].endswith('ddv_validators:all_of') and o[2] and isinstance(o[2][0], ListVal) \
         and len(o[2][0].items) == 2
    if ok:
        for x, f in zip(o[2][0].items, (f0, f1)):
            xo = x.origin if isinstance(x, Sym) else None
            ev = st.trace[xo[5]] if xo and xo[0] == 'call' and xo[5] is not None else None
            ok = ok and ev is not None and ev.data.get('recv') is f and xo[1].endswith('FileSpecificationDdv.validator')
    c.expect(bool(ok), 'C15-a', '_Ddv/all-entry-validators', 'the validator of a file list is not all_of(the validator of '
                                                             'every entry)', dcls.loc())
    vp = ix.class_member(dcls, 'validator')
    r = single_return_expr(vp)
    c.expect(isinstance(r, ast.Attribute) and r.attr == '_validator', 'C15-a', '_Ddv.validator',
             'the file list does not report its composed validator', vp.loc())
    # the name validator rejects absolute names and `..` parts
    f = ix.class_member(val, 'validate_pre_sds_if_applicable')
    hooks = ForkHooks(ix, loop_bound=1)
    paths = util.func_paths(ix, fo, f, hooks)
    c.count(len(paths))
    kinds = {'absolute': False, 'dotdot': False}
    n_none = 0
    for p in paths:
        guards = [e.data for e in p.trace if e.kind == 'guard']
        last_true = [t for t, truth in guards if truth][-1:]
        for t, truth in guards:
            k = _name_guard_kind(f, t)
            if k and truth:
                kinds[k] = kinds[k] or (p.kind == 'return' and not (isinstance(p.val, K) and p.val.v is None)
                                        and last_true and last_true[0] is t)
                c.expect(p.kind == 'return' and not (isinstance(p.val, K) and p.val.v is None), 'C15-a',
                         '_IsValidPosixPath/%s-rejected' % k, 'a name that is %s is accepted' % (
                             'absolute' if k == 'absolute' else 'holding a `..` part'), f.loc())
        if p.kind == 'return' and isinstance(p.val, K) and p.val.v is None:
            n_none += 1
            ks = {_name_guard_kind(f, t): truth for t, truth in guards if _name_guard_kind(f, t)}
            c.expect(ks == {'absolute': False, 'dotdot': False}, 'C15-a', '_IsValidPosixPath/accepts-only-checked-names',
                     'a name is accepted on a path where the tests for absolute / `..` gave %s' % ks, f.loc())
    for k, seen in sorted(kinds.items()):
        c.expect(bool(seen), 'C15-a', '_IsValidPosixPath/tests-' + k,
                 'the name validator has no test that rejects a name that is %s (recognised forms: '
                 '`<PurePosixPath(name)>.is_absolute()`, `\'..\' in <PurePosixPath(name)>.parts`)' % (
                     'absolute' if k == 'absolute' else 'holding a `..` part'), f.loc())
    c.floor('C15-a', 'accepting paths of the name validator', n_none, 1)
    # closed world: primitive entries come from the ADV, which comes from the DDV
    spec, adv = ix.cls(FL + ':FileSpecification'), ix.cls(FL + ':FileSpecificationAdv')
    for cls, allowed in ((spec, FL + ':FileSpecificationAdv.primitive'), (adv, FL + ':FileSpecificationDdv.value_of_any_dependency')):
        sites = util.call_sites_of(ix, cls)
        for s in sites:
            c.expect(s.where == allowed, 'C15-a', 'constructed/%s@%s' % (cls.name, s.where),
                     '%s is constructed in %s: its name does not come through the validated layer' % (cls.name, s.where), s.loc)
        c.floor('C15-a', 'constructions of ' + cls.name, len(sites), 1)
    # populate: target = the populated directory followed by the parts of the entry's name
    prim = ix.cls(FL + ':Primitive')
    pop = ix.class_member(prim, 'populate')
    child = ix.func(FL + ':_child_dp')
    it = Interp(ix, fo, _NoInline())
    st = State()
    obj = it.new_obj(prim)
    e0, e1, e2 = (Sym('entry%d' % i, cls=spec) for i in range(3))
    st.heap[(obj.oid, '_files')] = ListVal([e0, e1, e2])
    directory = Sym('directory')
    paths = it.run_function(pop, {pop.positional_params()[1].arg: directory}, st, recv=obj)
    c.require(len(paths) == 1, 'C15-b: populate has %d paths for a literal list' % len(paths))
    makes = [e for e in paths[0].calls() if isinstance(e.node.func, ast.Attribute) and e.node.func.attr == 'make']
    order_ok = len(makes) == 3
    target_ok = len(makes) == 3
    for e, ent in zip(makes, (e0, e1, e2)):
        cvb, cvn = util.attr_chain(e.data.get('recv') if e.data.get('recv') is not None else util.attr_chain(e.data.get('callee_val'))[0])
        if e.data.get('recv') is None:
            cvb, cvn = util.attr_chain(e.data.get('callee_val'))
            cvn = cvn[:-1]
        order_ok = order_ok and cvb is ent and cvn == ('maker',)
        a = e.data['args'][0] if e.data['args'] else None
        ao = a.origin if isinstance(a, Sym) else None
        t_ok = bool(ao) and ao[0] == 'call' and ao[1] == child.key and len(ao[2]) == 2 and ao[2][0] is directory
        if t_ok:
            po = ao[2][1].origin if isinstance(ao[2][1], Sym) else None
            t_ok = bool(po) and po[0] == 'call' and po[1].endswith('PurePosixPath') and len(po[2]) == 1 \
                   and util.attr_chain(po[2][0]) == (ent, ('name',))
        target_ok = target_ok and t_ok
    c.expect(order_ok, 'C15-b', 'Primitive.populate/listed-order', 'the entries of a file list are not made in the listed '
                                                                  'order, each by its own maker', pop.loc())
    c.expect(target_ok, 'C15-a', 'Primitive.populate/target-under-directory',
             'an entry is not made at _child_dp(<populated directory>, PurePosixPath(<its own name>))', pop.loc())
    loops = [n for n in walk_own(child.node) if isinstance(n, ast.For)]
    ok = len(loops) == 1 and isinstance(loops[0].iter, ast.Attribute) and loops[0].iter.attr == 'parts' \
         and any(isinstance(n, ast.Call) and isinstance(n.func, ast.Attribute) and n.func.attr == 'child'
                 and [unparse(a) for a in n.args] == [loops[0].target.id] for n in ast.walk(loops[0]))
    c.expect(ok, 'C15-a', '_child_dp/descends-by-parts', 'the target path is not built by descending one validated part '
                                                         'at a time', child.loc())


def _name_guard_kind(f: FuncDef, test) -> Optional[str]:
    """classifies a guard of the name validator: 'absolute' / 'dotdot' / None"""
    def is_pure_path_of_name(node) -> bool:
        if isinstance(node, ast.Name):
            for kind, value, _ in f.local_bindings().get(node.id, []):
                if kind == 'assign' and isinstance(value, ast.Call) and unparse(value.func).endswith('PurePosixPath') \
                        and len(value.args) == 1:
                    return True
            return False
        return isinstance(node, ast.Call) and unparse(node.func).endswith('PurePosixPath')

    if isinstance(test, ast.Call) and isinstance(test.func, ast.Attribute) and test.func.attr == 'is_absolute' \
            and is_pure_path_of_name(test.func.value):
        return 'absolute'
    if isinstance(test, ast.Compare) and len(test.ops) == 1 and isinstance(test.ops[0], ast.In) \
            and isinstance(test.left, ast.Constant) and test.left.value == '..' \
            and isinstance(test.comparators[0], ast.Attribute) and test.comparators[0].attr == 'parts' \
            and is_pure_path_of_name(test.comparators[0].value):
        return 'dotdot'
    return None


# ---------------------------------------------------------------- b
def clause_b(c: Check):
    """the layers keep the listed order"""
    ix, fo = c.ix, c.fo
    for cname, meth, attr, made in (('Sdv', 'resolve', '_files', '_Ddv'),
                                    ('_Ddv', 'value_of_any_dependency', '_files', '_Adv'),
                                    ('_Adv', 'primitive', '_files', 'Primitive')):
        cls = ix.cls(FL + ':' + cname)
        f = ix.class_member(cls, meth)
        it = Interp(ix, fo, _NoInline())
        st = State()
        obj = it.new_obj(cls)
        xs = [Sym('x%d' % i) for i in range(3)]
        st.heap[(obj.oid, attr)] = ListVal(list(xs))
        paths = it.run_function(f, {}, st, recv=obj)
        ok = len(paths) == 1 and paths[0].kind == 'return'
        if ok:
            con = util.constructed(ix, paths[0].val)
            ok = con is not None and con[0] == FL + ':' + made and con[1] and isinstance(con[1][0], ListVal) \
                 and len(con[1][0].items) == 3
            if ok:
                for x, src in zip(con[1][0].items, xs):
                    xo = x.origin if isinstance(x, Sym) else None
                    cv = paths[0].trace[xo[5]].data.get('callee_val') if xo and xo[0] == 'call' and xo[5] is not None else None
                    ok = ok and cv is not None and util.attr_chain(cv)[0] is src
        c.expect(bool(ok), 'C15-b', 'layer/%s.%s' % (cname, meth),
                 '%s.%s does not build %s from its entries one by one in the listed order' % (cname, meth, made), f.loc())
    # the stored sequence is the given one
    for cname in ('Sdv', '_Ddv', '_Adv', 'Primitive'):
        cls = ix.cls(FL + ':' + cname)
        ok = False
        init = ix.class_member(cls, '__init__')
        for meth, v, st_ in ix.self_attr_assignments(cls, '_files'):
            ok = isinstance(v, ast.Name) and v.id == init.positional_params()[1].arg
        c.expect(ok, 'C15-b', 'layer/%s/keeps-sequence' % cname, '%s does not keep the entries as given' % cname, cls.loc())


# ---------------------------------------------------------------- c
def clause_c(c: Check):
    ix, fo = c.ix, c.fo

    def elem(d, n, cv):
        return isinstance(n.func, ast.Attribute) and n.func.attr == 'matches_w_trace'

    inl = [ix.func(QM + ':_QuantifierBase._report_final_element'), ix.func(QM + ':Exists._no_match'),
           ix.func(QM + ':ForAll._all_match')]
    check_bool_fold(c, 'C15-c', ix.func(QM + ':Exists._matches'), elem, 'ANY', inline=inl)
    check_bool_fold(c, 'C15-c', ix.func(QM + ':ForAll._matches'), elem, 'ALL', inline=inl)
    q = ix.cls('exactly_lib.util.logic_types:Quantifier')
    members = fo.enum_members(q)
    table = fo.fold_path(QM + ':_QuantifierAdv.MATCHER_MAKER')
    c.require(isinstance(table, dict), 'C15-c: MATCHER_MAKER is not a literal table')
    got = {k.name: (v.d.name if isinstance(v, Ref) else str(v)) for k, v in table.items() if isinstance(k, EnumMember)}
    c.expect(got == {'ALL': 'ForAll', 'EXISTS': 'Exists'} and set(got) == set(members), 'C15-c', 'MATCHER_MAKER',
             'quantifier -> matcher table is %s' % got, QM)
    args = fo.fold_path('exactly_lib.definitions.logic:QUANTIFIER_ARGUMENTS')
    ok = isinstance(args, dict) and {k.name for k in args if isinstance(k, EnumMember)} == set(members) \
         and len(set(args.values())) == len(members)
    c.expect(bool(ok), 'C15-c', 'QUANTIFIER_ARGUMENTS', 'quantifier syntax table is not total and injective: %s' % (args,),
             'src/exactly_lib/definitions/logic.py')
    # the quantified elements are all files of the model
    fe = ix.func('exactly_lib.impls.types.files_matcher.impl.quant_over_files:_file_elements_from_model')
    ys = [n for n in ast.walk(fe.node) if isinstance(n, ast.Yield)]
    ok = len(ys) == 1 and isinstance(ys[0].value, ast.GeneratorExp) and len(ys[0].value.generators) == 1 \
         and not ys[0].value.generators[0].ifs and unparse(ys[0].value.generators[0].iter).endswith('.files()') \
         and unparse(ys[0].value.elt) == ys[0].value.generators[0].target.id + '.as_file_matcher_model()'
    c.expect(ok, 'C15-c', 'quantification/every-file', 'quantification over files does not range over every file of the '
                                                       'model', fe.loc())


# ---------------------------------------------------------------- d
def clause_d(c: Check):
    ix, fo = c.ix, c.fo
    f = ix.func(FC + ':_create_file')
    fnf = External('builtins.FileNotFoundError')
    nad = External('builtins.NotADirectoryError')
    hooks = ForkHooks(ix, loop_bound=1)
    hooks.fork_on(lambda d, n, cv: isinstance(n.func, ast.Attribute) and n.func.attr == 'lstat',
                  [('exists', lambda: Sym('stat-result', nullness=False, truth=True)),
                   ('missing', ('raise', fnf)), ('not-a-dir', ('raise', nad))])
    hooks.fork_on(lambda d, n, cv: isinstance(n.func, ast.Name) and n.func.id == f.positional_params()[1].arg,
                  [('parent-ok', lambda: NONE), ('parent-error', lambda: Sym('parent-error', nullness=False, truth=True))])
    paths = util.func_paths(ix, fo, f, hooks)
    c.count(len(paths))
    seen = set()
    for p in paths:
        labs = labels_of(p)
        opens = [e for e in p.calls() if isinstance(e.node.func, ast.Attribute) and e.node.func.attr == 'open']
        key = labs[0] if labs else '?'
        seen.add(key)
        if key in ('exists', 'not-a-dir'):
            ok = p.kind == 'return' and not opens and not (isinstance(p.val, K) and p.val.v is None)
            c.expect(ok, 'C15-d', '_create_file/%s-refused' % key,
                     'when the path %s the file is %s' % ('exists' if key == 'exists' else 'runs through a non-directory',
                                                          'opened' if opens else 'reported as created'), f.loc())
        elif labs[:2] == ['missing', 'parent-error']:
            ok = p.kind == 'return' and not opens and not (isinstance(p.val, K) and p.val.v is None)
            c.expect(ok, 'C15-d', '_create_file/parent-error-reported', 'an error for the parent directory is not reported', f.loc())
        elif labs[:2] == ['missing', 'parent-ok']:
            ok = len(opens) == 1 and opens[0].data['args'] and isinstance(opens[0].data['args'][0], K) \
                 and opens[0].data['args'][0].v == 'x'
            c.expect(ok, 'C15-d', '_create_file/exclusive-open',
                     'a new file is not opened in exclusive-creation mode "x" (an existing file could be overwritten)', f.loc())
    c.expect({'exists', 'missing', 'not-a-dir'} <= seen, 'C15-d', '_create_file/cases', 'cases analysed: %s' % sorted(seen), f.loc())


# ---------------------------------------------------------------- e
def clause_e(c: Check):
    ix, fo = c.ix, c.fo
    cls = ix.cls(FM + ':_FilesMatcherModelForDir')
    init = ix.class_member(cls, '__init__')
    names = [p.arg for p in init.positional_params()[1:]]
    c.require(len(names) == 4, 'C15-e: _FilesMatcherModelForDir.__init__ does not take 4 components')
    sel_p = [n for n in names if 'selection' in n]
    prune_p = [n for n in names if 'prune' in n]
    c.require(len(sel_p) == 1 and len(prune_p) == 1, 'C15-e: selection / prune parameters not recognised')

    class H(Hooks):
        def inline(self, fd, st):
            return fd.module.name == FM and fd.cls is None and fd.name.startswith('_')

        def inline_class(self, cd, st):
            return cd is cls

    for meth, comp_attr, other_attr, comb in (('sub_set', '_files_selection', '_directory_prune', 'Conjunction'),
                                              ('prune', '_directory_prune', '_files_selection', 'Disjunction')):
        f = ix.class_member(cls, meth)
        for existing in (False, True):
            it = Interp(ix, fo, H())
            st = State()
            obj = it.new_obj(cls)
            old = Sym('earlier-' + comp_attr, nullness=False, truth=True) if existing else NONE
            other = Sym('other-' + other_attr)
            st.heap[(obj.oid, comp_attr)] = old
            st.heap[(obj.oid, other_attr)] = other
            dirp, gen = Sym('dir'), Sym('generator')
            st.heap[(obj.oid, '_dir_path')] = dirp
            st.heap[(obj.oid, '_files_generator')] = gen
            new = Sym('new-matcher', nullness=False, truth=True)
            paths = it.run_function(f, {f.positional_params()[1].arg: new}, st, recv=obj)
            key = '%s/%s' % (meth, 'with-earlier' if existing else 'first')
            ok = len(paths) == 1 and paths[0].kind == 'return' and isinstance(paths[0].val, Obj) and paths[0].val.cls is cls
            got = None
            if ok:
                heap = paths[0].state.heap
                r = paths[0].val
                got = heap.get((r.oid, comp_attr))
                keep = heap.get((r.oid, other_attr)) is other and heap.get((r.oid, '_dir_path')) is dirp \
                       and heap.get((r.oid, '_files_generator')) is gen
                c.expect(keep, 'C15-e', key + '/other-components-kept',
                         '%s does not keep the directory, the generator and the other matcher' % meth, f.loc())
                if not existing:
                    ok = got is new
                else:
                    con = util.constructed(ix, got)
                    ok = con is not None and con[0] == CM + ':' + comb and con[1] and isinstance(con[1][0], ListVal) \
                         and len(con[1][0].items) == 2 and con[1][0].items[0] is old and con[1][0].items[1] is new
            c.expect(bool(ok), 'C15-e', key,
                     '%s gives %s (expected %s)' % (meth, util.describe(got) if got is not None else 'no model',
                                                    'the given matcher' if not existing else
                                                    '%s([earlier, given]) - the earlier one is applied first' % comb), f.loc())
    # files(): the selection filters the generated files, pruning goes to the generator
    ff = ix.class_member(cls, 'files')
    ok = False
    gens = [n for n in ast.walk(ff.node) if isinstance(n, ast.GeneratorExp)]
    calls = [n for n in ast.walk(ff.node) if isinstance(n, ast.Call) and isinstance(n.func, ast.Attribute) and n.func.attr == 'generate']
    if len(gens) == 1 and len(calls) == 1:
        g = gens[0]
        ok = [unparse(a) for a in calls[0].args] == ['self._dir_path', 'self._directory_prune'] \
             and len(g.generators) == 1 and len(g.generators[0].ifs) == 1 \
             and unparse(g.generators[0].ifs[0]) == 'self._files_selection.matches_w_trace(%s.as_file_matcher_model()).value' % g.generators[0].target.id \
             and unparse(g.elt) == g.generators[0].target.id
    c.expect(ok, 'C15-e', 'files/selection-filters-pruning-generates',
             'the files of a model are not: generate(directory, prune) filtered by the selection', ff.loc())


# ---------------------------------------------------------------- f
def clause_f(c: Check):
    """who-may-call: no symbolic-link resolution where files are named and matched"""
    ix = c.ix
    n_calls = 0
    n_mod = 0

    def scan(m, report, ix=ix):
        found = 0
        for node in ast.walk(m.tree):
            if not isinstance(node, ast.Call):
                continue
            hit = None
            if isinstance(node.func, ast.Attribute) and node.func.attr in LINK_RESOLVING_CALLS and not node.args \
                    and not node.keywords:
                hit = '.%s()' % node.func.attr
            else:
                f = m.enclosing_func(node)
                d = ix.callee(m, f, node)
                if isinstance(d, External) and d.dotted in LINK_RESOLVING_FUNCS:
                    hit = d.dotted
            if hit:
                found += 1
                report(m, node, hit)
        return found

    def bad(m, node, hit):
        f = m.enclosing_func(node)
        c.bad('C15-f', 'link-resolution@%s' % (f.key if f else m.name),
              '%s resolves symbolic links / makes the path absolute where files are named and matched: the name, path '
              'and type of a symbolic link must be those of the link itself' % hit, '%s:%d' % (m.relpath, node.lineno))

    for name in ix.all_module_names():
        if not name.startswith(NO_LINK_RESOLUTION_PACKAGES):
            continue
        n_mod += 1
        t = ix.text(name)
        if not any(w in t for w in ('resolve()', 'absolute()', 'readlink', 'realpath', 'abspath')):
            continue
        n_calls += scan(ix.module(name), bad)
    c.floor('C15-f', 'modules of the matcher / file-list packages scanned', n_mod, 60)
    if n_calls == 0:
        c.ok('C15-f', 'no-link-resolution', detail='%d modules' % n_mod)
    # positive control: the scanner sees a resolving call when there is one
    import os
    from ..report import VERIF_ROOT
    fix = Index(os.path.join(VERIF_ROOT, 'fixtures', 'link_resolution'))
    seen = []
    for name in fix.all_module_names():
        scan(fix.module(name), lambda m, node, hit: seen.append(hit), fix)
    c.require(sorted(seen) == ['.resolve()', 'os.path.realpath'], 'C15-f: positive control failed: the fixture\'s link '
                                                               'resolutions were seen as %s' % seen)


# ---------------------------------------------------------------- g
def clause_g(c: Check):
    """file types: one meaning per type in every table"""
    ix, fo = c.ix, c.fo
    ft = ix.cls(FP + ':FileType')
    members = fo.enum_members(ft)
    m = ix.module(FP)
    ti = m.defs.get('TYPE_INFO')
    c.require(ti is not None and isinstance(ti.value, ast.Dict), 'C15-g: TYPE_INFO is not a literal table')
    want = {'REGULAR': ('file', 'REGULAR', 'S_ISREG', 'is_file'),
            'DIRECTORY': ('dir', 'DIRECTORY', 'S_ISDIR', 'is_dir'),
            'SYMLINK': ('symlink', 'SYM_LINK', 'S_ISLNK', 'is_symlink')}
    got = {}
    for k, v in zip(ti.value.keys, ti.value.values):
        kv = fo.fold(m, None, k)
        if isinstance(kv, EnumMember) and isinstance(v, ast.Call) and len(v.args) == 4:
            got[kv.name] = (fo.fold(m, None, v.args[0]), unparse(v.args[1]).split('.')[-1],
                            unparse(v.args[2]).split('.')[-1], unparse(v.args[3]).split('.')[-1])
    for name in sorted(members):
        c.expect(got.get(name) == want.get(name), 'C15-g', 'TYPE_INFO/' + name,
                 'file type %s is described by %s (expected %s)' % (name, got.get(name), want.get(name)), m.relpath)
    init = ix.func(FP + ':FileTypeInfo.__init__')
    c.expect([p.arg for p in init.positional_params()[1:]] == ['type_argument', 'name', 'stat_mode_predicate', 'path_predicate'],
             'C15-g', 'FileTypeInfo/parameters', 'FileTypeInfo parameters are %s' % [p.arg for p in init.positional_params()[1:]],
             init.loc())
    for attr in ('type_argument', 'stat_mode_predicate', 'path_predicate'):
        ok = any(isinstance(v, ast.Name) and v.id == attr for meth, v, st_ in ix.self_attr_assignments(ix.cls(FP + ':FileTypeInfo'), attr))
        c.expect(ok, 'C15-g', 'FileTypeInfo.' + attr, 'FileTypeInfo.%s does not store the parameter of that name' % attr, init.loc())
    # accessor for a path
    acc = ix.cls('exactly_lib.impls.types.file_matcher.file_matcher_models:_FileTypeAccessForPath')
    tab = None
    for n in acc.node.body:
        if isinstance(n, ast.Assign) and isinstance(n.value, ast.Dict):
            tab = n.value
    c.require(tab is not None, 'C15-g: table of _FileTypeAccessForPath not found')
    got = {}
    for k, v in zip(tab.keys, tab.values):
        kv = fo.fold(acc.module, None, k)
        if isinstance(kv, EnumMember):
            got[kv.name] = unparse(v).split('.')[-1]
    for name in sorted(members):
        c.expect(got.get(name) == want[name][3], 'C15-g', '_FileTypeAccessForPath/' + name,
                 'type %s of a path is tested with %s' % (name, got.get(name)), acc.loc())
    st = ix.class_member(acc, 'stat')
    ok = True
    for flag, want_call in ((True, 'stat'), (False, 'lstat')):
        got = set()
        for p in util.func_paths(ix, fo, st, _NoInline(), args={st.positional_params()[1].arg: K(flag)}):
            o = p.val.origin if p.kind == 'return' and isinstance(p.val, Sym) else None
            got.add(o[4].func.attr if o and o[0] == 'call' and isinstance(o[4].func, ast.Attribute) else '?')
        ok = ok and got == {want_call}
    c.expect(ok, 'C15-g', '_FileTypeAccessForPath.stat', 'stat(follow_sym_links) does not choose stat() / lstat() by its flag', st.loc())
    # accessor for a directory entry: decision table over the enum
    acc2 = ix.cls(FM + ':_FileTypeAccessForDirEntry')
    f = ix.class_member(acc2, 'is_type')
    for name, mem in sorted(members.items()):
        paths = util.func_paths(ix, fo, f, _NoInline(), args={f.positional_params()[1].arg: K(mem)})
        used = set()
        for p in paths:
            o = p.val.origin if p.kind == 'return' and isinstance(p.val, Sym) else None
            if o and o[0] == 'call' and isinstance(o[4].func, ast.Attribute):
                used.add(o[4].func.attr)
            else:
                used.add('?')
        c.expect(used == {want[name][3]}, 'C15-g', '_FileTypeAccessForDirEntry/' + name,
                 'type %s of a directory entry is tested with %s' % (name, sorted(used)), f.loc())
    st2 = ix.class_member(acc2, 'stat')
    r = single_return_expr(st2)
    ok = isinstance(r, ast.Call) and [(kw.arg, unparse(kw.value)) for kw in r.keywords] == [('follow_symlinks', st2.positional_params()[1].arg)]
    c.expect(ok, 'C15-g', '_FileTypeAccessForDirEntry.stat', 'stat of a directory entry does not pass the follow flag on', st2.loc())
    # type matcher: symbolic links are not followed exactly when the type asked for is symlink
    tm = ix.cls('exactly_lib.impls.types.file_matcher.impl.file_type:FileMatcherType')
    ok = False
    for meth, v, st_ in ix.self_attr_assignments(tm, '_is_follow_sym_links'):
        ok = isinstance(v, ast.Compare) and isinstance(v.ops[0], ast.IsNot) and unparse(v.comparators[0]).endswith('FileType.SYMLINK')
    c.expect(ok, 'C15-g', 'FileMatcherType/follow-links', 'the type matcher does not follow links exactly for the types '
                                                          'other than symlink', tm.loc())
    mt = ix.class_member(tm, 'matches_w_trace')
    for label in ('T', 'F'):
        pass
    hooks = ForkHooks(ix)
    hooks.fork_on(lambda d, n, cv: isinstance(n.func, ast.Attribute) and n.func.attr == 'is_type',
                  [('is', lambda: K(True)), ('is-not', lambda: K(False)), ('os-error', ('raise', External('builtins.OSError')))])
    hooks.inline_set = {f_ for f_ in tm.methods.values() if f_.name.startswith('_') and f_.name != '__init__'}
    for p in util.func_paths(ix, fo, mt, hooks):
        lab = labels_of(p)[:1]
        got = _bool_of_result(ix, p.val) if p.kind == 'return' else None
        if lab:
            c.expect(got is (lab[0] == 'is'), 'C15-g', 'FileMatcherType/' + lab[0],
                     'the type matcher gives %s when the file %s' % (got, {'is': 'is of the type', 'is-not': 'is not of the type',
                                                                             'os-error': 'cannot be examined'}[lab[0]]), mt.loc())
            is_call = [e for e in p.calls() if 'label' in e.data][0]
            a = is_call.data['args'][0] if is_call.data['args'] else None
            c.expect(util.attr_chain(a)[1] == ('_file_type',), 'C15-g', 'FileMatcherType/asks-for-its-type',
                     'the type matcher does not ask for its own type', mt.loc())


# ---------------------------------------------------------------- h
def clause_h(c: Check):
    """matches -full / matches: every listed file with a matcher must match (ALL, lazy)"""
    ix, fo = c.ix, c.fo
    MF = 'exactly_lib.impls.types.files_matcher.impl.matches.matches_full'
    CO = 'exactly_lib.impls.types.files_matcher.impl.matches.common'

    def elem(d, n, cv):
        return isinstance(n.func, ast.Attribute) and n.func.attr == 'matches_w_trace'

    f = ix.func(MF + ':_Applier._continue_w_file_matcher_check')
    rt = ix.try_lookup(CO + ':Applier._result_true')
    c.require(isinstance(rt, FuncDef), 'C15-h: Applier._result_true not found')
    check_bool_fold(c, 'C15-h', f, elem, 'ALL', inline=[rt], min_paths=3)
    r = single_return_expr(rt)
    ok = isinstance(r, ast.Call) and r.args and isinstance(r.args[0], ast.Constant) and r.args[0].value is True
    c.expect(ok, 'C15-h', 'Applier._result_true', '_result_true does not build a true result', rt.loc())
    # `matches` (non-full): a listed file whose matcher does not match makes the verdict False on every path - also
    # when the remaining listed files are found and do match afterwards (the evaluation may or may not stop at it)
    MN = 'exactly_lib.impls.types.files_matcher.impl.matches.matches_non_full'
    fn = ix.func(MN + ':_Applier.apply')
    mr = ix.cls('exactly_lib.type_val_prims.matcher.matching_result:MatchingResult')
    hooks = ForkHooks(ix, loop_bound=2)
    hooks.fork_on(elem, [('T', lambda: K(Record(mr, {'value': True, 'trace': Sym('trace')}))),
                         ('F', lambda: K(Record(mr, {'value': False, 'trace': Sym('trace')})))])
    hooks.inline_set = {rt}
    n_f = 0
    for p in util.func_paths(ix, fo, fn, hooks):
        labs = labels_of(p)
        if 'F' not in labs:
            continue
        n_f += 1
        got = _bool_of_result(ix, p.val) if p.kind == 'return' else None
        c.expect(got is False, 'C15-h', 'matches-non-full/a-non-matching-file-decides/%s' % '-'.join(labs),
                 'the matchers of the listed files give %s and the verdict is %s: a listed file that does not satisfy '
                 'its matcher is overlooked' % (labs, got if got is not None else (
                     util.describe(p.val) if p.kind == 'return' else p.kind)), fn.loc())
    c.floor('C15-h', 'paths of matches (non-full) with a non-matching file', n_f, 1)
    # the count check precedes and a different number of files is a mismatch
    nf = ix.func(MF + ':_Applier._start_w_num_files_check')

    def is_false_result(node) -> bool:
        return isinstance(node, ast.Call) and node.args and isinstance(node.args[0], ast.Constant) and node.args[0].value is False \
            and getattr(ix.callee(nf.module, nf, node), 'name', None) == 'MatchingResult'

    ifs = [n for n in walk_own(nf.node) if isinstance(n, ast.If)]
    ok = len(ifs) == 1 and isinstance(ifs[0].test, ast.Compare) and isinstance(ifs[0].test.ops[0], ast.NotEq) \
         and is_false_result(util.block_return(nf, ifs[0].body))
    fetch = [n for n in ast.walk(nf.node) if isinstance(n, ast.Call) and isinstance(n.func, ast.Attribute)
             and n.func.attr == '_try_get_num_files']
    ok = ok and len(fetch) == 1 and isinstance(fetch[0].args[0], ast.BinOp) and isinstance(fetch[0].args[0].op, ast.Add) \
         and isinstance(fetch[0].args[0].right, ast.Constant) and fetch[0].args[0].right.value == 1
    c.expect(ok, 'C15-h', 'matches-full/count-check', 'matches -full does not fetch one file more than expected and refuse '
                                                      'a different number', nf.loc())
    nm = ix.func(MF + ':_Applier._continue_w_file_name_check')
    hs = [h for n in walk_own(nm.node) if isinstance(n, ast.Try) for h in n.handlers]
    ok = len(hs) == 1 and unparse(hs[0].type) == 'KeyError' and is_false_result(util.block_return(nm, hs[0].body))
    c.expect(ok, 'C15-h', 'matches-full/name-check', 'a file whose name is not listed is not a mismatch', nm.loc())


# ---------------------------------------------------------------- j
def clause_j(c: Check):
    """dir-contents-of: a name that exists in the populated directory is a clash (HARD_ERROR) - found without
    following symbolic links (a dangling link is a clash too; copying "into" it would create its target outside the
    directory); -recursive: the model is built with exactly the given depth limits"""
    ix, fo = c.ix, c.fo
    CD = 'exactly_lib.impls.types.files_source.impl.copy_dir_contents'
    cls = ix.cls(CD + ':_CopyDirContents')
    f = ix.class_member(cls, '_copy_path')
    clash = ix.class_member(cls, '_raise_file_name_clash')
    copy = ix.class_member(cls, '_copy_file')
    hooks = ForkHooks(ix, loop_bound=1)
    hooks.fork_on(lambda d, n, cv: isinstance(n.func, ast.Attribute) and n.func.attr == 'lstat',
                  [('exists', lambda: Sym('stat-result', nullness=False, truth=True)),
                   ('missing', ('raise', External('builtins.FileNotFoundError')))])
    seen = set()
    n_paths = 0
    for p in util.func_paths(ix, fo, f, hooks):
        n_paths += 1
        labs = labels_of(p)
        clashes = [e for e in p.calls() if e.data.get('callee') == clash]
        copies = [e for e in p.calls() if e.data.get('callee') == copy]
        if not labs:
            c.bad('C15-j', 'copy/clash-test-does-not-follow-links',
                  'an entry is copied / refused on a path that never looks at the destination with lstat() (exists() / '
                  'is_file() follow symbolic links: a dangling link is not seen and its target is created outside the '
                  'populated directory)', f.loc())
            continue
        seen.add(labs[0])
        if labs[0] == 'exists':
            c.expect(len(clashes) == 1 and not copies, 'C15-j', 'copy/existing-name-is-a-clash',
                     'a name that exists in the populated directory is %s' % ('copied over' if copies else 'not reported as a clash'),
                     f.loc())
        else:
            c.expect(len(copies) == 1 and not clashes, 'C15-j', 'copy/new-name-is-copied',
                     'a name that does not exist in the populated directory is not copied', f.loc())
    c.expect(seen == {'exists', 'missing'}, 'C15-j', 'copy/cases', 'cases analysed: %s' % sorted(seen), f.loc())
    r = [n for n in walk_own(clash.node) if isinstance(n, ast.Raise)]
    c.expect(len(r) == 1 and isinstance(clash.node.body[-1], ast.Raise), 'C15-j', 'copy/clash-raises', 'a clash does not raise', clash.loc())
    # -recursive
    mc = ix.cls('exactly_lib.impls.types.file_matcher.impl.dir_contents:_RecursiveModelConstructor')
    mm = ix.class_member(mc, 'make_model')
    rec = ix.func(FM + ':recursive')
    nonrec = ix.func(FM + ':non_recursive')
    it = Interp(ix, fo, _NoInline())
    st = State()
    obj = it.new_obj(mc)
    mn, mx = Sym('min-depth'), Sym('max-depth')
    st.heap[(obj.oid, '_min_depth')] = mn
    st.heap[(obj.oid, '_max_depth')] = mx
    model = Sym('model')
    n_ret = 0
    for p in it.run_function(mm, {mm.positional_params()[1].arg: model}, st, recv=obj):
        if p.kind != 'return':
            continue
        n_ret += 1
        o = p.val.origin if isinstance(p.val, Sym) else None
        key = o[1] if o and o[0] == 'call' else None
        if key == rec.key:
            names = [p_.arg for p_ in rec.positional_params()]
            given = dict(zip(names, o[2]))
            given.update(o[3])
            ok = util.attr_chain(given.get(names[0]))[1] == ('path',) and util.attr_chain(given.get(names[0]))[0] is model \
                 and util.root_sym(given.get('min_depth')) is mn and util.root_sym(given.get('max_depth')) is mx
            c.expect(bool(ok), 'C15-j', 'recursive-model/limits-handed-on',
                     'the recursive model is not built from (the path of the model, the given min depth, the given max depth)',
                     mm.loc())
        elif key == nonrec.key:
            facts = {unparse(t): truth for t, truth in p.guards}
            max_zero = any(truth and isinstance(t, ast.Compare) and '_max_depth' in unparse(t) and isinstance(t.ops[0], ast.Eq)
                           and any(isinstance(x, ast.Constant) and x.value == 0 for x in [t.left] + t.comparators)
                           for t, truth in p.guards)
            min_none = any('_min_depth' in unparse(t) and (
                (isinstance(t, ast.Compare) and isinstance(t.ops[0], (ast.Is, ast.Eq)) and truth
                 and any(isinstance(x, ast.Constant) and x.value in (None, 0) for x in [t.left] + t.comparators))
                or (isinstance(t, ast.Attribute) and not truth)) for t, truth in p.guards)
            c.expect(max_zero and min_none, 'C15-j', 'recursive-model/non-recursive-shortcut',
                     'the direct contents are used for a -recursive model although max depth 0 and no min depth are not '
                     'both established (%s): with a min depth >= 1 the model must be empty' % facts, mm.loc())
        else:
            c.bad('C15-j', 'recursive-model/result', 'the model of -recursive is %s' % util.describe(p.val), mm.loc())
    c.floor('C15-j', 'returning paths of make_model', n_ret, 1)


# ---------------------------------------------------------------- k
def clause_k(c: Check):
    """`file NAME = ...` / `dir NAME = ...`: a name that exists is a clash (HARD_ERROR), never merged or overwritten.
    For every maker handed to NewFileCreator the clash is found either (P) by NewFileCreator.make itself - on every
    path the maker is called only after an existence test that does not follow links found nothing - or (X) by the
    maker: what it creates at the given path is created exclusively (`mkdir` without exist_ok, `open` with mode
    'x'). Also CFGOBL of the copy primitives of dir-contents-of: `shutil.copytree` / `copy2` are called with source
    and destination only (links are dereferenced, so the populated tree refers to nothing outside it)."""
    ix, fo = c.ix, c.fo
    U = 'exactly_lib.impls.types.files_source.impl.file_makers.utils'
    nfc = ix.cls(U + ':NewFileCreator')
    make = ix.class_member(nfc, 'make')
    helpers = [m for m in nfc.methods.values() if m is not make and m.name != '__init__']
    he = ix.cls('exactly_lib.test_case.hard_error:HardErrorException')
    hooks = ForkHooks(ix, loop_bound=1)
    hooks.inline_set = set(helpers)
    hooks.fork_on(lambda d, n, cv: isinstance(n.func, ast.Attribute) and n.func.attr == 'apply',
                  [('exists', lambda: Sym('check-result-exists')), ('missing', lambda: Sym('check-result-missing'))])

    # (P) pre-check in make
    pre_ok = True
    n_maker_paths = 0
    it = Interp(ix, fo, hooks)
    obj = it.new_obj(nfc)
    maker = Sym('maker')
    st = State()
    st.heap[(obj.oid, '_maker')] = maker
    # the existence check is a class constant: must_exist(follow_symlinks=False)
    check_nodes = [n for n in nfc.node.body if isinstance(n, ast.Assign) and isinstance(n.value, ast.Call)
                   and unparse(n.value.func).endswith('must_exist')]
    no_follow = False
    for n in check_nodes:
        kw = {k.arg: fo.fold(nfc.module, None, k.value) for k in n.value.keywords}
        pos = [fo.fold(nfc.module, None, a) for a in n.value.args]
        no_follow = kw.get('follow_symlinks', pos[0] if pos else None) is False
    paths = it.run_function(make, {}, st, recv=obj)
    for p in paths:
        calls_maker = [e for e in p.calls() if e.data.get('callee_val') is maker]
        labs = labels_of(p)
        if calls_maker:
            n_maker_paths += 1
        if not labs:
            if calls_maker:
                pre_ok = False
            continue
        # which outcome of the test leads where: decided by the truth of `<result>.is_success` on this path
        exists_known = None
        for t, truth in p.guards:
            if 'is_success' in unparse(t):
                exists_known = truth
        if exists_known is None and calls_maker:
            pre_ok = False
        if exists_known is True and calls_maker:
            pre_ok = False
        if exists_known is True:
            raised = p.kind == 'raise' and isinstance(p.val, Exc) and p.val.cls == he
            if not raised:
                pre_ok = False
    pre_ok = pre_ok and no_follow and n_maker_paths >= 1
    c.require(n_maker_paths >= 1, 'C15-k: NewFileCreator.make never calls its maker')
    # (X) exclusive creation by the makers
    sites = util.call_sites_of(ix, nfc)
    n = 0
    for s in sites:
        if len(s.node.args) != 1:
            continue
        a = s.node.args[0]
        d = None
        if isinstance(a, ast.Attribute) and isinstance(a.value, ast.Name) and s.func is not None and s.func.cls is not None \
                and a.value.id == s.func.self_name:
            d = ix.class_member(s.func.cls, a.attr)
        c.require(isinstance(d, FuncDef), 'C15-k: maker %s at %s not resolved' % (unparse(a), s.where))
        n += 1
        cls = d.cls

        class HX(Hooks):
            def inline(self, fd, st_):
                # the maker's own helpers, and helper functions of the file-maker package (a creation primitive moved
                # into a shared helper is still the maker's creation)
                return (fd.cls is cls and fd is not d) or (
                    fd.cls is None and fd.module.name.startswith(U.rsplit('.', 1)[0] + '.') and not fd.is_generator)

        pth = d.positional_params()[1].arg
        exclusive = True
        creates = 0
        why = []
        for p in util.func_paths(ix, fo, d, HX()):
            for e in p.calls():
                if not isinstance(e.node.func, ast.Attribute) or e.node.func.attr not in ('mkdir', 'open', 'touch', 'write_text', 'symlink_to'):
                    continue
                recv = e.data.get('recv')
                if recv is None:
                    cv = e.data.get('callee_val')
                    recv = cv.origin[1] if isinstance(cv, Sym) and cv.origin and cv.origin[0] == 'attr' else None
                root, names = util.attr_chain(recv) if recv is not None else (None, ())
                r0 = util.root_sym(root) if root is not None else None
                if not (isinstance(r0, Sym) and r0.origin and r0.origin[:2] == ('param', pth) and names == ('primitive',)):
                    continue  # something else than the path to create (its parent, ...)
                creates += 1
                meth = e.node.func.attr
                if meth == 'mkdir':
                    eo = e.data['kwargs'].get('exist_ok')
                    if eo is not None and not (isinstance(eo, K) and eo.v is False):
                        exclusive = False
                        why.append('mkdir(exist_ok=%s)' % util.describe(eo))
                elif meth == 'open':
                    mode = e.data['args'][0] if e.data['args'] else e.data['kwargs'].get('mode')
                    if not (isinstance(mode, K) and isinstance(mode.v, str) and 'x' in mode.v):
                        exclusive = False
                        why.append('open(%s)' % (util.describe(mode) if mode is not None else ''))
                else:
                    exclusive = False
                    why.append(meth)
        c.require(creates >= 1, 'C15-k: maker %s creates nothing at the path it is given' % d.key)
        c.expect(pre_ok or exclusive, 'C15-k', 'create-refuses-existing/%s' % d.key,
                 '%s creates with %s and NewFileCreator.make %s: an existing name is merged into / overwritten instead '
                 'of being a clash (HARD_ERROR)' % (
                     d.key.split(':')[-1], ', '.join(sorted(set(why))) or 'non-exclusive primitives',
                     'does not test (without following links) that the path does not exist before calling the maker'),
                 d.loc(), detail='pre-check' if pre_ok else 'exclusive')
    c.floor('C15-k', 'makers of new files / directories', n, 2)
    # copy primitives of dir-contents-of
    osm = ix.module('exactly_lib.impls.os_services.impl')
    n_cp = 0
    for node, f, dotted in util.external_calls(ix, osm):
        if dotted in ('shutil.copytree', 'shutil.copy2', 'shutil.copy', 'shutil.copyfile'):
            n_cp += 1
            extra = [k.arg for k in node.keywords] + ['<positional %d>' % i for i in range(2, len(node.args))]
            c.expect(not extra, 'C15-k', 'copy-primitive/%s@%s' % (dotted, f.key if f else '?'),
                     '%s is called with %s: the default (dereference links, fail on an existing destination) is what '
                     'dir-contents-of documents' % (dotted, extra), '%s:%d' % (osm.relpath, node.lineno))
    c.floor('C15-k', 'copy primitives of the OS services', n_cp, 2)


# ---------------------------------------------------------------- m
def clause_m(c: Check):
    """the recursive listing enters a directory because of what that directory IS (a directory - links followed -, not
    pruned, within the depth limits) and never because of what the walk has seen before: the push onto the work list
    is not guarded by a membership test in a collection built during the walk.  A tree in which the same directory is
    reachable by two routes (a link to a sibling, two links to one directory) lists its contents under both; skipping
    "already seen" directories drops the second listing from `num-files`, `matches`, quantifiers and selections."""
    ix = c.ix
    g = ix.func('exactly_lib.impls.types.files_matcher.models:_FilesGeneratorForRecursive.generate')
    work = None
    for n in walk_own(g.node):
        if isinstance(n, ast.While) and isinstance(n.test, ast.Name):
            if any(isinstance(x, ast.Call) and isinstance(x.func, ast.Attribute) and x.func.attr == 'pop'
                   and isinstance(x.func.value, ast.Name) and x.func.value.id == n.test.id for x in ast.walk(n)):
                work = n.test.id
    c.require(work is not None, 'C15-m: the work list of the recursive listing is not found')
    pushes = [n for n in ast.walk(g.node) if isinstance(n, ast.Call) and isinstance(n.func, ast.Attribute)
              and n.func.attr in ('append', 'extend', 'insert') and isinstance(n.func.value, ast.Name)
              and n.func.value.id == work]
    c.floor('C15-m', 'places where the recursive listing schedules a directory', len(pushes), 1)
    for push in pushes:
        hist = []
        for a in ancestors(push):
            if a is g.node:
                break
            if isinstance(a, (ast.If, ast.IfExp, ast.While)):
                for x in ast.walk(a.test):
                    if isinstance(x, ast.Compare) and any(isinstance(o, (ast.In, ast.NotIn)) for o in x.ops):
                        for comp in x.comparators:
                            if isinstance(comp, (ast.Name, ast.Attribute)):
                                hist.append(unparse(x))
        c.expect(not hist, 'C15-m', 'enters-every-directory/%s' % g.key,
                 'a directory is scheduled for listing only if %s: whether it is listed depends on what the walk has '
                 'visited before, so a directory reachable by a second route is left out' % ' and '.join(hist),
                 '%s:%d' % (g.module.relpath, push.lineno))
