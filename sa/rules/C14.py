"""C14 A text has one value however it is consumed: representation agreement (DESIGN.md section 5, clauses a-d)."""
import ast
import re
from typing import List, Optional

from ..core import Index, FuncDef, ClassDef, External, AnalysisError, unparse, walk_own, dotted_name, parent
from ..fold import Folder, Record, EnumMember, Ref, is_unknown, single_return_expr
from ..report import Check
from .. import util

SSC = 'exactly_lib.type_val_prims.string_source.contents:StringSourceContents'
TEXT_VALUE_PREFIXES = ('exactly_lib.impls.types.string_source', 'exactly_lib.impls.types.string_matcher',
                       'exactly_lib.impls.types.string_transformer', 'exactly_lib.impls.types.line_matcher',
                       'exactly_lib.type_val_prims.string_source', 'exactly_lib.util.str_',
                       'exactly_lib.util.file_utils.spooled_file', 'exactly_lib.impls.types.matcher.impls',
                       'exactly_lib.impls.types.string_', 'exactly_lib.impls.file_properties')


def check(c: Check):
    c.explanation = (
        'Sibling agreement over the representations of a text: every implementation of as_lines is classified by '
        'the origin of the line iterator (newline-only: a text file object or the repository\'s newline splitter; '
        'unicode: str.splitlines, which also splits at form feed, vertical tab, file/group/record separators, NEL, '
        'LS, PS and lone CR; delegate) and the non-delegating ones must all be newline-only; the modules that '
        'consume texts as values use no str.splitlines, no filecmp and no binary-mode open (every other access reads '
        'text mode with universal newlines); the freezing wrapper takes all views from the one cached contents; no '
        'open() of a text passes a newline= argument and the spooled buffer keeps "\\n". Decides clauses a-d of '
        'DESIGN.md C14; not equality of characters across representations or buffer-size boundaries.')
    from .common import sweep_records
    # every clause is run even when an earlier one meets something it does not understand: what the others find is
    # reported (exit 1) together with the ANALYSIS-ERROR of the first clause that failed
    first_error = None
    for clause in (clause_a, clause_b, clause_b2, clause_c, clause_d, clause_e, clause_g, clause_i, clause_h, clause_f, clause_j,
                   lambda c_: sweep_records(c_, 'C14-rec', ['exactly_lib.type_val_prims.string_source',
                                                             'exactly_lib.impls.types.string_source'], floor=2)):
        try:
            clause(c)
        except AnalysisError as ex:
            if first_error is None:
                first_error = ex
    if first_error is not None:
        raise first_error


def _text_value_modules(ix: Index):
    for name in ix.all_module_names():
        if name.startswith(TEXT_VALUE_PREFIXES):
            yield name



def newline_parametrised_reader(ix: Index, cls: ClassDef) -> Optional[str]:
    """the name of the attribute when every open() of the class passes `newline=self.<attr>`, <attr> is assigned in the
    constructor from a parameter whose default is None (= the ordinary reading of a text file), and at least one
    open() exists; None otherwise.  All views of such a class read the file the same way."""
    opens = []
    for f in cls.methods.values():
        for n in walk_own(f.node):
            if isinstance(n, ast.Call) and isinstance(n.func, ast.Attribute) and n.func.attr == 'open':
                opens.append((f, n))
    if not opens:
        return None
    attrs = set()
    for f, n in opens:
        kw = [k for k in n.keywords if k.arg == 'newline']
        if len(kw) != 1 or not (isinstance(kw[0].value, ast.Attribute) and isinstance(kw[0].value.value, ast.Name)
                                and kw[0].value.value.id == f.self_name):
            return None
        attrs.add(kw[0].value.attr)
    if len(attrs) != 1:
        return None
    attr = next(iter(attrs))
    init = cls.methods.get('__init__')
    if init is None:
        return None
    for n in walk_own(init.node):
        if isinstance(n, ast.Assign) and len(n.targets) == 1 and isinstance(n.targets[0], ast.Attribute) \
                and n.targets[0].attr == attr and isinstance(n.value, ast.Name):
            pa = init.param(n.value.id)
            if pa is None:
                return None
            a = init.node.args
            pos = a.args
            defaults = dict(zip([x.arg for x in pos[len(pos) - len(a.defaults):]], a.defaults))
            d = defaults.get(n.value.id)
            if isinstance(d, ast.Constant) and d.value is None:
                return attr
    return None


# ---------------------------------------------------------------- a
def classify_as_lines(ix: Index, f: FuncDef) -> str:
    src = unparse(f.node)
    calls = []
    for n in ast.walk(f.node):
        if isinstance(n, ast.Call) and isinstance(n.func, ast.Attribute):
            calls.append(n.func.attr)
    if 'splitlines' in calls:
        return 'UNICODE'
    # what is yielded / returned
    vals = [n.value for n in ast.walk(f.node) if isinstance(n, ast.Yield) and n.value is not None]
    vals += [n.value for n in ast.walk(f.node) if isinstance(n, ast.Return) and n.value is not None]
    if not vals:
        return 'UNKNOWN'
    kinds = set()
    for v in vals:
        txt = unparse(v)
        if txt.endswith('.as_lines') or '.as_lines' in txt:
            kinds.add('DELEGATE')
            continue
        if isinstance(v, ast.Name):
            # bound by a with statement?
            bound = None
            for w in ast.walk(f.node):
                if isinstance(w, ast.With):
                    for it in w.items:
                        if isinstance(it.optional_vars, ast.Name) and it.optional_vars.id == v.id:
                            bound = it.context_expr
            if bound is not None:
                bt = unparse(bound)
                if bt.endswith('.as_lines'):
                    kinds.add('DELEGATE')
                elif isinstance(bound, ast.Call) and isinstance(bound.func, ast.Attribute) and bound.func.attr == 'open':
                    mode = None
                    if bound.args:
                        mode = bound.args[0]
                    for kw in bound.keywords:
                        if kw.arg == 'mode':
                            mode = kw.value
                    newline = [kw for kw in bound.keywords if kw.arg == 'newline']
                    if newline:
                        kinds.add('NEWLINE-ARG')
                    elif mode is None or (isinstance(mode, ast.Constant) and 'b' not in mode.value):
                        kinds.add('NL')
                    else:
                        kinds.add('UNKNOWN')
                else:
                    kinds.add('UNKNOWN')
                continue
        if isinstance(v, ast.Call) and unparse(v) in ('iter(())', 'iter([])'):
            kinds.add('DELEGATE')  # the empty text: no lines at all
            continue
        if isinstance(v, ast.Call):
            # a lines -> lines function applied to delegated lines, or iter(<nl split>)
            inner = [unparse(a) for a in v.args]
            d = ix.callee(f.module, f, v)
            if any(isinstance(w, ast.With) and any(unparse(it.context_expr).endswith('.as_lines') for it in w.items)
                   for w in ast.walk(f.node)):
                kinds.add('DELEGATE')
                continue
            if 'split_lines__keep_ends' in txt or '_contents_as_lines' in txt:
                kinds.add('NL')
                continue
            if isinstance(d, FuncDef) and d.cls == f.cls:
                kinds.add('DELEGATE')  # own helper that iterates the parts' as_lines (judged below)
                continue
        kinds.add('UNKNOWN')
    if 'NEWLINE-ARG' in kinds:
        return 'NEWLINE-ARG'
    if len(kinds) == 1:
        return next(iter(kinds))
    if kinds == {'NL', 'DELEGATE'}:
        return 'NL'
    return 'UNKNOWN'


def _re_iterable(ix: Index, f: FuncDef, v, with_bound, depth: int = 0):
    """a description when the expression is a re-iterable collection (list, tuple, str, attribute / name holding
    one); None when it is an iterator or not known to be a collection"""
    if isinstance(v, (ast.List, ast.Tuple, ast.ListComp, ast.Set, ast.SetComp, ast.Dict, ast.DictComp)):
        return 'a %s built on the spot' % type(v).__name__.lower()
    if isinstance(v, ast.Constant) and isinstance(v.value, (str, tuple)):
        return 'the constant %r' % (v.value,)
    if isinstance(v, ast.Call):
        d = ix.callee(f.module, f, v)
        if isinstance(d, External) and d.dotted in ('builtins.list', 'builtins.tuple', 'builtins.sorted'):
            return 'the result of %s(..)' % d.dotted.split('.')[-1]
        if isinstance(d, FuncDef) and not d.is_generator and d.node.returns is not None:
            r = unparse(d.node.returns)
            if r.split('[')[0].split('.')[-1] in ('List', 'Sequence', 'Tuple', 'list', 'tuple', 'str'):
                return 'the result of %s, declared %s' % (d.name, r)
        return None
    if isinstance(v, ast.Name):
        if v.id in with_bound or depth > 3:
            return None
        bs = f.local_bindings().get(v.id, [])
        for b in bs:
            if b[0] in ('assign', 'annassign') and b[1] is not None:
                r = _re_iterable(ix, f, b[1], with_bound, depth + 1)
                if r is not None:
                    return '`%s`, which is %s' % (v.id, r)
        return None
    if isinstance(v, ast.Attribute) and isinstance(v.value, ast.Name) and f.cls is not None and v.value.id == f.self_name:
        # an attribute of the object: what is stored in it
        for m in f.cls.methods.values():
            for n in walk_own(m.node):
                tgt = None
                if isinstance(n, ast.Assign) and len(n.targets) == 1:
                    tgt, val, ann = n.targets[0], n.value, None
                elif isinstance(n, ast.AnnAssign):
                    tgt, val, ann = n.target, n.value, n.annotation
                if not (isinstance(tgt, ast.Attribute) and isinstance(tgt.value, ast.Name) and tgt.value.id == m.self_name
                        and tgt.attr == v.attr):
                    continue
                if ann is not None and unparse(ann).split('[')[0].split('.')[-1] in ('List', 'Sequence', 'Tuple', 'list', 'tuple', 'str'):
                    return 'the stored `%s`, declared %s' % (unparse(v), unparse(ann))
                if val is not None:
                    r = _re_iterable(ix, m, val, set(), depth + 1)
                    if r is not None:
                        return 'the stored `%s`, which is %s' % (unparse(v), r)
                    if isinstance(val, ast.Name):
                        p = m.param(val.id)
                        if p is not None and p.annotation is not None and \
                                unparse(p.annotation).split('[')[0].split('.')[-1] in ('List', 'Sequence', 'Tuple', 'list', 'tuple', 'str'):
                            return 'the stored `%s`, given as %s' % (unparse(v), unparse(p.annotation))
        return None
    return None


def clause_a(c: Check):
    ix = c.ix
    base = ix.cls(SSC)
    impls = []
    for name in ix.all_module_names():
        t = ix.text(name)
        if 'def as_lines' not in t:
            continue
        m = ix.module(name)
        for cls in m.all_classes:
            f = cls.methods.get('as_lines')
            if f is not None and not util.is_abstract_body(f):
                impls.append((cls, f))
    c.floor('C14-a', 'implementations of as_lines', len(impls), 10)
    table = {}
    for cls, f in impls:
        k = classify_as_lines(ix, f)
        table[cls.key] = k
        key = 'as_lines/' + cls.key
        if k == 'UNKNOWN':
            raise AnalysisError('C14-a: the line iterator of %s.as_lines is not understood (%s:%d)' % (
                cls.key, f.module.relpath, f.node.lineno))
        if k == 'NEWLINE-ARG':
            c.bad('C14-a', key, '%s.as_lines opens the file with an explicit newline= argument: its line ends are not '
                                'translated like those of as_str and of every other file-backed text (CR LF / CR)' % cls.name,
                  f.loc())
            continue
        c.expect(k != 'UNICODE', 'C14-a', key,
                 '%s.as_lines splits with str.splitlines, which also ends lines at \\f, \\v, \\x1c-\\x1e, \\x85, U+2028/9 and '
                 'lone \\r, while file-backed texts are split at \\n only: the same text has a different number of lines '
                 'depending on how it is stored' % cls.name, f.loc(), detail=k)
    c.sample({'as_lines splitter classes': table})
    # what as_lines hands out is a ONE-SHOT iterator (the interface says Iterator[str]): consumers read a text in
    # consecutive loops over the same object (skip n lines, then take m lines) and rely on the second loop going on
    # where the first one stopped.  A list / tuple / other re-iterable value restarts at line 1 in every loop.
    n_vals = 0
    for cls, f in impls:
        with_bound = set()
        for w in ast.walk(f.node):
            if isinstance(w, ast.With):
                for it in w.items:
                    if isinstance(it.optional_vars, ast.Name):
                        with_bound.add(it.optional_vars.id)
        for n in walk_own(f.node):
            if not (isinstance(n, ast.Yield) and n.value is not None):
                continue
            n_vals += 1
            why = _re_iterable(ix, f, n.value, with_bound)
            c.expect(why is None, 'C14-a', 'as_lines-yields-one-shot-iterator/' + cls.key,
                     '%s.as_lines hands out %s, which can be iterated again from the start: a consumer that reads the '
                     'lines in consecutive loops (skip, then take) sees the first lines twice - but only for a text '
                     'held this way' % (cls.name, why), '%s:%d' % (f.module.relpath, n.lineno))
    c.floor('C14-a', 'values handed out by implementations of as_lines', n_vals, 8)
    # helper: the repository's splitter splits at newline only
    h = ix.try_lookup('exactly_lib.util.str_.read_lines:split_lines__keep_ends')
    if isinstance(h, FuncDef):
        splits = [n for n in ast.walk(h.node) if isinstance(n, ast.Call) and isinstance(n.func, ast.Attribute)
                  and n.func.attr in ('split', 'splitlines', 'partition', 'rpartition', 'rsplit', 'find', 'index', 'rfind')]
        ok = len(splits) >= 1 and all(s.func.attr != 'splitlines' and len(s.args) >= 1 and isinstance(s.args[0], ast.Constant)
                                      and s.args[0].value == '\n' for s in splits)
        c.expect(ok, 'C14-a', 'split_lines__keep_ends/newline-only', 'the line splitter does not split at "\\n" only',
                 h.loc())
    # sweep: no str.splitlines where texts are values
    n_mod = 0
    for name in _text_value_modules(ix):
        n_mod += 1
        t = ix.text(name)
        if 'splitlines' not in t:
            continue
        m = ix.module(name)
        for n in ast.walk(m.tree):
            if isinstance(n, ast.Call) and isinstance(n.func, ast.Attribute) and n.func.attr == 'splitlines':
                f = m.enclosing_func(n)
                c.bad('C14-a', 'splitlines@' + (f.key if f else name),
                      'a text value is divided into lines with str.splitlines (not the \\n-only division every file-backed '
                      'access uses)', '%s:%d' % (m.relpath, n.lineno))
    c.ok('C14-a', 'no-splitlines-on-text-values', '%d modules' % n_mod)
    c.floor('C14-a', 'modules handling texts as values', n_mod, 60)


# ---------------------------------------------------------------- b
def clause_b(c: Check):
    ix = c.ix
    n_open = 0
    for name in _text_value_modules(ix):
        t = ix.text(name)
        if 'filecmp' in t or 'open(' in t or 'read_bytes' in t or 'write_bytes' in t:
            m = ix.module(name)
            for n in ast.walk(m.tree):
                f = m.enclosing_func(n)
                where = f.key if f else name
                if isinstance(n, (ast.Name, ast.Attribute)):
                    d = ix.resolve_static(m, f, n) if not isinstance(parent(n), (ast.Import, ast.ImportFrom)) else None
                    if isinstance(d, External) and d.dotted.startswith('filecmp'):
                        c.bad('C14-b', 'byte-compare@' + where,
                              'files holding texts are compared byte-wise (%s): a CR LF file differs from the same text '
                              'read in text mode (universal newlines), which is how every other access reads it' % d.dotted,
                              '%s:%d' % (m.relpath, n.lineno))
                if isinstance(n, ast.Call):
                    is_open = (isinstance(n.func, ast.Name) and n.func.id == 'open') or \
                              (isinstance(n.func, ast.Attribute) and n.func.attr == 'open')
                    if is_open:
                        n_open += 1
                        mode_pos = 1 if isinstance(n.func, ast.Name) else 0
                        mode = n.args[mode_pos] if len(n.args) > mode_pos else None
                        for kw in n.keywords:
                            if kw.arg == 'mode':
                                mode = kw.value
                        mv = mode.value if isinstance(mode, ast.Constant) else ('r' if mode is None else '?')
                        c.expect('b' not in str(mv) and mv != '?', 'C14-b', 'open-mode@%s/%s' % (where, mv),
                                 'a text is opened in mode %s (binary or unknown): bytes are not what as_str / as_lines see'
                                 % mv, '%s:%d' % (m.relpath, n.lineno))
                    if isinstance(n.func, ast.Attribute) and n.func.attr in ('read_bytes', 'write_bytes'):
                        c.bad('C14-b', 'bytes@' + where, 'a text is accessed as bytes', '%s:%d' % (m.relpath, n.lineno))
    c.floor('C14-b', 'open() calls on texts', n_open, 8)
    c.ok('C14-b', 'no-byte-level-access', '%d open() calls, all text mode' % n_open)


def clause_b2(c: Check):
    """file-versus-file equality reads both texts to the end: on every path that answers "equal" the two files have
    been read the same number of times (an iteration that ends counts as the read that found the end)"""
    ix, fo = c.ix, c.fo
    from ..absint import Interp, Hooks, State, K, Sym
    f = ix.func('exactly_lib.impls.types.string_matcher.impl.equality:_ExtDepsOfBothHandler._do_compare')

    class H(Hooks):
        loop_bound = 2

    n = 0
    for p in util.func_paths(ix, fo, f, H()):
        if p.truncated or p.kind != 'return' or not (isinstance(p.val, K) and p.val.v is True):
            continue
        reads = {}
        bound = {}
        for w_ in ast.walk(f.node):
            if isinstance(w_, ast.With):
                for item in w_.items:
                    if item.optional_vars is not None:
                        bound[unparse(item.optional_vars)] = unparse(item.context_expr)
        for e in p.trace:
            if e.kind == 'call' and isinstance(e.node.func, ast.Attribute) and e.node.func.attr in ('read', 'readline', 'readlines'):
                key = bound.get(unparse(e.node.func.value))
                if key:
                    reads[key] = reads.get(key, 0) + 1
            elif e.kind in ('loop-iter', 'loop-exit') and isinstance(e.node, ast.For):
                key = bound.get(unparse(e.node.iter))
                if key:
                    reads[key] = reads.get(key, 0) + 1
        n += 1
        vals = sorted(reads.values())
        c.expect(len(reads) == 2 and vals[0] == vals[1], 'C14-b', '_do_compare/reads-both-to-the-end/%s' % '-'.join(map(str, vals)),
                 'on a path that answers "equal" the two files have been read %s times: one text is not read to its '
                 'end, so a text that is a prefix of the other compares equal' % reads, f.loc())
    c.floor('C14-b', 'paths of the file comparison that answer equal', n, 1)


# ---------------------------------------------------------------- c
def clause_c(c: Check):
    ix = c.ix
    cls = ix.cls('exactly_lib.impls.types.string_source.cached_frozen:_FreezingStringSourceContents')
    for view in ('may_depend_on_external_resources', 'as_str', 'as_file', 'as_lines'):
        f = ix.class_member(cls, view)
        r = single_return_expr(f) if isinstance(f, FuncDef) else None
        ok = r is not None and unparse(r) == 'self._get_contents().' + view
        c.expect(ok, 'C14-c', 'freezing/' + view, 'the frozen view %s is %s, not the same view of the one cached contents'
                 % (view, unparse(r) if r is not None else '?'), cls.loc())
    f = ix.class_member(cls, 'write_to')
    ok = any(isinstance(n, ast.Call) and unparse(n.func) == 'self._get_contents().write_to' for n in ast.walk(f.node))
    c.expect(ok, 'C14-c', 'freezing/write_to', 'write_to does not write the cached contents', f.loc())
    g = ix.class_member(cls, '_get_contents')
    # cached once
    from ..absint import Interp, Hooks, State, K, Sym, NONE
    nf = ix.class_member(cls, '_new_frozen')

    class H(Hooks):
        pass

    it = Interp(ix, c.fo, H())
    for cached in (False, True):
        st = State()
        obj = it.new_obj(cls)
        st.heap[(obj.oid, '_contents')] = Sym('cached', nullness=False) if cached else NONE
        for p in it.run_function(g, st=st, recv=obj):
            news = [e for e in p.calls() if e.data['callee'] == nf]
            if cached:
                c.expect(not news and isinstance(p.val, Sym) and p.val.tag == 'cached', 'C14-c', 'freezing/cached-reused',
                         'frozen contents are computed again', g.loc())
            else:
                stored = p.state.heap.get((obj.oid, '_contents'))
                ok = len(news) == 1 and stored is not None and util.root_sym(stored) is util.root_sym(p.val)
                c.expect(ok, 'C14-c', 'freezing/cached-on-first-use', 'frozen contents are not cached on first use', g.loc())
    # the frozen contents are written from the unfrozen contents via write_to
    w = ix.func('exactly_lib.impls.types.string_source.cached_frozen:_ContentsWriter.write')
    ok = any(isinstance(n, ast.Call) and unparse(n.func) == 'self._contents.write_to' for n in ast.walk(w.node))
    c.expect(ok, 'C14-c', 'freezing/writer-uses-write_to', 'the frozen copy is not produced by write_to of the unfrozen '
                                                           'contents', w.loc())
    fw = ix.func('exactly_lib.impls.types.string_source.contents.frozen:frozen__from_write')
    ok = False
    n_mem = 0
    for p in util.func_paths(ix, c.fo, fw, Hooks()):
        if p.kind != 'return':
            continue
        con = util.constructed(ix, p.val)
        if con is not None and con[0].endswith(':ContentsOfStr'):
            n_mem += 1
            a0 = con[1][0] if con[1] else None
            base, names = util.attr_chain(a0) if a0 is not None else (None, ())
            bo = util.root_sym(base).origin if isinstance(util.root_sym(base), Sym) else None
            good = names == ('mem_buff',) and bool(bo) and bo[0] == 'with'
            # the file the writer wrote to is that same spooled file
            wrote = [e for e in p.calls() if isinstance(e.node.func, ast.Attribute) and e.node.func.attr == 'write'
                     and any(util.root_sym(x) is util.root_sym(base) for x in e.data['args'])]
            good = good and len(wrote) == 1
            ok = good if n_mem == 1 else (ok and good)
    c.expect(ok, 'C14-c', 'freezing/str-backed-from-same-buffer', 'the in-memory frozen value is not the buffer that was '
                                                                   'written', fw.loc())


# ---------------------------------------------------------------- d
def clause_d(c: Check):
    ix = c.ix
    n = 0
    for name in _text_value_modules(ix):
        t = ix.text(name)
        if 'newline' not in t:
            continue
        m = ix.module(name)
        for node in ast.walk(m.tree):
            if isinstance(node, ast.Call):
                kw = [k for k in node.keywords if k.arg == 'newline']
                if not kw:
                    continue
                n += 1
                f = m.enclosing_func(node)
                where = f.key if f else name
                v = kw[0].value
                is_buffer = unparse(node.func).endswith('StringIO')
                ok = is_buffer and isinstance(v, ast.Constant) and v.value == '\n'
                c.expect(ok, 'C14-d', 'newline-argument@' + where,
                         'a text is opened with newline=%s: its line ends are translated differently from every other '
                         'access' % unparse(v), '%s:%d' % (m.relpath, node.lineno))
    c.floor('C14-d', 'newline= arguments', n, 1)
    # ... and no access decodes the file differently from the others: an `encoding=` / `errors=` argument at one
    # open() gives that view other characters (a byte order mark dropped, undecodable bytes replaced) than the views
    # that open the same file the ordinary way - among them every consumer of the path handed out by `as_file`
    n_open = 0
    for name in _text_value_modules(ix):
        m = ix.module(name)
        for node in ast.walk(m.tree):
            if isinstance(node, ast.Call) and ((isinstance(node.func, ast.Attribute) and node.func.attr == 'open')
                                               or (isinstance(node.func, ast.Name) and node.func.id == 'open')):
                n_open += 1
                for k in node.keywords:
                    if k.arg in ('encoding', 'errors'):
                        f = m.enclosing_func(node)
                        c.bad('C14-d', 'decoding-argument@%s/%s' % (f.key if f else name, k.arg),
                              'a text is opened with %s=%s: this access decodes the file differently from every other '
                              'access to the same text' % (k.arg, unparse(k.value)), '%s:%d' % (m.relpath, node.lineno))
    c.floor('C14-d', 'open() calls in the modules of text values', n_open, 6)


# ---------------------------------------------------------------- e
def clause_e(c: Check):
    """positions of text files: the value of tell() of one text object (a number of characters for the memory
    buffer, an opaque cookie for a file on disk) is meaningful only for seek() on that same object"""
    ix = c.ix
    n = 0
    for name in _text_value_modules(ix):
        t = ix.text(name)
        if '.seek(' not in t:
            continue
        m = ix.module(name)
        for node in ast.walk(m.tree):
            if not (isinstance(node, ast.Call) and isinstance(node.func, ast.Attribute) and node.func.attr == 'seek'
                    and node.args):
                continue
            n += 1
            f = m.enclosing_func(node)
            where = f.key if f else name
            a = node.args[0]
            recv = unparse(node.func.value)
            if isinstance(a, ast.Starred):
                c.ok('C14-e', 'seek@%s/delegation' % where)
                continue
            if isinstance(a, ast.Constant) and a.value == 0:
                c.ok('C14-e', 'seek@%s/start-or-end' % where)
                continue
            src = a
            if isinstance(a, ast.Name) and f is not None:
                b = f.local_bindings().get(a.id, [])
                if len(b) == 1 and b[0][0] == 'assign' and b[0][1] is not None:
                    src = b[0][1]
                elif any(x[0] == 'param' for x in b):
                    c.ok('C14-e', 'seek@%s/position-given-by-caller' % where)
                    continue
            ok = isinstance(src, ast.Call) and isinstance(src.func, ast.Attribute) and src.func.attr == 'tell' \
                 and unparse(src.func.value) == recv
            c.expect(ok, 'C14-e', 'seek@%s/%s' % (where, unparse(a)),
                     '%s.seek() is given %s: a position of another text object (a character count of the memory buffer '
                     'is not a position in the file on disk - non-ASCII text is corrupted when the buffer is moved to a '
                     'file)' % (recv, unparse(src)), '%s:%d' % (m.relpath, node.lineno))
    c.floor('C14-e', 'seek calls on texts', n, 2)


# ---------------------------------------------------------------- f
def clause_f(c: Check):
    """a text has no empty line *element*: iteration over a text file never gives '' (the empty text has no lines, a
    line holds at least its new-line), so the in-memory splitter - which every literal and every cached / frozen text
    uses - must not either, or the same text has one line more when it is held in memory (`num-lines`, `every line`,
    `is-empty` look at the elements). EVAL of `split_lines__keep_ends` on a symbolic text (any string): on every
    returning path every element of the result has a non-empty constant part or was tested to be non-empty."""
    from ..absint import Interp, Hooks, State, K, Sym, ListVal, StrCat
    ix, fo = c.ix, c.fo
    f = ix.func('exactly_lib.util.str_.read_lines:split_lines__keep_ends')

    class H(Hooks):
        loop_bound = 2
        symbolic_strings = True

    def surely_nonempty(v) -> bool:
        if isinstance(v, K):
            return isinstance(v.v, str) and v.v != ''
        if isinstance(v, StrCat):
            return v.certainly_nonempty()
        if isinstance(v, Sym):
            return v.truth is True
        return False

    it = Interp(ix, fo, H())
    text = StrCat([Sym('text')])
    n = 0
    for p in it.run_function(f, {f.positional_params()[0].arg: text}):
        if p.kind not in ('return', 'normal') or p.truncated:
            continue
        n += 1
        c.count()
        elems = []
        v = p.val
        if isinstance(v, ListVal):
            elems += [('element %d of the result' % i, x) for i, x in enumerate(v.items)]
        elif isinstance(v, Sym) and v.origin and v.origin[0] == 'comp':
            elems.append(('an element of the comprehension', v.origin[2]))
        else:
            c.require(isinstance(v, Sym) or f.is_generator, 'C14-f: result of the splitter not understood (%s)' % util.describe(v))
        for e in p.calls():
            if isinstance(e.node.func, ast.Attribute) and e.node.func.attr in ('append', 'insert', 'extend'):
                cv = e.data.get('callee_val')
                recv = e.data.get('recv')
                if recv is None and isinstance(cv, Sym) and cv.origin and cv.origin[0] == 'attr':
                    recv = cv.origin[1]
                if recv is v or isinstance(recv, ListVal):
                    for a in e.data['args'][-1:]:
                        elems.append(('the value given to %s' % e.node.func.attr, a))
        facts = {id(x): True for e in p.trace if e.kind == 'str-nonempty' for x in e.data}
        if f.is_generator:
            elems += [('a yielded value', e.data) for e in p.trace if e.kind == 'yield']
        for what, x in elems:
            c.require(isinstance(x, (K, StrCat)) or (isinstance(x, Sym) and x.truth is not None),
                      'C14-f: %s of the line splitter is not understood (%s)' % (what, util.describe(x)))
            ok = surely_nonempty(x) or (isinstance(x, StrCat) and any(facts.get(id(q)) for q in x.parts))
            guards = [('' if t else 'not ') + unparse(g) for g, t in p.guards]
            c.expect(ok, 'C14-f', 'split_lines__keep_ends/no-empty-line/%s' % ('+'.join(guards) or 'unconditional'),
                     'on the path [%s] %s of the in-memory line splitter may be the empty string: a text held in memory '
                     'gets an empty line that the same text read from a file does not have' % (', '.join(guards), what),
                     f.loc())
    c.floor('C14-f', 'returning paths of the in-memory line splitter', n, 2)


# ---------------------------------------------------------------- g
ONE_SHOT_CONSTRUCTORS = ('itertools.chain', 'itertools.chain.from_iterable', 'builtins.map', 'builtins.filter',
                         'builtins.zip', 'builtins.iter', 'builtins.reversed', 'builtins.enumerate')


def _one_shot_stores(ix: Index, m):
    """[(function, assignment node, what)]: an attribute is assigned a one-shot iterator - a generator expression,
    the call of a generator function, or of map / filter / zip / iter / chain / enumerate / reversed"""
    out = []
    for x in ast.walk(m.tree):
        if not (isinstance(x, ast.Assign) and any(isinstance(tg, ast.Attribute) for tg in x.targets)):
            continue
        f = m.enclosing_func(x)
        v = util.resolve_temp(f, x.value) if f is not None else x.value
        what = None
        if isinstance(v, ast.GeneratorExp):
            what = 'a generator expression'
        elif isinstance(v, ast.Call):
            try:
                d = ix.callee(m, f, v)
            except Exception:
                d = None
            if isinstance(d, FuncDef) and d.is_generator and not d.decorators:
                what = 'the generator %s(..)' % d.name
            elif isinstance(d, External) and d.dotted in ONE_SHOT_CONSTRUCTORS:
                what = '%s(..)' % d.dotted.split('.', 1)[1]
        if what:
            out.append((f, x, what))
    # ... or handed to a constructor / function that keeps its parameter in an attribute
    for x in ast.walk(m.tree):
        if not isinstance(x, ast.Call):
            continue
        f = m.enclosing_func(x)
        one_shot_args = []
        for i, a in enumerate(x.args):
            w = _one_shot_expr(ix, m, f, a)
            if w:
                one_shot_args.append((i, None, a, w))
        for kw in x.keywords:
            if kw.arg:
                w = _one_shot_expr(ix, m, f, kw.value)
                if w:
                    one_shot_args.append((None, kw.arg, kw.value, w))
        if not one_shot_args:
            continue
        try:
            d = ix.callee(m, f, x)
        except Exception:
            d = None
        target = util.ctor_of(ix, d) if isinstance(d, ClassDef) else d if isinstance(d, FuncDef) else None
        if target is None:
            continue
        skip = 1 if (isinstance(d, ClassDef) or (target.cls is not None and not target.is_static
                                                 and isinstance(x.func, ast.Attribute))) else 0
        pos = [p_.arg for p_ in target.positional_params()[skip:]]
        for i, kwname, a, w in one_shot_args:
            pname = kwname if kwname is not None else (pos[i] if i < len(pos) else None)
            if pname is None:
                continue
            attr = _kept_in_attribute(ix, target, pname, 0)
            # kept AND traversed as a whole by a method that can be called again (handing out one element per call
            # with next(..) - the step executors' instruction environments - is the accepted one-at-a-time idiom)
            if attr and target.cls is not None and _traversed_by_a_method(ix, target.cls, attr.split('.', 1)[1]):
                out.append((f, _FakeAssign(a, '%s (parameter %s of %s)' % (attr, pname, target.key.split(':')[-1])),
                            w + ', given to %s' % (d.name if isinstance(d, ClassDef) else target.name)))
    return out


class _FakeAssign:
    """stands for the store made by the callee: `targets[0]` names the attribute, lineno is the call site's"""

    def __init__(self, arg_node, attr_text):
        self.lineno = arg_node.lineno
        self.targets = [ast.Name(id=attr_text, ctx=ast.Load())]


def _one_shot_expr(ix: Index, m, f, v):
    v = util.resolve_temp(f, v) if f is not None else v
    if isinstance(v, ast.GeneratorExp):
        return 'a generator expression'
    if isinstance(v, ast.Call):
        try:
            d = ix.callee(m, f, v)
        except Exception:
            d = None
        if isinstance(d, FuncDef) and d.is_generator and not d.decorators:
            return 'the generator %s(..)' % d.name
        if isinstance(d, External) and d.dotted in ONE_SHOT_CONSTRUCTORS:
            return '%s(..)' % d.dotted.split('.', 1)[1]
    return None


def _traversed_by_a_method(ix: Index, cls: ClassDef, attr: str) -> bool:
    """some method other than the constructor (of the class or a class in its hierarchy) iterates over self.<attr> as
    a whole: a for loop, a comprehension, or list / tuple / sorted / any / all / sum / join over it"""
    def is_attr(e, f):
        return isinstance(e, ast.Attribute) and e.attr == attr and isinstance(e.value, ast.Name) and e.value.id == f.self_name

    classes = [cls] + [k for k in ix.mro(cls)[1:] if isinstance(k, ClassDef)] + list(ix.subclasses_of(cls))
    for k in classes:
        for f in k.methods.values():
            if f.name in ('__init__', '__new__') or not f.self_name:
                continue
            for n in ast.walk(f.node):
                if isinstance(n, (ast.For, ast.AsyncFor)) and is_attr(n.iter, f):
                    return True
                if isinstance(n, ast.comprehension) and is_attr(n.iter, f):
                    return True
                if isinstance(n, ast.Call) and n.args and is_attr(n.args[0], f):
                    fn = n.func
                    nm = fn.id if isinstance(fn, ast.Name) else fn.attr if isinstance(fn, ast.Attribute) else None
                    if nm in ('list', 'tuple', 'sorted', 'any', 'all', 'sum', 'join', 'set', 'frozenset', 'max', 'min',
                              'len', 'dict'):
                        return True
    return False


def _kept_in_attribute(ix: Index, fd: FuncDef, pname: str, depth: int):
    """the attribute `self.<a>` that fd assigns directly from its parameter pname (also through super().__init__)"""
    if depth > 3 or not fd.self_name:
        return None
    for n in walk_own(fd.node):
        if isinstance(n, ast.Assign) and isinstance(n.value, ast.Name) and n.value.id == pname:
            for tg in n.targets:
                if isinstance(tg, ast.Attribute) and isinstance(tg.value, ast.Name) and tg.value.id == fd.self_name:
                    return 'self.' + tg.attr
        if isinstance(n, ast.Call) and isinstance(n.func, ast.Attribute) and n.func.attr == '__init__' \
                and isinstance(n.func.value, ast.Call) and isinstance(n.func.value.func, ast.Name) \
                and n.func.value.func.id == 'super' and fd.cls is not None:
            base_init = None
            for k in ix.mro(fd.cls)[1:]:
                if isinstance(k, ClassDef) and k.methods.get('__init__') is not None:
                    base_init = k.methods['__init__']
                    break
            if base_init is None:
                continue
            bp = [p_.arg for p_ in base_init.positional_params()[1:]]
            for i, a in enumerate(n.args):
                if isinstance(a, ast.Name) and a.id == pname and i < len(bp):
                    r = _kept_in_attribute(ix, base_init, bp[i], depth + 1)
                    if r:
                        return r
            for kw in n.keywords:
                if kw.arg and isinstance(kw.value, ast.Name) and kw.value.id == pname:
                    r = _kept_in_attribute(ix, base_init, kw.arg, depth + 1)
                    if r:
                        return r
    return None


def clause_g(c: Check):
    """a text can be read any number of times, by any number of readers: nothing that can be traversed only once - a
    generator, map / filter / zip / chain object - is kept in an attribute (an attribute outlives the one traversal;
    the second reader of a cached `as_lines` would see an empty text). Whole-tree sweep; on the pinned tree no
    attribute anywhere is assigned a one-shot iterator, a fixture keeps the rule honest."""
    ix = c.ix
    n_mod = 0
    found = 0
    for name in ix.all_module_names():
        m = ix.module(name)
        n_mod += 1
        for f, x, what in _one_shot_stores(ix, m):
            found += 1
            c.bad('C14-g', 'one-shot-iterator-kept/%s/%s' % (f.key if f else name, unparse(x.targets[0])),
                  '%s is assigned %s: it can be traversed once, but the attribute is there for every later reader - the '
                  'second one gets nothing (a text that has lines for the first matcher has none for the next)' % (
                      unparse(x.targets[0]), what), '%s:%d' % (m.relpath, x.lineno))
    c.floor('C14-g', 'modules scanned for one-shot iterators kept in attributes', n_mod, 500)
    if not found:
        c.ok('C14-g', 'no-one-shot-iterator-kept-in-an-attribute', detail='%d modules' % n_mod)
    import os
    from ..report import VERIF_ROOT
    fx = Index(os.path.join(VERIF_ROOT, 'fixtures', 'evaluators'))
    fm = fx.module('exactly_lib.impls.fixture_one_shot')
    got = _one_shot_stores(fx, fm)
    want = sum(1 for line in fm.src.splitlines() if '# EXPECT one-shot' in line)
    if len(got) != want:
        raise AnalysisError('C14-g: positive control failed: %d stores reported in the fixture, expected %d' % (len(got), want))


# ---------------------------------------------------------------- h
def clause_h(c: Check):
    """TS "no write to a buffer that has been replaced": when the text held in memory outgrows the buffer,
    `SpooledTextFile._rollover` copies it to a file on disk and makes that file the object `self._file` names. From
    then on the old in-memory buffer is dead: a method that keeps it in a local (`file = self._file`) must not write
    to it after a call that may have rolled over - the text written there is lost (the frozen text of a large
    `filter` / `grep` output misses everything after the first 8 kB). Every writing method of the class is run
    abstractly (helpers inlined, `self._path` None and not None, iterators handed to a consumer count as used up) and
    on every path each write goes to the object that `self._file` names at that moment."""
    from ..absint import Interp, Hooks, State, K, Sym, Obj, NONE
    ix, fo = c.ix, c.fo
    cls = ix.cls('exactly_lib.util.file_utils.spooled_file:SpooledTextFile')
    rollover = ix.class_member(cls, '_rollover')
    c.require(isinstance(rollover, FuncDef), 'C14-h: SpooledTextFile._rollover not found')
    helpers = [m for m in cls.methods.values() if m.name.startswith('_') and not m.name.startswith('__')]
    WRITES = ('write', 'writelines', 'truncate')

    class H(Hooks):
        loop_bound = 2
        iterators_are_consumed = True

        def inline(self, fd, st):
            return fd in helpers

    n_methods = 0
    n_paths = 0
    for mname in ('write', 'writelines', 'truncate'):
        m = cls.methods.get(mname)
        if m is None:
            continue
        n_methods += 1
        for on_disk in (False, True):
            it = Interp(ix, fo, H())
            obj = it.new_obj(cls)
            st = State()
            buf = Sym('the-buffer-at-entry', nullness=False, truth=True)
            st.heap[(obj.oid, '_file')] = buf
            st.heap[(obj.oid, '_path')] = Sym('path', nullness=False, truth=True) if on_disk else NONE
            st.heap[(obj.oid, '_max_size')] = Sym('max-size', truth=True)
            for p in it.run_function(m, {}, st, recv=obj):
                n_paths += 1
                c.count()
                current = buf
                dead = []
                for e in p.trace:
                    if e.kind == 'setattr' and e.data[0] is obj and e.data[1] == '_file':
                        dead.append(current)
                        current = e.data[2]
                    elif e.kind == 'call' and isinstance(e.node.func, ast.Attribute) and e.node.func.attr in WRITES \
                            and e.func is not rollover:
                        recv = e.data.get('recv')
                        if recv is None:
                            cv = e.data.get('callee_val')
                            recv = cv.origin[1] if isinstance(cv, Sym) and cv.origin and cv.origin[0] == 'attr' else None
                        if recv is not None and any(recv is d for d in dead):
                            c.bad('C14-h', 'write-to-replaced-buffer/%s' % m.key,
                                  '%s calls %s on the in-memory buffer after the roll-over to disk has replaced it '
                                  '(self._file names the file on disk by then): what is written there is lost' % (
                                      m.name, unparse(e.node)[:50]), '%s:%d' % (cls.module.relpath, e.node.lineno))
            c.ok('C14-h', 'writes-go-to-the-current-object/%s/%s' % (mname, 'on-disk' if on_disk else 'in-memory'))
    c.floor('C14-h', 'writing methods of SpooledTextFile analysed', n_methods, 3)
    c.floor('C14-h', 'paths of the writing methods', n_paths, 8)


# ---------------------------------------------------------------- i
def clause_i(c: Check):
    """SIB between the two outcomes of freezing a text through the spooled buffer: a text that fits the memory buffer
    is kept as it was written (the buffer's string: CR is a character, lines end at "\\n" only), a text that outgrows
    it is moved to a file on disk and read from there afterwards.  The two must treat line ends alike, whatever the
    text: either both keep the text as written (the spill file created and every reader of it constructed with
    newline='\\n') or both apply the ordinary translation of a text file.  When they differ, a text with CR has one
    division into lines below the buffer size and another above it (`( M && M )` freezes its model: `num-lines` of
    3000 lines `a\\rb` is 3000 unfrozen and 6000 frozen).  Judged for every function that uses the spooled buffer."""
    ix, fo = c.ix, c.fo
    spooled = ix.cls('exactly_lib.util.file_utils.spooled_file:SpooledTextFile')
    # how the buffer creates its file on disk
    spill_verbatim = None
    n_open = 0
    for f in spooled.methods.values():
        for n in walk_own(f.node):
            if isinstance(n, ast.Call) and isinstance(n.func, ast.Attribute) and n.func.attr == 'open':
                n_open += 1
                v = {k.arg: k.value for k in n.keywords}.get('newline')
                this = isinstance(v, ast.Constant) and v.value == '\n'
                spill_verbatim = this if spill_verbatim is None else (spill_verbatim and this)
    c.floor('C14-i', 'places where the spooled buffer creates its file', n_open, 1)
    n_users = 0
    for s_ in util.call_sites_of(ix, spooled):
        f = s_.func
        if f is None:
            continue
        n_users += 1
        kinds = {}
        for r in util.returned_values(f):
            for v in _arms(r):
                v = util.resolve_temp(f, v)
                if not isinstance(v, ast.Call):
                    continue
                d = ix.callee(f.module, f, v)
                if not isinstance(d, ClassDef):
                    continue
                mentions = lambda name: any(isinstance(x, ast.Attribute) and x.attr == name for a in v.args for x in ast.walk(a))
                if mentions('mem_buff'):
                    kinds['in memory: %s' % d.name] = 'as written'
                elif mentions('path_of_file_on_disk'):
                    reads_file = any(isinstance(x, ast.Call) and isinstance(x.func, ast.Attribute)
                                     and x.func.attr in ('open', 'read_text')
                                     for k in d.methods.values() for x in walk_own(k.node))
                    if reads_file:
                        attr = newline_parametrised_reader(ix, d)
                        b = util.ctor_call_args(ix, d, v) or {}
                        nv = b.get('newline')
                        verb = attr is not None and isinstance(nv, ast.Constant) and nv.value == '\n' and bool(spill_verbatim)
                    else:
                        verb = bool(spill_verbatim)   # its text was read through the buffer's own file object
                    kinds['on disk: %s' % d.name] = 'as written' if verb else 'newline-translated'
        c.require(any(k.startswith('in memory') for k in kinds) and any(k.startswith('on disk') for k in kinds),
                  'C14-i: the two outcomes of %s (text kept in memory / moved to disk) are not recognised: %s' % (f.key, kinds))
        c.expect(len(set(kinds.values())) == 1, 'C14-i', 'spill-agrees-with-memory/' + f.key,
                 'a text frozen by %s is %s: a text with CR (or CR LF made by a transformer) is divided into lines '
                 'differently once it is larger than the memory buffer' % (
                     f.name, '; '.join('%s %s' % kv for kv in sorted(kinds.items()))), f.loc())
    c.floor('C14-i', 'users of the spooled buffer', n_users, 1)


def _arms(e):
    if isinstance(e, ast.IfExp):
        yield from _arms(e.body)
        yield from _arms(e.orelse)
    else:
        yield e


# ---------------------------------------------------------------- j
def clause_j(c: Check):
    """TS the cached file of a text (`as_file`) is remembered only once it is COMPLETE: the attribute that caches the
    path is assigned None (nothing cached) or the result of the call that makes the whole file - never a path that
    is still to be written.  A path remembered before the write has finished survives a failure half way through:
    the next `as_file` hands out the truncated file while as_str / as_lines give the whole text."""
    ix = c.ix
    n = 0
    for name in _text_value_modules(ix):
        if '_as_file_path' not in ix.text(name):
            continue
        m = ix.module(name)
        for x in ast.walk(m.tree):
            if isinstance(x, ast.Assign):
                for tg in x.targets:
                    if isinstance(tg, ast.Attribute) and tg.attr == '_as_file_path':
                        n += 1
                        v = x.value
                        f = m.enclosing_func(x)
                        ok = (isinstance(v, ast.Constant) and v.value is None) or (
                            isinstance(v, ast.Call) and isinstance(v.func, ast.Attribute) and v.func.attr == '_to_file')
                        c.expect(ok, 'C14-j', 'cached-file-is-complete/%s' % (f.key if f else name),
                                 'the cached path of the text as a file is set to `%s` - not to the result of the call that '
                                 'writes the whole file: a failure while writing leaves a truncated file that later '
                                 'readers of as_file get' % unparse(v), '%s:%d' % (m.relpath, x.lineno))
    c.floor('C14-j', 'assignments of the cached file path', n, 3)
