"""Typestate model of the partial executor: all event traces of
`_PartialExecutor.execute` (scope S1 of DESIGN.md, C01).

Shared by C01 (protocol), C03 (validation precedes execution), C04 (sandbox
lifecycle), C19-f.
"""
import ast
from typing import List, Optional, Dict, Tuple

from ..core import Index, FuncDef, ClassDef, Def, External, AnalysisError, unparse
from ..fold import Folder, Record, EnumMember, Ref, is_unknown
from ..absint import Interp, Hooks, State, Path, Event, K, Sym, Obj, Exc, BoundMethod, FuncVal, ListVal

EXECUTOR_MOD = 'exactly_lib.execution.partial_execution.impl.executor'
PSE_MOD = 'exactly_lib.execution.impl.phase_step_execution'
SYMVAL_MOD = 'exactly_lib.execution.partial_execution.impl.symbol_validation'
ACTHELPER_MOD = 'exactly_lib.execution.partial_execution.impl.act_helper'
RESULT_MOD = 'exactly_lib.execution.result'


class Step:
    """one event of interest on a trace"""

    def __init__(self, kind: str, **kw):
        self.kind = kind  # step | marker | terminal
        self.__dict__.update(kw)

    def __repr__(self):
        if self.kind == 'step':
            return '%s/%s%s' % (self.phase, self.step, '!' if self.raised else '')
        if self.kind == 'marker':
            return self.name
        return 'T:' + self.name


class Trace:
    def __init__(self, steps: List[Step], terminal: str, terminal_detail, path: Path):
        self.steps = steps
        self.terminal = terminal  # PASS | FAIL | ESCAPE:<exc> | OTHER
        self.terminal_detail = terminal_detail
        self.path = path

    def names(self) -> List[str]:
        return [repr(s) for s in self.steps]

    def first_raised(self) -> Optional[Step]:
        for s in self.steps:
            if s.kind == 'step' and s.raised:
                return s
        return None

    def index_of(self, pred) -> List[int]:
        return [i for i, s in enumerate(self.steps) if pred(s)]

    def short(self):
        return ' > '.join(self.names()) + ' => ' + self.terminal + (
            '(%s)' % self.terminal_detail if self.terminal_detail else '')


class ExecutorHooks(Hooks):
    loop_bound = 1
    # the configuration objects the executor reads (exe_conf, conf_values ...) do not change while it runs
    stable_attributes = True

    def __init__(self, ix: Index, fo: Folder):
        self.ix = ix
        self.fo = fo
        self.pe = ix.cls(EXECUTOR_MOD + ':_PartialExecutor')
        self.sv = ix.cls(SYMVAL_MOD + ':SymbolsValidator')
        self.ah = ix.cls(ACTHELPER_MOD + ':ActHelper')
        self.scope_classes = {self.pe, self.sv, self.ah}
        self.scope_funcs = {ix.func(EXECUTOR_MOD + ':parse_atc_and_validate_symbols')}
        d = ix.try_lookup(EXECUTOR_MOD + ':_initial_atc_executor')
        if isinstance(d, FuncDef):
            self.scope_funcs.add(d)
        self.run_step = ix.func(PSE_MOD + ':run_instructions_phase_step')
        self.run_action = ix.func(PSE_MOD + ':execute_action_and_catch_internal_error_exception')
        self.psfe = ix.cls(RESULT_MOD + ':PhaseStepFailureException')
        self.final_pass = ix.func(EXECUTOR_MOD + ':_PartialExecutor._final_pass_result')
        self.final_fail = ix.func(EXECUTOR_MOD + ':_PartialExecutor._final_failure_result_from')
        self.no_inline = {self.final_pass, self.final_fail}
        # helper of ActHelper.__init__ that only collects the act-phase instructions (a loop over elements)
        d = ix.class_member(self.ah, '_instructions_in')
        if isinstance(d, FuncDef):
            self.no_inline.add(d)

    def inline(self, fd: FuncDef, st: State) -> bool:
        if fd in self.no_inline:
            return False
        if fd in self.scope_funcs:
            return True
        f = fd
        while f is not None:
            if f.cls is not None:
                return f.cls in self.scope_classes
            f = f.parent
        return False

    def inline_class(self, cd: ClassDef, st: State) -> bool:
        return cd in (self.sv, self.ah)

    def may_raise(self, callee_def, node, st):
        if callee_def in (self.run_step, self.run_action):
            return [self.psfe]
        return []

    def make_exc(self, interp, exc_cls, node, ev_idx, st):
        # argument non-None: every construction of PhaseStepFailureException passes a non-None failure
        # (checked as obligation C01-e/nonnull in C01.py)
        f = Sym('failure', nullness=False, origin=('failure-of', ev_idx))
        return Exc(exc_cls, [f], node, origin_event=ev_idx)


def _step_of_value(fo: Folder, v) -> Optional[Tuple[str, str]]:
    """(phase identifier, step name) of a folded PhaseStep record"""
    if isinstance(v, K) and isinstance(v.v, Record) and v.v.cls.name == 'PhaseStep':
        ph = fo.record_attr(v.v, 'phase')
        stp = fo.record_attr(v.v, 'step')
        if isinstance(ph, Record) and isinstance(stp, str):
            en = fo.record_attr(ph, 'the_enum')
            if isinstance(en, EnumMember):
                return en.name, stp
    return None


def _origin_call(v) -> Optional[tuple]:
    if isinstance(v, Sym) and v.origin and v.origin[0] == 'call':
        return v.origin
    return None


class ExecutorModel:
    def __init__(self, ix: Index, fo: Folder):
        self.ix = ix
        self.fo = fo
        self.hooks = ExecutorHooks(ix, fo)
        self.interp = Interp(ix, fo, self.hooks)
        self.traces: List[Trace] = []
        self.problems: List[str] = []
        self.construct_at = ix.func('exactly_lib.tcfs.sds:construct_at')
        self._build()

    def _build(self):
        h = self.hooks
        st = State()
        objs = self.interp.instantiate(h.pe, st)
        paths: List[Path] = []
        exe = self.ix.func(EXECUTOR_MOD + ':_PartialExecutor.execute')
        for obj, s in objs:
            # events of the constructor are kept: an effect there would precede all validation
            paths.extend(self.interp.run_function(exe, st=s, recv=obj))
        for p in paths:
            self.traces.append(self._abstract(p))

    def _abstract(self, p: Path) -> Trace:
        h = self.hooks
        steps: List[Step] = []
        idx_to_step: Dict[int, Step] = {}
        for i, e in enumerate(p.trace):
            if e.kind == 'call':
                cd = e.data['callee']
                args = e.data['args']
                if cd == h.run_step:
                    ps = _step_of_value(self.fo, args[0]) if args else None
                    if ps is None:
                        raise AnalysisError('C01: step constant of run_instructions_phase_step not folded at %s:%d'
                                            % (e.func.module.relpath, e.node.lineno))
                    s = Step('step', phase=ps[0], step=ps[1], raised=False, via='instructions', event=e,
                             args=args, kwargs=e.data['kwargs'])
                    steps.append(s)
                    idx_to_step[i] = s
                elif cd == h.run_action:
                    fc = args[1] if len(args) > 1 else e.data['kwargs'].get('failure_con')
                    oc = _origin_call(fc)
                    ps = None
                    if oc is not None and oc[2]:
                        ps = _step_of_value(self.fo, oc[2][0])
                    if ps is None:
                        raise AnalysisError('C01: step constant of the failure constructor not found at %s:%d'
                                            % (e.func.module.relpath, e.node.lineno))
                    s = Step('step', phase=ps[0], step=ps[1], raised=False, via='action', event=e,
                             args=args, kwargs=e.data['kwargs'])
                    steps.append(s)
                    idx_to_step[i] = s
                elif cd == self.construct_at:
                    steps.append(Step('marker', name='SANDBOX', event=e))
                elif isinstance(cd, External) and cd.dotted == 'os.chdir':
                    steps.append(Step('marker', name='CHDIR', event=e, args=args))
                elif isinstance(cd, ClassDef) and cd.name == 'ActionToCheckExecutor':
                    steps.append(Step('marker', name='ATC_EXECUTOR', event=e))
                elif cd in (h.final_pass, h.final_fail):
                    steps.append(Step('terminal', name='PASS' if cd == h.final_pass else 'FAIL', event=e, args=args))
                elif cd is None or not isinstance(cd, (FuncDef, ClassDef)):
                    cv = e.data.get('callee_val')
                    if isinstance(cv, Sym) and cv.origin and cv.origin[0] == 'attr' \
                            and cv.origin[2] == 'sds_root_dir_resolver':
                        # resolving the sandbox root directory name creates the directory (mkdtemp)
                        steps.append(Step('marker', name='SANDBOX_ROOT', event=e))
            elif e.kind == 'raised':
                ec, ev_idx = e.data
                if ev_idx in idx_to_step:
                    idx_to_step[ev_idx].raised = True
            elif e.kind == 'none-deref':
                steps.append(Step('marker', name='NONE-DEREF(%s)' % e.data, event=e))
        # terminal
        terminal, detail = 'OTHER', None
        if p.kind == 'raise':
            terminal = 'ESCAPE'
            detail = p.val.cls.key.split(':')[-1] if isinstance(p.val, Exc) else repr(p.val)
        else:
            oc = _origin_call(p.val)
            if oc is not None and oc[1] == h.final_pass.key:
                terminal = 'PASS'
            elif oc is not None and oc[1] == h.final_fail.key:
                terminal = 'FAIL'
                arg = oc[2][0] if oc[2] else None
                detail = self._failure_origin(arg, idx_to_step)
            else:
                detail = repr(p.val)
        return Trace(steps, terminal, detail, p)

    def _failure_origin(self, v, idx_to_step) -> Optional[Step]:
        """the step whose exception's failure flows into the value"""
        seen = 0
        while v is not None and seen < 6:
            seen += 1
            if isinstance(v, Sym):
                root = getattr(v, 'root', v)
                o = root.origin or v.origin
                if o and o[0] == 'failure-of':
                    return idx_to_step.get(o[1])
                if o and o[0] == 'attr':
                    base = o[1]
                    if isinstance(base, Exc) and base.origin_event is not None:
                        return idx_to_step.get(base.origin_event)
                    v = base
                    continue
            return None
        return None
