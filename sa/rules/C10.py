"""C10 The action to check gets the denoted argv / stdin / cwd; its outcome is captured (DESIGN.md section 5,
clauses a-e)."""
import ast
from typing import List, Optional

from ..core import Index, FuncDef, ClassDef, External, AnalysisError, unparse, walk_own, dotted_name, parent
from ..fold import Folder, Record, EnumMember, Ref, is_unknown, single_return_expr
from ..absint import Interp, Hooks, State, K, Sym, Obj, Exc, NONE, ListVal, FuncVal, BoundMethod
from ..report import Check
from .. import util
from .common import ForkHooks, labels_of, check_record, run_factory

PX = 'exactly_lib.util.process_execution.process_executor'
EE = 'exactly_lib.util.process_execution.execution_elements'
EF = 'exactly_lib.impls.program_execution.executable_factories'
CMDS = 'exactly_lib.type_val_prims.program.commands'
ACC = 'exactly_lib.type_val_deps.types.program.sdv.accumulated_components'
ARGS = 'exactly_lib.type_val_deps.types.program.sdv.arguments'
ATC = 'exactly_lib.execution.partial_execution.impl.atc_execution'
STD = 'exactly_lib.util.file_utils.std'
PEX = 'exactly_lib.impls.actors.program.execution'
IPU = 'exactly_lib.impls.instructions.multi_phase.utils.instruction_part_utils'
SPE = 'exactly_lib.impls.instructions.multi_phase.utils.instruction_from_parts_for_executing_program'
R = 'exactly_lib.test_case.result.'


def check(c: Check):
    c.explanation = (
        'Plumbing of the one process-start site (each aspect of the child - argv, stdin, stdout, stderr, environment, '
        'timeout, shell flag - is read from the object of that role; no cwd argument, so the test\'s current directory '
        'is inherited), abstract evaluation of the command translator (shell => one string, otherwise program followed '
        'by the arguments in order), order of accumulation of arguments / stdin / transformations through every '
        'new_accumulated implementation and call site (what a program already has precedes what is added later) and '
        'of the stdin given to the action to check (stdin of the program, then stdin of [setup]), plumbing of the '
        'outcome files (writer and readers name the same file of the result directory), and the decision table of '
        'every main-step result translator (assertion and non-assertion translation agree on success; non-zero exit '
        'code => FAIL in [assert], HARD_ERROR elsewhere; -ignore-exit-code => unconditional success in both). Decides '
        'clauses a-e of DESIGN.md C10; not the argument vector denoted by arbitrary program syntax nor the bytes '
        'received by the child.')
    clause_a(c)
    clause_b(c)
    clause_c(c)
    clause_d(c)
    clause_e(c)
    clause_f(c)
    clause_g(c)
    clause_h(c)
    clause_i(c)
    from .common import check_exit_code_tests
    check_exit_code_tests(c, 'C10-j', ['exactly_lib.impls', 'exactly_lib.util.process_execution'], 8,
                          'what a killed program wrote before it died is used as its output, the failure is not reported')
    from .common import sweep_records
    sweep_records(c, 'C10-rec', ['exactly_lib.util.process_execution', 'exactly_lib.util.file_utils', 'exactly_lib.impls.program_execution', 'exactly_lib.type_val_prims.program'], floor=8)


def _param_chain(v):
    """('param name', (attr, ...)) of a value that is an attribute path of a parameter"""
    base, names = util.attr_chain(v)
    r = util.root_sym(base) if base is not None else None
    if isinstance(r, Sym) and r.origin and r.origin[0] == 'param':
        return r.origin[1], names
    return None, names


# ---------------------------------------------------------------- a
def clause_a(c: Check):
    ix, fo = c.ix, c.fo
    pe = ix.func(PX + ':ProcessExecutor.execute')
    role = {}
    for p in pe.positional_params()[1:]:
        ann = unparse(p.annotation) if p.annotation is not None else ''
        role[ann.split('.')[-1]] = p.arg
    c.require({'Executable', 'ProcessExecutionSettings', 'StdFiles'} <= set(role),
              'C10-a: ProcessExecutor.execute does not take (Executable, ProcessExecutionSettings, StdFiles)')
    ex, se, fi = role['Executable'], role['ProcessExecutionSettings'], role['StdFiles']
    want = {
        'args[0]': (ex, ('arg_list_or_str',)),
        'stdin': (fi, ('stdin',)),
        'stdout': (fi, ('output', 'out')),
        'stderr': (fi, ('output', 'err')),
        'env': (se, ('environ',)),
        'timeout': (se, ('timeout_in_seconds',)),
        'shell': (ex, ('is_shell',)),
    }
    n = 0
    for p in util.func_paths(ix, fo, pe, Hooks()):
        starts = [e for e in p.calls() if isinstance(e.data['callee'], External)
                  and e.data['callee'].dotted.startswith('subprocess.')]
        for e in starts:
            n += 1
            got = {}
            if e.data['args']:
                got['args[0]'] = _param_chain(e.data['args'][0])
            for k, v in e.data['kwargs'].items():
                got[k] = _param_chain(v)
            for k, w in sorted(want.items()):
                c.expect(got.get(k) == w, 'C10-a', 'process-start/%s' % k,
                         'the child\'s %s is %s (expected %s.%s)' % (
                             k, '%s.%s' % (got[k][0], '.'.join(got[k][1])) if k in got and got[k][0] else 'not given / not an attribute of a parameter',
                             w[0], '.'.join(w[1])), '%s:%d' % (pe.module.relpath, e.node.lineno))
            extra = sorted(set(got) - set(want))
            c.expect(not extra, 'C10-a', 'process-start/no-other-aspects',
                     'the child is started with further arguments %s (cwd / preexec_fn / ... change what the program '
                     'sees)' % extra, '%s:%d' % (pe.module.relpath, e.node.lineno))
            c.expect(len(e.data['args']) == 1, 'C10-a', 'process-start/one-positional', 'positional arguments: %d' % len(e.data['args']),
                     pe.loc())
            if p.kind == 'return':
                o = p.val.origin if isinstance(p.val, Sym) else None
                c.expect(bool(o) and o[0] == 'call' and o[5] == p.trace.index(e), 'C10-a', 'process-start/exit-code-returned',
                         'the value returned is not the exit code of the child', pe.loc())
    c.floor('C10-a', 'process-start calls in ProcessExecutor.execute', n, 1)
    # Executable: the properties read what the constructor was given
    exe = ix.cls(EE + ':Executable')
    rec = Record(exe, {'is_shell': True, 'arg_list_or_str': ('x',)})
    for attr in ('is_shell', 'arg_list_or_str'):
        v = fo.record_attr(rec, attr)
        c.expect(v == rec.args[attr], 'C10-a', 'Executable.' + attr, 'Executable.%s gives %r for the constructor argument %r' % (
            attr, v, rec.args[attr]), exe.loc())
    check_record(c, 'C10-a', ix.cls(STD + ':StdFiles'), renames={'stdin': 'stdin_file', 'output': 'output_files'})
    check_record(c, 'C10-a', ix.cls(STD + ':StdOutputFiles'), renames={'out': 'stdout_file', 'err': 'stderr_file'})
    check_record(c, 'C10-a', ix.cls(EE + ':ProcessExecutionSettings'))
    # the command executor hands (translated command, settings, files) on in that order
    ce = ix.func('exactly_lib.impls.program_execution.impl.cmd_exe_from_proc_exe:CommandExecutorFromProcessExecutor.execute')
    ok = False
    for p in util.func_paths(ix, fo, ce, Hooks()):
        for e in p.calls():
            if isinstance(e.node.func, ast.Attribute) and e.node.func.attr == 'execute' and len(e.data['args']) == 3:
                a0, a1, a2 = e.data['args']
                o = a0.origin if isinstance(a0, Sym) else None
                made_from = None
                if o and o[0] == 'call' and o[2]:
                    made_from = _param_chain(o[2][0])
                names = [p_.arg for p_ in ce.positional_params()[1:]]
                ok = made_from == (names[0], ()) and isinstance(o[4].func, ast.Attribute) and o[4].func.attr == 'make' \
                     and _param_chain(a1) == (names[1], ()) and _param_chain(a2) == (names[2], ())
    c.expect(ok, 'C10-a', 'CommandExecutorFromProcessExecutor.execute/plumbing',
             'the command executor does not execute (translation of the given command, the given settings, the given '
             'files)', ce.loc())


# ---------------------------------------------------------------- b
def clause_b(c: Check):
    ix, fo = c.ix, c.fo
    tr = ix.cls(EF + ':_CommandTranslator')
    exe = ix.cls(EE + ':Executable')
    visitor = ix.cls(CMDS + ':CommandDriverVisitor')
    # the visitor is total over the driver classes and routes each to the method of its kind
    drivers = [d for d in ix.subclasses_of(ix.cls('exactly_lib.type_val_prims.program.command:CommandDriver'))
               if not _is_abstract_class(ix, d)]
    visit = ix.class_member(visitor, 'visit')
    routed = {}
    for n in walk_own(visit.node):
        if isinstance(n, ast.If) and isinstance(n.test, ast.Call) and unparse(n.test.func) == 'isinstance':
            d = ix.resolve_static(visit.module, visit, n.test.args[1])
            r = util.block_return(visit, n.body)
            if isinstance(d, ClassDef) and isinstance(r, ast.Call) and isinstance(r.func, ast.Attribute):
                routed[d.key] = r.func.attr
    for d in drivers:
        c.expect(d.key in routed, 'C10-b', 'CommandDriverVisitor/handles/' + d.name,
                 'the command driver %s is not handled by the visitor' % d.name, visit.loc())
    c.floor('C10-b', 'command driver classes', len(drivers), 3)
    want_method = {'CommandDriverForShell': 'visit_shell', 'CommandDriverForExecutableFile': 'visit_executable_file',
                   'CommandDriverForSystemProgram': 'visit_system_program'}
    for k, m in sorted(routed.items()):
        name = k.split(':')[-1]
        if name in want_method:
            c.expect(m == want_method[name], 'C10-b', 'CommandDriverVisitor/routes/' + name,
                     '%s is routed to %s' % (name, m), visit.loc())
    # the translator
    class H(Hooks):
        def inline(self, fd, st):
            return fd.module.name == CMDS and fd.name in ('shell_command_line_with_args',)

        def inline_class(self, cd, st):
            return False

    for meth, is_shell, first in (('visit_shell', True, None),
                                  ('visit_executable_file', False, ('str', 'executable_file')),
                                  ('visit_system_program', False, (None, 'program'))):
        f = ix.class_member(tr, meth)
        c.require(isinstance(f, FuncDef), 'C10-b: _CommandTranslator.%s not found' % meth)
        it = Interp(ix, fo, H())
        obj = it.new_obj(tr)
        st = State()
        a0, a1 = Sym('arg0'), Sym('arg1')
        st.heap[(obj.oid, 'arguments')] = ListVal([a0, a1])
        dcls = ix.annotation_class(f.module, f, f.positional_params()[1].annotation)
        c.require(isinstance(dcls, ClassDef), 'C10-b: driver class of %s not resolved' % meth)
        driver = it.new_obj(dcls)
        cmd_line = Sym('command-line')
        if meth == 'visit_shell':
            st.heap[(driver.oid, '_command_line')] = cmd_line
        paths = it.run_function(f, {f.positional_params()[1].arg: driver}, st, recv=obj)
        c.require(len(paths) == 1 and paths[0].kind == 'return', 'C10-b: %s has %d paths' % (meth, len(paths)))
        con = util.constructed(ix, paths[0].val)
        c.require(con is not None and con[0] == exe.key, 'C10-b: %s does not build an Executable' % meth)
        by = con[3]
        sh = by.get('is_shell')
        c.expect(isinstance(sh, K) and sh.v is is_shell, 'C10-b', meth + '/is_shell',
                 '%s sets is_shell=%s' % (meth, util.describe(sh)), f.loc())
        av = by.get('arg_list_or_str')
        if is_shell:
            # ' '.join([command line] + arguments): one string, the command line verbatim first
            o = av.origin if isinstance(av, Sym) else None
            ok = bool(o) and o[0] == 'call' and isinstance(o[4].func, ast.Attribute) and o[4].func.attr == 'join' \
                 and isinstance(o[4].func.value, ast.Constant) and o[4].func.value.value == ' '
            items = o[2][0].items if ok and o[2] and isinstance(o[2][0], ListVal) else None
            ok = ok and items is not None and len(items) == 3 and items[0] is cmd_line and items[1] is a0 and items[2] is a1
            c.expect(bool(ok), 'C10-b', meth + '/command-string',
                     'a shell command is not passed as the one string <command line> <arguments joined by a space>',
                     f.loc())
        else:
            items = av.items if isinstance(av, ListVal) else None
            ok = items is not None and len(items) == 3 and items[1] is a0 and items[2] is a1
            if ok:
                conv, attr = first
                x = items[0]
                if conv:
                    o = x.origin if isinstance(x, Sym) else None
                    ok = bool(o) and o[0] == 'call' and o[1] == 'builtins.' + conv and len(o[2]) == 1
                    x = o[2][0] if ok else None
                base, names = util.attr_chain(x) if x is not None else (None, ())
                ok = ok and base is driver and names == (attr,)
            c.expect(bool(ok), 'C10-b', meth + '/argument-list',
                     '%s does not give the list [the program] + the arguments in order' % meth, f.loc())
    mk = ix.func(EF + ':ExecutableFactoryBase.make')
    r = single_return_expr(mk)
    ok = isinstance(r, ast.Call) and isinstance(r.func, ast.Attribute) and r.func.attr == 'visit' \
         and isinstance(r.func.value, ast.Call) and ix.callee(mk.module, mk, r.func.value) == tr \
         and [unparse(a) for a in r.func.value.args] == [mk.positional_params()[1].arg + '.arguments'] \
         and [unparse(a) for a in r.args] == [mk.positional_params()[1].arg + '.driver']
    c.expect(ok, 'C10-b', 'ExecutableFactoryBase.make', 'the executable is not made of (command.arguments, command.driver)',
             mk.loc())


def _is_abstract_class(ix: Index, d: ClassDef) -> bool:
    return any(unparse(b).split('.')[-1] == 'ABC' for b in d.node.bases)


# ---------------------------------------------------------------- c
def clause_c(c: Check):
    ix, fo = c.ix, c.fo
    acc = ix.cls(ACC + ':AccumulatedComponents')
    na = ix.class_member(acc, 'new_accumulated')

    class H(Hooks):
        def inline(self, fd, st):
            return False

        def inline_class(self, cd, st):
            return False

    it = Interp(ix, fo, H())
    st = State()
    me, other = it.new_obj(acc), it.new_obj(acc)
    vals = {}
    for o, tag in ((me, 'own'), (other, 'added')):
        for comp in ('stdin', 'transformations'):
            vals[(tag, comp)] = [Sym('%s-%s-%d' % (tag, comp, i)) for i in range(2)]
            st.heap[(o.oid, comp)] = ListVal(list(vals[(tag, comp)]), True)
        vals[(tag, 'arguments')] = Sym('%s-arguments' % tag, cls=ix.cls(ARGS + ':ArgumentsSdv'))
        st.heap[(o.oid, 'arguments')] = vals[(tag, 'arguments')]
    paths = it.run_function(na, {na.positional_params()[1].arg: other}, st, recv=me)
    c.require(len(paths) == 1 and paths[0].kind == 'return', 'C10-c: AccumulatedComponents.new_accumulated has %d paths' % len(paths))
    con = util.constructed(ix, paths[0].val)
    c.require(con is not None and con[0] == acc.key, 'C10-c: new_accumulated does not build AccumulatedComponents')
    by = con[3]
    for comp in ('stdin', 'transformations'):
        v = by.get(comp)
        items = v.items if isinstance(v, ListVal) else None
        want = vals[('own', comp)] + vals[('added', comp)]
        ok = items is not None and len(items) == len(want) and all(a is b for a, b in zip(items, want))
        c.expect(ok, 'C10-c', 'AccumulatedComponents.new_accumulated/' + comp,
                 'accumulated %s is %s (expected: what the program already has, then what is added)' % (
                     comp, util.describe(v)), na.loc())
    v = by.get('arguments')
    o = v.origin if isinstance(v, Sym) else None
    ok = bool(o) and o[0] == 'call' and o[1].endswith('ArgumentsSdv.new_accumulated') and len(o[2]) == 1 \
         and o[2][0] is vals[('added', 'arguments')]
    if ok:
        ev = paths[0].trace[o[5]]
        ok = ev.data.get('recv') is vals[('own', 'arguments')]
    c.expect(bool(ok), 'C10-c', 'AccumulatedComponents.new_accumulated/arguments',
             'accumulated arguments are %s (expected own.new_accumulated(added))' % util.describe(v), na.loc())
    # ArgumentsSdv.new_accumulated
    argc = ix.cls(ARGS + ':ArgumentsSdv')
    an = ix.class_member(argc, 'new_accumulated')
    pn = an.positional_params()[1].arg
    it = Interp(ix, fo, H())
    paths = it.run_function(an, {})
    c.require(len(paths) == 1 and paths[0].kind == 'return', 'C10-c: ArgumentsSdv.new_accumulated has %d paths' % len(paths))
    con = util.constructed(ix, paths[0].val)
    c.require(con is not None and con[0] == argc.key, 'C10-c: ArgumentsSdv.new_accumulated does not build ArgumentsSdv')
    lst = con[1][0] if con[1] else con[3].get('arguments')
    o = lst.origin if isinstance(lst, Sym) else None
    ok = bool(o) and o[0] == 'call' and o[1].endswith('list_sdvs:concat') and o[2] and isinstance(o[2][0], ListVal) \
         and len(o[2][0].items) == 2
    if ok:
        first, second = o[2][0].items
        fb, fn = util.attr_chain(first)
        ok = isinstance(fb, Obj) and fn == ('_arguments',) and _param_chain(second) == (pn, ('arguments_list',))
    c.expect(bool(ok), 'C10-c', 'ArgumentsSdv.new_accumulated/order',
             'the accumulated argument list is not concat([own arguments, added arguments])', an.loc())
    al = ix.class_member(argc, 'arguments_list')
    r = single_return_expr(al)
    c.expect(isinstance(r, ast.Attribute) and r.attr == '_arguments', 'C10-c', 'ArgumentsSdv.arguments_list',
             'arguments_list is not the argument list of the object', al.loc())
    # list concatenation keeps the order of the lists and of their elements
    cc = ix.func('exactly_lib.type_val_deps.types.list_.list_sdvs:concat')
    r = single_return_expr(cc)
    ok = isinstance(r, ast.Call) and len(r.args) == 1 and isinstance(r.args[0], ast.Call) \
         and unparse(r.args[0].func) == 'itertools.chain.from_iterable' and len(r.args[0].args) == 1
    if ok:
        comp = r.args[0].args[0]
        ok = isinstance(comp, (ast.ListComp, ast.GeneratorExp)) and len(comp.generators) == 1 and not comp.generators[0].ifs \
             and unparse(comp.generators[0].iter) == cc.positional_params()[0].arg \
             and isinstance(comp.elt, ast.Attribute) and isinstance(comp.elt.value, ast.Name) \
             and comp.elt.value.id == comp.generators[0].target.id and comp.elt.attr == 'elements'
    c.expect(ok, 'C10-c', 'list_sdvs.concat/order', 'list concatenation does not keep lists and elements in order', cc.loc())
    # every accumulate-method of a program / command value: own part is the receiver, the added part the argument
    n = 0
    for m in ix.modules_mentioning('new_accumulated'):
        for cls in m.all_classes:
            for name, f in cls.methods.items():
                if name not in ('new_accumulated', 'new_with_additional_arguments') or util.is_abstract_body(f):
                    continue
                if cls in (acc, argc):
                    continue
                pp = f.positional_params()
                if len(pp) != 2:
                    continue
                calls = [x for x in walk_own(f.node) if isinstance(x, ast.Call) and isinstance(x.func, ast.Attribute)
                         and x.func.attr == 'new_accumulated']
                for call in calls:
                    n += 1
                    recv_names = {x.id for x in ast.walk(call.func.value) if isinstance(x, ast.Name)}
                    arg_names = {x.id for a in call.args for x in ast.walk(a) if isinstance(x, ast.Name)}
                    ok = recv_names == {pp[0].arg} and arg_names == {pp[1].arg} and len(call.args) == 1
                    c.expect(ok, 'C10-c', 'accumulate/%s' % f.key,
                             '%s accumulates %s.new_accumulated(%s): the components the value already has must be the '
                             'receiver and the added ones the argument (else earlier arguments / stdin / '
                             'transformations end up after later ones)' % (
                                 f.key.split(':')[-1], unparse(call.func.value), ', '.join(unparse(a) for a in call.args)),
                             '%s:%d' % (m.relpath, call.lineno))
    c.floor('C10-c', 'accumulate methods of program values', n, 3)
    # reference to a program symbol: the referenced program's components first, then those of the reference
    rs = ix.func('exactly_lib.impls.types.program.sdvs.program_symbol_sdv:ProgramSdvForSymbolReference.resolve')

    def call_of(p, v):
        """(method name, receiver value, argument values) of the call whose result v is"""
        o = v.origin if isinstance(v, Sym) else None
        if not o or o[0] != 'call' or o[5] is None or o[5] >= len(p.trace):
            return None, None, []
        e = p.trace[o[5]]
        recv = e.data.get('recv')
        if recv is None and e.data.get('callee_val') is not None:
            recv = util.attr_chain(e.data.get('callee_val'))[0]
        name = e.node.func.attr if isinstance(e.node.func, ast.Attribute) else unparse(e.node.func)
        return name, recv, list(e.data['args'])

    def own_components(v, *tail):
        b, names = util.attr_chain(v) if v is not None else (None, ())
        return isinstance(b, Obj) and names == ('_accumulated_components',) + tail

    sym_param = rs.positional_params()[1].arg
    n_paths = 0
    for p in util.func_paths(ix, fo, rs, H()):
        if p.kind != 'return':
            continue
        n_paths += 1
        # the value returned: <looked-up program>.new_accumulated(<all own components>).resolve(symbols)
        name, recv, args = call_of(p, p.val)
        ok = name == 'resolve' and len(args) == 1 and _param_chain(args[0]) == (sym_param, ())
        if ok:
            name2, recv2, args2 = call_of(p, recv)
            ro = recv2.origin if isinstance(recv2, Sym) else None
            ok = name2 == 'new_accumulated' and bool(ro) and ro[0] == 'call' and ro[1].endswith('lookup_program') \
                 and len(args2) == 1 and own_components(args2[0])
        c.expect(bool(ok), 'C10-c', 'ProgramSdvForSymbolReference.resolve/order',
                 'a reference to a program symbol resolves, on the path %s, to %s: not to (the referenced program)'
                 '.new_accumulated(all components of the reference).resolve(symbols) - components of the reference '
                 '(arguments, stdin, transformations) are lost or misplaced' % (
                     [('' if t else 'not ') + unparse(g) for g, t in p.guards],
                     util.describe(p.val)), rs.loc())
    c.floor('C10-c', 'returning paths of ProgramSdvForSymbolReference.resolve', n_paths, 1)
    # command program: the command's own arguments, then the accumulated ones; stdin and transformations from all
    # the accumulated components
    rc = ix.func('exactly_lib.impls.types.program.sdvs.command_program_sdv:ProgramSdvForCommand.resolve')
    sym_param = rc.positional_params()[1].arg
    n_paths = 0
    for p in util.func_paths(ix, fo, rc, H()):
        if p.kind != 'return':
            continue
        n_paths += 1
        con = util.constructed(ix, p.val)
        ok = con is not None and con[0].endswith(':ProgramDdv') and len(con[3]) == 3
        if ok:
            cmd, stdin, trans = list(con[3].values())
            name, recv, args = call_of(p, cmd)
            ok = name == 'resolve' and len(args) == 1 and _param_chain(args[0]) == (sym_param, ())
            if ok:
                name2, recv2, args2 = call_of(p, recv)
                rb, rn = util.attr_chain(recv2) if recv2 is not None and not isinstance(recv2, Obj) else (recv2, ())
                ok = name2 == 'new_with_additional_arguments' and rn[-1:] == ('_command',) and len(args2) == 1 \
                     and own_components(args2[0], 'arguments')
            for v, meth in ((stdin, 'resolve_stdin'), (trans, 'resolve_transformations')):
                name3, recv3, args3 = call_of(p, v)
                ok = ok and name3 == meth and own_components(recv3) and len(args3) == 1 \
                     and _param_chain(args3[0]) == (sym_param, ())
        c.expect(bool(ok), 'C10-c', 'ProgramSdvForCommand.resolve/order',
                 'a command program resolves to %s: not to ProgramDdv(command with its own arguments followed by all '
                 'accumulated ones, all accumulated stdin, all accumulated transformations)' % util.describe(p.val), rc.loc())
    c.floor('C10-c', 'returning paths of ProgramSdvForCommand.resolve', n_paths, 1)
    for meth, comp in (('resolve_stdin', 'stdin'), ('resolve_transformations', 'transformations')):
        fm = ix.class_member(acc, meth)
        it = Interp(ix, fo, H())
        st = State()
        me = it.new_obj(acc)
        items = [Sym('%s-%d' % (comp, i)) for i in range(3)]
        for comp2 in ('stdin', 'transformations'):
            st.heap[(me.oid, comp2)] = ListVal(list(items) if comp2 == comp else [Sym('other-%d' % i) for i in range(2)], True)
        paths = it.run_function(fm, {}, st, recv=me)
        c.require(len(paths) == 1 and paths[0].kind == 'return', 'C10-c: AccumulatedComponents.%s has %d paths' % (meth, len(paths)))
        from .common import mapped_in_order
        ok = mapped_in_order(paths[0], paths[0].val, items, 'resolve')
        c.expect(bool(ok), 'C10-c', 'AccumulatedComponents.%s/every-part-in-order' % meth,
                 'the accumulated %s parts are resolved to %s (expected: every part resolved, in the accumulated order)' % (
                     comp, util.describe(paths[0].val)), fm.loc())
    # parse: command and arguments, then stdin, then transformation
    pp_ = ix.func('exactly_lib.impls.types.program.parse.parse_program:_Parser.parse_from_token_parser')
    order = []
    for p in util.func_paths(ix, fo, pp_, H()):
        order = [e.node.func.attr for e in p.calls() if isinstance(e.node.func, ast.Attribute)
                 and e.node.func.attr in ('_parse_command_and_arguments', '_parse_stdin', '_parse_transformation',
                                          'new_accumulated')]
        last = [e for e in p.calls() if isinstance(e.node.func, ast.Attribute) and e.node.func.attr == 'new_accumulated'][-1:]
        ok = order == ['_parse_command_and_arguments', '_parse_stdin', 'new_accumulated', '_parse_transformation',
                       'new_accumulated', 'new_accumulated']
        if ok and last:
            recv = last[0].data.get('recv')
            if recv is None:
                recv = util.attr_chain(last[0].data.get('callee_val'))[0]
            ro = recv.origin if isinstance(recv, Sym) else None
            ok = bool(ro) and ro[0] == 'call' and ro[1].endswith('_parse_command_and_arguments') \
                 and p.kind == 'return' and isinstance(p.val, Sym) and p.val.origin[5] == p.trace.index(last[0])
        c.expect(bool(ok), 'C10-c', 'parse_program/order',
                 'a program is not parsed as command and arguments, stdin, transformation accumulated in that order '
                 'onto the command (%s)' % order, pp_.loc())
    ac = ix.func('exactly_lib.impls.types.program.parse.parse_arguments:_accumulate')
    r = single_return_expr(ac)
    names = [p_.arg for p_ in ac.positional_params()]
    ok = isinstance(r, ast.Call) and unparse(r.func) == names[0] + '.new_accumulated' and [unparse(a) for a in r.args] == [names[1]]
    c.expect(ok, 'C10-c', 'parse_arguments._accumulate', 'argument elements are not accumulated left to right', ac.loc())
    red = [n_ for n_ in ast.walk(ac.module.tree) if isinstance(n_, ast.Call) and unparse(n_.func) == 'functools.reduce'
           and n_.args and unparse(n_.args[0]) == '_accumulate']
    c.expect(len(red) == 1, 'C10-c', 'parse_arguments/reduce', 'the argument elements are not folded with functools.reduce '
                                                               'from the left', ac.module.relpath)
    # stdin of the action to check: stdin of the program, then stdin of [setup]
    rs_ = ix.func(PEX + ':Executor._resolve_stdin')
    names = [p_.arg for p_ in rs_.positional_params()]
    act = [n_ for n_ in names if 'act' in n_]
    prog = [n_ for n_ in names if 'program' in n_]
    c.require(len(act) == 1 and len(prog) == 1, 'C10-c: parameters of Executor._resolve_stdin not recognised')
    n_paths = 0
    for has_act in (True, False):
        it = Interp(ix, fo, H())
        p0, p1 = Sym('program-stdin-0'), Sym('program-stdin-1')
        a = Sym('act-stdin', truth=True, nullness=False) if has_act else NONE
        paths = it.run_function(rs_, {act[0]: a, prog[0]: ListVal([p0, p1])})
        for p in paths:
            n_paths += 1
            o = p.val.origin if p.kind == 'return' and isinstance(p.val, Sym) else None
            items = o[2][0].items if o and o[0] == 'call' and o[2] and isinstance(o[2][0], ListVal) else None
            want = [p0, p1] + ([a] if has_act else [])
            ok = items is not None and len(items) == len(want) and all(x is y for x, y in zip(items, want))
            c.expect(bool(ok), 'C10-c', '_resolve_stdin/%s' % ('with-setup-stdin' if has_act else 'without-setup-stdin'),
                     'stdin of the action to check is %s (expected the stdin parts of the program in order%s)' % (
                         util.describe(p.val) if p.kind == 'return' else p.kind,
                         ', then the stdin set in [setup]' if has_act else ''), rs_.loc())
    c.floor('C10-c', 'paths of _resolve_stdin', n_paths, 2)
    ex = ix.func(PEX + ':Executor.execute')
    ok = False
    for p in util.func_paths(ix, fo, ex, H()):
        for e in p.calls():
            if e.data.get('callee') == rs_:
                a = e.data['args']
                ok = len(a) == 3 and _param_chain(a[0]) == ('stdin', ()) and util.attr_chain(a[1])[1][-1:] == ('stdin',)
                ro = util.attr_chain(a[1])[0]
                ok = ok and isinstance(ro, Sym) and bool(ro.origin) and ro.origin[0] == 'call' \
                     and ro.origin[1].endswith('_resolve_program')
    c.expect(ok, 'C10-c', 'Executor.execute/stdin-plumbing', 'the stdin of the action to check is not resolved from (the '
                                                            'given stdin, the stdin of the resolved program)', ex.loc())


# ---------------------------------------------------------------- d
def clause_d(c: Check):
    ix, fo = c.ix, c.fo
    cls = ix.cls(ATC + ':ActionToCheckExecutor')

    class H(Hooks):
        def inline(self, fd, st):
            return False

    # the output files given to the actor are the ones opened on result/stdout and result/stderr
    sof = ix.class_member(cls, '_std_output_files')
    pairs = {}
    for n in ast.walk(sof.node):
        if isinstance(n, ast.withitem) and isinstance(n.context_expr, ast.Call) and n.optional_vars is not None \
                and n.context_expr.args:
            ch = unparse(n.context_expr.args[0])
            mode = n.context_expr.args[1].value if len(n.context_expr.args) > 1 and isinstance(n.context_expr.args[1], ast.Constant) else None
            pairs[n.optional_vars.id] = (ch.split('.')[-1], ch, mode)
    ys = [n for n in ast.walk(sof.node) if isinstance(n, ast.Yield) and isinstance(n.value, ast.Call)]
    ok = len(ys) == 1 and ix.callee(sof.module, sof, ys[0].value) == ix.cls(STD + ':StdOutputFiles')
    if ok:
        b = util.ctor_call_args(ix, ix.cls(STD + ':StdOutputFiles'), ys[0].value) or {}
        so, se = b.get('stdout_file'), b.get('stderr_file')
        ok = isinstance(so, ast.Name) and isinstance(se, ast.Name) and pairs.get(so.id, ('',))[0] == 'stdout_file' \
             and pairs.get(se.id, ('',))[0] == 'stderr_file' and pairs[so.id][2] == 'w' and pairs[se.id][2] == 'w' \
             and '.result.' in pairs[so.id][1] and '.result.' in pairs[se.id][1]
    c.expect(bool(ok), 'C10-d', '_std_output_files/stdout-stderr',
             'stdout / stderr of the action to check are not written to result.stdout_file / result.stderr_file', sof.loc())
    # execute: the given output files go to the actor; the outcome registered is the actor's result
    de = ix.class_member(cls, '_do_execute_w_output_files')
    reg = ix.class_member(cls, '_register_outcome')
    ok = False
    for p in util.func_paths(ix, fo, de, H()):
        exe = [e for e in p.calls() if isinstance(e.data.get('callee'), FuncDef)
               and e.data['callee'].key.endswith(':ActionToCheck.execute')]
        regs = [e for e in p.calls() if e.data.get('callee') == reg]
        if len(exe) == 1 and len(regs) == 1 and p.kind == 'return':
            a = exe[0].data['args']
            out_param = de.positional_params()[1].arg
            res = regs[0].data['args'][0] if regs[0].data['args'] else None
            ro = util.root_sym(res).origin if isinstance(res, Sym) else None
            ok = len(a) == 4 and _param_chain(a[3]) == (out_param, ()) and bool(ro) and ro[0] == 'call' \
                 and ro[5] == p.trace.index(exe[0]) and util.root_sym(p.val) is util.root_sym(res)
    c.expect(ok, 'C10-d', '_do_execute_w_output_files/plumbing',
             'the actor is not executed with the given output files, or its result is not what is registered and '
             'returned', de.loc())
    # register: exit code -> outcome object and result/exit-code file
    store = ix.class_member(cls, '_store_exit_code')
    seen = set()
    for p in util.func_paths(ix, fo, reg, H()):
        g = [e.data for e in p.trace if e.kind == 'guard']
        is_exit = [t for t, truth in g if isinstance(t, ast.Attribute) and t.attr == 'is_exit_code']
        truth = [truth for t, truth in g if isinstance(t, ast.Attribute) and t.attr == 'is_exit_code']
        stores = [e for e in p.calls() if e.data.get('callee') == store]
        sets = [e for e in p.trace if e.kind == 'setattr' and e.data[1] == '_atc_outcome']
        if truth and truth[0]:
            seen.add('exit-code')
            ok = len(sets) == 1
            if ok:
                con = util.constructed(ix, sets[0].data[2])
                ok = con is not None and con[0].endswith(':ActionToCheckOutcome') and con[1] \
                     and util.attr_chain(con[1][0])[1][-1:] == ('exit_code',)
            c.expect(bool(ok), 'C10-d', '_register_outcome/outcome-object',
                     'the exit code of the action to check is not stored in the ActionToCheckOutcome', reg.loc())
            skip = [truth for t, truth in g if 'exe_atc_and_skip_assertions' in unparse(t)]
            if skip and skip[0]:
                ok = len(stores) == 1 and util.attr_chain(stores[0].data['args'][0])[1][-1:] == ('exit_code',)
                c.expect(bool(ok), 'C10-d', '_register_outcome/exit-code-file',
                         'the exit code is not stored in the result directory', reg.loc())
        elif truth:
            seen.add('hard-error')
            c.expect(not sets and not stores, 'C10-d', '_register_outcome/no-outcome-on-hard-error',
                     'an outcome is registered although the action to check gave no exit code', reg.loc())
    c.expect(seen == {'exit-code', 'hard-error'}, 'C10-d', '_register_outcome/cases', 'cases analysed: %s' % sorted(seen),
             reg.loc())
    w = [n for n in ast.walk(store.node) if isinstance(n, ast.withitem)]
    ok = len(w) == 1 and isinstance(w[0].context_expr, ast.Call) and w[0].context_expr.args \
         and unparse(w[0].context_expr.args[0]).endswith('.result.exitcode_file')
    wr = [n for n in ast.walk(store.node) if isinstance(n, ast.Call) and isinstance(n.func, ast.Attribute) and n.func.attr == 'write']
    ok = ok and len(wr) == 1 and unparse(wr[0].args[0]) == 'str(%s)' % store.positional_params()[1].arg
    c.expect(ok, 'C10-d', '_store_exit_code', 'the exit code is not written as its decimal text to result.exitcode_file',
             store.loc())
    # readers
    g = ix.func('exactly_lib.impls.instructions.assert_.process_output.impl.exit_code.getter_from_atc:_ExitCodeGetter._get_exit_code')
    opens = [n for n in ast.walk(g.node) if isinstance(n, ast.Call) and isinstance(n.func, ast.Attribute) and n.func.attr == 'open']
    ok = len(opens) == 1 and unparse(opens[0].func.value).endswith('.result.exitcode_file')
    rets = util.returned_values(g)
    ok = ok and len(rets) == 1 and isinstance(rets[0], ast.Call) and unparse(rets[0].func) == 'int'
    c.expect(ok, 'C10-d', 'exit-code-reader', 'the exit-code assertion does not read the integer in result.exitcode_file',
             g.loc())
    pof = ix.module('exactly_lib.util.process_execution.process_output_files')
    names = fo.fold_path(pof.name + ':PROC_OUTPUT_FILE_NAMES')
    sds_names = {k: fo.fold_path('exactly_lib.tcfs.sds:' + k) for k in ('RESULT_FILE__STDOUT', 'RESULT_FILE__STDERR',
                                                                       'RESULT_FILE__EXITCODE')}
    ok = isinstance(names, dict) and len(names) == 2
    if ok:
        by = {k.name: v for k, v in names.items() if isinstance(k, EnumMember)}
        ok = by.get('STDOUT') == sds_names['RESULT_FILE__STDOUT'] and by.get('STDERR') == sds_names['RESULT_FILE__STDERR'] \
             and len({by.get('STDOUT'), by.get('STDERR'), sds_names['RESULT_FILE__EXITCODE']}) == 3
    c.expect(bool(ok), 'C10-d', 'result-file-names', 'the names the stdout / stderr assertions read (%s) are not the names '
                                                     'of the files the outcome is written to (%s)' % (names, sds_names), pof.relpath)
    res = ix.cls('exactly_lib.tcfs.sds:Result')
    for prop, const in (('stdout_file', 'RESULT_FILE__STDOUT'), ('stderr_file', 'RESULT_FILE__STDERR'),
                        ('exitcode_file', 'RESULT_FILE__EXITCODE')):
        f = ix.class_member(res, prop)
        r = single_return_expr(f)
        attr = r.attr if isinstance(r, ast.Attribute) else None
        ok = False
        for meth, v, st_ in ix.self_attr_assignments(res, attr) if attr else []:
            ok = isinstance(v, ast.BinOp) and isinstance(v.op, ast.Div) and unparse(v.right) == const
        c.expect(ok, 'C10-d', 'sds.Result.' + prop, 'Result.%s is not <result dir>/%s' % (prop, const), res.loc())
    oe = ix.func('exactly_lib.impls.instructions.assert_.process_output.impl.out_err_file:Parser._default')
    src = unparse(oe.node)
    ok = False
    for n in ast.walk(oe.node):
        if isinstance(n, ast.Call) and unparse(n.func).endswith('of_rel_option') and len(n.args) == 2:
            rel = fo.fold(oe.module, oe, n.args[0])
            ok = isinstance(rel, EnumMember) and rel.name == 'REL_RESULT' \
                 and 'PROC_OUTPUT_FILE_NAMES[%s]' % oe.positional_params()[0].arg in unparse(n.args[1])
    c.expect(ok, 'C10-d', 'stdout-stderr-reader', 'the stdout / stderr assertions do not read the file of the checked '
                                                  'channel in the result directory', oe.loc())
    for mod, member in (('stdout', 'STDOUT'), ('stderr', 'STDERR')):
        m = ix.module('exactly_lib.impls.instructions.assert_.process_output.' + mod)
        ok = any(isinstance(n, ast.Call) and unparse(n.func).endswith('out_err_file.Parser') and n.args
                 and unparse(n.args[0]).endswith('ProcOutputFile.' + member) for n in ast.walk(m.tree))
        c.expect(ok, 'C10-d', 'instruction-%s/channel' % mod, 'the %s instruction does not check ProcOutputFile.%s' % (mod, member),
                 m.relpath)


# ---------------------------------------------------------------- e
def _expect_translator(c: Check, ix, behaviour, exit_inputs, con, ignore_exit_code: bool, key: str, where):
    """the constructed translator (class, constant constructor arguments) maps exit codes as documented"""
    k = ix.try_lookup(con[0])
    c.require(isinstance(k, ClassDef), 'C10-e: translator class %s not found' % con[0])
    init = ix.class_member(k, '__init__')
    args = {}
    if isinstance(init, FuncDef):
        names = [p.arg for p in init.positional_params()[1:]]
        for n, v in list(zip(names, con[1])) + list(con[2].items()):
            args[n] = v
        pos = init.positional_params()
        defaults = init.node.args.defaults
        for p_, d in zip(pos[len(pos) - len(defaults):], defaults):
            if p_.arg not in args:
                dv = c.fo.fold(init.module, None, d)
                if not is_unknown(dv):
                    args[p_.arg] = K(dv)
    for label, inp in exit_inputs:
        k1, k2 = behaviour(k, args, inp)
        if ignore_exit_code or label == 'exit-code-0':
            want = (['SUCCESS'], ['PASS'])
        else:
            want = (['HARD_ERROR'], ['FAIL'])
        c.expect((k1, k2) == want, 'C10-e', '%s/%s' % (key, label),
                 'a program run as instruction%s with %s gives %s outside [assert] and %s in [assert] (expected %s / %s)' % (
                     ' with -ignore-exit-code' if ignore_exit_code else '', label, '/'.join(k1), '/'.join(k2),
                     want[0][0], want[1][0]), where)


def clause_e(c: Check):
    ix, fo = c.ix, c.fo
    base = ix.cls(IPU + ':MainStepResultTranslator')
    subs = [k for k in ix.subclasses_of(base) if k is not base]
    c.floor('C10-e', 'main-step result translators', len(subs), 4)
    res_cls = ix.cls(SPE + ':ExecutionResultAndStderr')
    pfh_status = ix.cls(R + 'pfh:PassOrFailOrHardErrorEnum')

    class H(Hooks):
        def inline(self, fd, st):
            return fd.module.name in (R + 'sh', R + 'pfh', SPE, IPU) and not fd.name.startswith('__')

    def sh_kind(v):
        if isinstance(v, K) and isinstance(v.v, Record) and v.v.cls.name == 'SuccessOrHardError':
            return 'SUCCESS' if v.v.args.get('failure_message') is None else 'HARD_ERROR'
        return '?'

    def pfh_kind(v):
        if isinstance(v, K) and isinstance(v.v, Record) and v.v.cls.name == 'PassOrFailOrHardError':
            s = v.v.args.get('status')
            return s.name if isinstance(s, EnumMember) else '?'
        return '?'

    import itertools
    exit_inputs = [('exit-code-%d' % x, K(Record(res_cls, {'exit_code': x, 'stderr_contents': Sym('stderr'),
                                                           'output_dir_path': Sym('dir'), 'program': Sym('program')})))
                   for x in (0, 1, 255)]

    def behaviour(k, ctor_args, inp):
        """(kinds outside [assert], kinds in [assert]) of translator class k constructed with constant ctor_args"""
        na = ix.class_member(k, 'translate_for_non_assertion')
        a = ix.class_member(k, 'translate_for_assertion')
        it = Interp(ix, fo, H())
        st = State()
        if isinstance(ix.class_member(k, '__init__'), FuncDef):
            insts = it.instantiate(k, st, ctor_args)
            c.require(len(insts) == 1, 'C10-e: constructor of %s forks' % k.key)
            obj, st = insts[0]
        else:
            obj = it.new_obj(k)
        r1 = it.run_function(na, {na.positional_params()[1].arg: inp}, st.fork(), recv=obj)
        r2 = it.run_function(a, {a.positional_params()[1].arg: inp}, st.fork(), recv=obj)
        c.count(2)
        return (sorted({sh_kind(p.val) if p.kind == 'return' else 'raises' for p in r1}),
                sorted({pfh_kind(p.val) if p.kind == 'return' else 'raises' for p in r2}))

    for k in sorted(subs, key=lambda x: x.key):
        init = ix.class_member(k, '__init__')
        flag_params = [p.arg for p in init.positional_params()[1:]] if isinstance(init, FuncDef) else []
        na = ix.class_member(k, 'translate_for_non_assertion')
        if not isinstance(na, FuncDef) or util.is_abstract_body(na):
            continue
        ann = unparse(na.positional_params()[1].annotation) if na.positional_params()[1].annotation is not None else ''
        if ann.endswith('ExecutionResultAndStderr'):
            inputs = exit_inputs
        else:
            inputs = [('none', NONE), ('message', Sym('message', nullness=False, truth=True))]
        for flags in itertools.product((False, True), repeat=len(flag_params)):
            for label, inp in inputs:
                k1, k2 = behaviour(k, {n: K(f) for n, f in zip(flag_params, flags)}, inp)
                cfg = '%s(%s)' % (k.name, ', '.join('%s=%s' % (n, f) for n, f in zip(flag_params, flags)))
                agree = len(k1) == 1 and len(k2) == 1 and '?' not in k1 + k2 and ((k1[0] == 'SUCCESS') == (k2[0] == 'PASS'))
                c.expect(agree, 'C10-e', 'translator/%s/agreement' % k.name,
                         '%s for %s: %s outside [assert] but %s in [assert] (the two translations must agree on success)' % (
                             cfg, label, '/'.join(k1), '/'.join(k2)), k.loc())
    # the translator of a program run as instruction (the one parts_parser uses)
    pp_ = ix.func(SPE + ':parts_parser')
    used = None
    for p in util.func_paths(ix, fo, pp_, Hooks()):
        for e in p.calls():
            if isinstance(e.data.get('callee'), ClassDef) and e.data['callee'].name == 'PartsParserFromEmbryoParser' \
                    and len(e.data['args']) == 2:
                used = util.constructed(ix, e.data['args'][1])
    c.require(used is not None, 'C10-e: the result translator of parts_parser is not a constructed object')
    _expect_translator(c, ix, behaviour, exit_inputs, used, False, 'program-instruction', pp_.loc())
    # -ignore-exit-code: option present => a translator that is unconditionally successful for every exit code;
    # absent => the translator that fails on a non-zero exit code
    prt = ix.func('exactly_lib.impls.instructions.multi_phase.run:_InstructionPartsParser._parse_result_translator')
    hooks = ForkHooks(ix)
    hooks.fork_on(lambda d, n, cv: isinstance(n.func, ast.Attribute) and n.func.attr == 'parse'
                  and 'IGNORE_EXIT_CODE' in unparse(n.func.value),
                  [('given', lambda: K(True)), ('absent', lambda: K(False))])
    seen = {}
    for p in util.func_paths(ix, fo, prt, hooks):
        lab = labels_of(p)
        seen['-'.join(lab)] = util.constructed(ix, p.val) if p.kind == 'return' else None
    for lab, ignore in (('given', True), ('absent', False)):
        c.require(seen.get(lab) is not None, 'C10-e: result translator of run with the option %s is not a constructed object' % lab)
        _expect_translator(c, ix, behaviour, exit_inputs, seen[lab], ignore, 'run/-ignore-exit-code/' + lab, prt.loc())
    opt = fo.fold_path('exactly_lib.impls.instructions.multi_phase.run:IGNORE_EXIT_CODE_OPTION_NAME')
    c.note('run: option %s' % (opt,))
    # the translator given to the parts is the one that is parsed
    pa = ix.func('exactly_lib.impls.instructions.multi_phase.run:_InstructionPartsParser.parse')
    ok = False
    for p in util.func_paths(ix, fo, pa, Hooks()):
        for e in p.calls():
            if isinstance(e.node.func, ast.Attribute) and e.node.func.attr == 'instruction_parts_from_embryo' and len(e.data['args']) == 2:
                o = e.data['args'][1].origin if isinstance(e.data['args'][1], Sym) else None
                ok = bool(o) and o[0] == 'call' and o[1] == prt.key
    c.expect(ok, 'C10-e', 'run/translator-used', 'the parsed result translator is not the one the instruction uses', pa.loc())
    # the executor applies the translation of its phase kind
    ex = ix.cls(IPU + ':MainStepExecutorFromMainStepExecutorEmbryo')
    for meth, want in (('apply_as_non_assertion', 'translate_for_non_assertion'), ('apply_as_assertion', 'translate_for_assertion')):
        f = ix.class_member(ex, meth)
        used = {n.func.attr for n in ast.walk(f.node) if isinstance(n, ast.Call) and isinstance(n.func, ast.Attribute)
                and n.func.attr.startswith('translate_for_')}
        c.expect(used == {want}, 'C10-e', 'executor/' + meth, '%s translates the result with %s' % (meth, sorted(used)), f.loc())


# ---------------------------------------------------------------- f
def clause_f(c: Check):
    """CFGOBL: the std files of a child process never fall back on the defaults of StdFiles / StdOutputFiles (which
    are the channels of the Exactly process itself): every construction under impls / execution gives every channel;
    and the act executor with a transformation hands the given stdin and stderr on"""
    ix, fo = c.ix, c.fo
    n = 0
    for cname, params in (('StdFiles', ('stdin_file', 'output_files')), ('StdOutputFiles', ('stdout_file', 'stderr_file'))):
        cls = ix.cls(STD + ':' + cname)
        for s in util.call_sites_of(ix, cls):
            if not s.where.startswith(('exactly_lib.impls.', 'exactly_lib.execution.')):
                continue
            n += 1
            b = util.ctor_call_args(ix, cls, s.node) or {}
            missing = [p for p in params if p not in b]
            c.expect(not missing, 'C10-f', '%s@%s' % (cname, s.where),
                     '%s is constructed without %s: the child process gets the %s of the Exactly process itself' % (
                         cname, missing, ' / '.join(m.split('_')[0] for m in missing)), s.loc)
    c.floor('C10-f', 'constructions of StdFiles / StdOutputFiles for child processes', n, 10)
    f = ix.func(PEX + ':_ExecutorWithTransformation._execute_command_w_stdout_to_file')

    class H(Hooks):
        def inline(self, fd, st):
            return False

    ok = False
    for p in util.func_paths(ix, fo, f, H()):
        for e in p.calls():
            if isinstance(e.node.func, ast.Attribute) and e.node.func.attr == 'execute' and len(e.data['args']) == 3:
                files = e.data['args'][2]
                if isinstance(files, K) and isinstance(files.v, Record) and files.v.cls.name == 'StdFiles':
                    sin = files.v.args.get('stdin_file')
                    out = files.v.args.get('output_files')
                    serr = out.args.get('stderr_file') if isinstance(out, Record) else None
                    ok = util.attr_chain(sin)[1][-2:] == ('_atc_files', 'stdin') \
                         and util.attr_chain(serr)[1][-3:] == ('_atc_files', 'output', 'err')
    # the transformation of the action to check is applied on every path: what reaches the stdout of the action is
    # <the transformer>.transform(<source of the file the program wrote>) - an empty output is transformed too (a
    # transformer may well produce something from nothing)
    ex = ix.func(PEX + ':_ExecutorWithTransformation.execute')

    class HT(Hooks):
        def inline(self, fd, st):
            return False

    n_ret = 0
    for p in util.func_paths(ix, fo, ex, HT()):
        if p.kind != 'return':
            continue
        n_ret += 1
        tr = [e for e in p.calls() if isinstance(e.node.func, ast.Attribute) and e.node.func.attr == 'transform']
        wr = [e for e in p.calls() if isinstance(e.node.func, ast.Attribute) and e.node.func.attr == 'write_to']
        ok_t = False
        if len(tr) == 1 and len(wr) == 1:
            recv = tr[0].data.get('recv')
            if recv is None:
                cv = tr[0].data.get('callee_val')
                recv = cv.origin[1] if isinstance(cv, Sym) and cv.origin and cv.origin[0] == 'attr' else None
            ok_t = util.attr_chain(recv)[1][-1:] == ('_resolved_transformer_for_program',) \
                   and util.attr_chain(wr[0].data['args'][0])[1][-3:] == ('_atc_files', 'output', 'out')
        guards = [('' if t else 'not ') + unparse(g) for g, t in p.guards]
        c.expect(ok_t, 'C10-f', '_ExecutorWithTransformation/transformation-applied-on-every-path',
                 'the action to check with a transformation returns%s without (exactly once) transforming the output '
                 'of the program and writing the result to the stdout of the action' % (
                     (' when ' + ', '.join(guards)) if guards else ''), ex.loc())
    c.require(n_ret >= 1, 'C10-f: _ExecutorWithTransformation.execute has no returning path')
    c.expect(ok, 'C10-f', '_ExecutorWithTransformation/stdin-and-stderr-handed-on',
             'the act program with a transformation is not executed with the stdin and stderr given for the action to '
             'check', f.loc())


# ---------------------------------------------------------------- g
def clause_g(c: Check):
    """TS flush-before-hand-over: a text writer (`write` / `write_to` / `_write*` taking a `TextIO`) gets a file
    object that may already hold buffered text (the preceding parts of a concatenated stdin). A child process writes
    to the file *descriptor*, so before the file object is handed to anything but its own methods or another text
    writer (delegation: a callee named write / write_to / _write*), `flush()` must have been called on it - else the
    program's output lands before the text written earlier."""
    ix, fo = c.ix, c.fo
    writers = []
    for name in ix.all_module_names():
        if not name.startswith(('exactly_lib.impls.types.', 'exactly_lib.type_val_prims.string_source')):
            continue
        if 'TextIO' not in ix.text(name):
            continue
        m = ix.module(name)
        for f in m.all_funcs:
            if not (f.name in ('write', 'write_to') or f.name.startswith('_write')):
                continue
            outs = [p.arg for p in f.params if p.annotation is not None and unparse(p.annotation).split('.')[-1] == 'TextIO']
            if len(outs) == 1 and not util.is_abstract_body(f):
                writers.append((f, outs[0]))
    c.floor('C10-g', 'text writers (write / write_to taking a TextIO)', len(writers), 12)

    def is_writer_name(n: Optional[str]) -> bool:
        return n is not None and (n in ('write', 'write_to', 'writelines') or n.startswith('_write') or n.startswith('write_'))

    n_hand_over = 0
    for f, out_name in sorted(writers, key=lambda x: x[0].key):
        class H(Hooks):
            loop_bound = 1

            def inline(self, fd, st):
                return False

        def is_out(v) -> bool:
            r = util.root_sym(v) if isinstance(v, Sym) else None
            return isinstance(r, Sym) and isinstance(r.origin, tuple) and r.origin[:2] == ('param', out_name)

        for p in util.func_paths(ix, fo, f, H()):
            flushed = False
            for e in p.calls():
                args = list(e.data['args']) + list(e.data['kwargs'].values())
                cv = e.data.get('callee_val')
                recv = e.data.get('recv')
                if recv is None and isinstance(cv, Sym) and cv.origin and cv.origin[0] == 'attr':
                    recv = cv.origin[1]
                attr = e.node.func.attr if isinstance(e.node.func, ast.Attribute) else (
                    e.node.func.id if isinstance(e.node.func, ast.Name) else None)
                if recv is not None and is_out(recv):
                    if attr == 'flush':
                        flushed = True
                    continue
                if any(is_out(a) for a in args):
                    if is_writer_name(attr):
                        continue   # delegation to another text writer: its own obligation
                    cd = e.data.get('callee')
                    if isinstance(cd, External) and not cd.dotted.startswith(('subprocess.', 'os.')):
                        continue   # a library function that writes through the file object (print, copyfileobj ...)
                    n_hand_over += 1
                    c.expect(flushed, 'C10-g', 'flush-before-hand-over/%s' % f.key,
                             '%s hands its output file to %s without flushing it first: text written to the file '
                             'object earlier (preceding stdin parts) ends up after what the process writes' % (
                                 f.key.split(':')[-1], unparse(e.node.func)), '%s:%d' % (f.module.relpath, e.node.lineno))
                    break
    c.floor('C10-g', 'text writers that hand their output file on', n_hand_over, 3)


# ---------------------------------------------------------------- h
SEQ = 'exactly_lib.impls.types.string_transformer.impl.sequence'


def clause_h(c: Check):
    """EVAL: the accumulated transformations of a program reach its execution through the list resolvers
    (`sequence_resolving.resolve` for primitives, `sequence_resolving_ddv.resolve` for DDVs). Evaluated on explicit
    lists of 0-3 operands (primitives: every pattern of identity operands) the result must denote the composition
    of the given operands in the given order: the identity (no operand), one of the operands, or the sequence
    object built from a list of the operands; identity operands may be dropped or kept (they are no-ops), every
    other operand must occur exactly once and in the given order."""
    ix, fo = c.ix, c.fo
    import itertools
    ident_cls = ix.cls('exactly_lib.impls.types.string_transformer.impl.identity:IdentityStringTransformer')
    seq_classes = {ix.cls(SEQ + ':SequenceStringTransformer'), ix.cls(SEQ + ':StringTransformerSequenceDdv')}
    const_ddv = ix.cls('exactly_lib.type_val_deps.types.string_transformer.ddvs:StringTransformerConstantDdv')
    prim_cls = ix.cls('exactly_lib.type_val_prims.string_transformer:StringTransformer')
    ddv_cls = ix.cls('exactly_lib.type_val_deps.types.string_transformer.ddv:StringTransformerDdv')

    class H(Hooks):
        loop_bound = 4

        def inline(self, fd, st):
            return False

    def new_cls(v):
        if isinstance(v, Obj):
            return v.cls
        if isinstance(v, Sym) and v.origin and v.origin[0] == 'call' and isinstance(v.cls, ClassDef) \
                and v.tag.startswith('new:'):
            return v.cls
        if isinstance(v, K) and isinstance(v.v, Record):
            return v.v.cls
        return None

    def ctor_args(v):
        if isinstance(v, Sym):
            return list(v.origin[2]) + list(v.origin[3].values())
        if isinstance(v, K) and isinstance(v.v, Record):
            return [K(a) if not isinstance(a, (Sym, Obj, ListVal, K)) else a for a in v.v.args.values()]
        return []

    def denotes(v, ops) -> Optional[List[int]]:
        for i, o in enumerate(ops):
            if v is o:
                return [i]
        k = new_cls(v)
        if k is None:
            return None
        if ident_cls in ix.mro(k):
            return []
        if k is const_ddv:
            a = ctor_args(v)
            return denotes(a[0], ops) if len(a) == 1 else None
        if k in seq_classes:
            a = ctor_args(v)
            if len(a) != 1 or not isinstance(a[0], ListVal):
                return None
            out = []
            for x in a[0].items:
                d = denotes(x, ops)
                if d is None:
                    return None
                out += d
            return out
        return None

    n = 0
    for key, elem_cls, with_flags in (
            ('exactly_lib.impls.types.string_transformer.sequence_resolving:resolve', prim_cls, True),
            ('exactly_lib.impls.types.string_transformer.sequence_resolving_ddv:resolve', ddv_cls, False)):
        f = ix.func(key)
        pp = f.positional_params()
        c.require(len(pp) == 1, 'C10-h: %s does not take one list' % key)
        for width in (0, 1, 2, 3):
            for flags in (itertools.product((False, True), repeat=width) if with_flags else [(False,) * width]):
                it = Interp(ix, fo, H())
                st0 = State()
                ops = []
                for is_id in flags:
                    o = it.new_obj(elem_cls)
                    if with_flags:
                        st0.heap[(o.oid, 'is_identity_transformer')] = K(is_id)
                    ops.append(o)
                desc = '[%s]' % ', '.join('identity' if fl else 't%d' % i for i, fl in enumerate(flags))
                paths = it.run_function(f, {pp[0].arg: ListVal(list(ops))}, st0)
                n += 1
                c.count()
                want = [i for i, fl in enumerate(flags) if not fl]
                for p in paths:
                    if p.kind != 'return':
                        c.bad('C10-h', '%s/%s' % (key.split('.')[-1], desc),
                              '%s raises for the operand list %s' % (f.key, desc), f.loc())
                        continue
                    got = denotes(p.val, ops)
                    c.expect(got is not None and [i for i in got if not flags[i]] == want, 'C10-h', '%s/%s' % (key.split('.')[-1], desc),
                             'the transformations %s of a program are resolved to %s (expected the composition of %s '
                             'in that order): the output of the program is transformed by something else than what '
                             'was accumulated' % (desc, 'operands %s' % got if got is not None else 'a value that is '
                                                  'not built from the operands', want), f.loc())
    c.floor('C10-h', 'operand lists the transformer-list resolvers are evaluated on', n, 19)


# ---------------------------------------------------------------- i
def clause_i(c: Check):
    """the text of stdin is produced ONCE, by the actor that feeds it to the process: the code that runs the action to
    check (the ATC executor and the step executors around it) hands the resolved input on and does not itself read the
    text (`.contents()`, `write_to`, `as_str`, `as_file`, `as_lines` of the stdin source).  A text source that is the
    output of a program is produced anew at every reading until it is frozen: a second reader makes the program run
    twice and the process reads the output of the second run."""
    ix = c.ix
    n_mod = 0
    READS = ('contents', 'write_to', 'as_str', 'as_file', 'as_lines')
    for mn in ('exactly_lib.execution.partial_execution.impl.atc_execution',
               'exactly_lib.execution.partial_execution.impl.executor',
               'exactly_lib.execution.impl.phase_step_executors'):
        m = ix.module(mn)
        n_mod += 1
        for n in ast.walk(m.tree):
            if isinstance(n, ast.Attribute) and n.attr in READS:
                # <something>.stdin.<read>  or  <stdin-named value>.<read>
                v = n.value
                while isinstance(v, ast.Call):
                    v = v.func.value if isinstance(v.func, ast.Attribute) else v.func
                chain = []
                while isinstance(v, ast.Attribute):
                    chain.append(v.attr)
                    v = v.value
                if isinstance(v, ast.Name):
                    chain.append(v.id)
                if any('stdin' in x for x in chain):
                    f = m.enclosing_func(n)
                    c.bad('C10-i', 'stdin-read-outside-the-actor/%s' % (f.key if f else mn),
                          '`%s` reads the text of stdin while the action to check is being run: the actor reads it again, '
                          'and a text that is the output of a program is produced by running the program a second time' %
                          unparse(n)[:70], '%s:%d' % (m.relpath, n.lineno))
    c.ok('C10-i', 'stdin-is-read-by-the-actor-only', detail='%d modules of the executor' % n_mod)
    c.floor('C10-i', 'executor modules scanned for readings of stdin', n_mod, 3)
