"""Effect primitives and process-state rules shared by C03, C04, C11, C17."""
import ast
from typing import List, Optional, Tuple, Iterator, Set

from ..core import Index, Module, FuncDef, ClassDef, External, Def, dotted_name, unparse, parent, walk_own
from ..util import Site

# ---- process environment -------------------------------------------------

_ENV_READ_METHODS = {'get', 'copy', 'keys', 'items', 'values', '__contains__', '__getitem__', '__len__', '__iter__'}
_ENV_WRITE_METHODS = {'update', 'pop', 'clear', 'setdefault', 'popitem', '__setitem__', '__delitem__'}
_COPYING_CALLS = {'builtins.dict', 'builtins.list', 'builtins.sorted', 'builtins.set', 'builtins.frozenset',
                  'builtins.len', 'builtins.tuple'}


def environ_problems(ix: Index, m: Module) -> List[Tuple[ast.AST, str]]:
    """every use of os.environ / os.putenv / os.unsetenv in module m that writes the process environment or lets
    the live mapping escape (anything but reading it or copying it on the spot)"""
    out = []
    for n in ast.walk(m.tree):
        if isinstance(n, (ast.Name, ast.Attribute)):
            f = m.enclosing_func(n)
            d = ix.resolve_static(m, f, n)
            if not isinstance(d, External):
                continue
            if d.dotted in ('os.putenv', 'os.unsetenv', 'posix.putenv', 'posix.unsetenv'):
                if isinstance(parent(n), (ast.ImportFrom, ast.Import)):
                    continue
                out.append((n, 'reference to ' + d.dotted))
                continue
            if d.dotted not in ('os.environ', 'os.environb', 'posix.environ'):
                continue
            p = parent(n)
            if isinstance(p, ast.Attribute) and p.value is n:
                # os.environ.<method>
                if p.attr in _ENV_WRITE_METHODS:
                    out.append((p, 'os.environ.%s mutates the process environment' % p.attr))
                elif p.attr in _ENV_READ_METHODS:
                    pass
                else:
                    out.append((p, 'os.environ.%s: use not recognised as read-only' % p.attr))
                continue
            if isinstance(p, ast.Subscript) and p.value is n:
                if isinstance(p.ctx, (ast.Store, ast.Del)):
                    out.append((p, 'item of os.environ is assigned or deleted'))
                continue
            if isinstance(p, ast.Compare) and n in p.comparators:
                continue
            if isinstance(p, ast.Call) and n in p.args:
                cd = ix.callee(m, f, p)
                if isinstance(cd, External) and cd.dotted in _COPYING_CALLS:
                    continue
                out.append((p, 'the live os.environ mapping is passed to %s' % unparse(p.func)))
                continue
            if isinstance(p, (ast.For, ast.comprehension)) and p.iter is n:
                continue
            if isinstance(p, ast.Starred) or (isinstance(p, ast.Dict) and n in p.values):
                continue  # {**os.environ} copies
            out.append((n, 'the live os.environ mapping escapes (%s)' % type(p).__name__))
    return out


# ---- file system / process effect primitives -----------------------------

EFFECT_EXTERNALS = {
    'os.chdir', 'os.remove', 'os.unlink', 'os.rmdir', 'os.removedirs', 'os.rename', 'os.replace', 'os.renames',
    'os.mkdir', 'os.makedirs', 'os.symlink', 'os.link', 'os.chmod', 'os.chown', 'os.truncate', 'os.utime',
    'os.system', 'os.popen', 'os.putenv', 'os.unsetenv', 'os.kill', 'os.fork', 'os.mkfifo', 'os.write',
    'tempfile.mkdtemp', 'tempfile.mkstemp', 'tempfile.NamedTemporaryFile', 'tempfile.TemporaryDirectory',
    'tempfile.TemporaryFile',
}
EFFECT_EXTERNAL_PREFIXES = ('shutil.', 'subprocess.', 'os.exec', 'os.spawn', 'os.posix_spawn', 'pty.',
                            'multiprocessing.')
EFFECT_METHODS = {'mkdir', 'rmdir', 'unlink', 'rename', 'replace', 'touch', 'chmod', 'symlink_to', 'write_text',
                  'write_bytes', 'hardlink_to', 'link_to', 'lchmod'}
PROCESS_START_EXTERNALS = ('subprocess.', 'os.system', 'os.popen', 'os.exec', 'os.spawn', 'os.posix_spawn', 'os.fork',
                           'pty.', 'multiprocessing.')


def _open_mode(call: ast.Call, mode_pos: int) -> Optional[str]:
    mode = None
    if len(call.args) > mode_pos:
        mode = call.args[mode_pos]
    for kw in call.keywords:
        if kw.arg == 'mode':
            mode = kw.value
    if mode is None:
        return 'r'
    if isinstance(mode, ast.Constant) and isinstance(mode.value, str):
        return mode.value
    return '?'


def is_process_start(dotted: str) -> bool:
    return any(dotted == p or dotted.startswith(p) for p in PROCESS_START_EXTERNALS)


def direct_effects(ix: Index, fd: FuncDef) -> List[Tuple[ast.AST, str]]:
    """effect primitives called directly in the function's own body (nested defs/lambdas included)"""
    out = []
    m = fd.module
    for n in ast.walk(fd.node):
        if not isinstance(n, ast.Call):
            continue
        f = m.enclosing_func(n) or fd
        d = ix.callee(m, f, n)
        if isinstance(d, External):
            name = d.dotted
            if name in EFFECT_EXTERNALS or any(name.startswith(p) for p in EFFECT_EXTERNAL_PREFIXES):
                out.append((n, name))
                continue
            if name == 'builtins.open':
                mode = _open_mode(n, 1)
                if any(ch in mode for ch in 'wax+?'):
                    out.append((n, 'open(mode=%s)' % mode))
                continue
        if isinstance(n.func, ast.Attribute):
            a = n.func.attr
            if a in EFFECT_METHODS and not isinstance(d, (FuncDef, ClassDef)):
                out.append((n, '.%s()' % a))
            elif a == 'open' and not isinstance(d, (FuncDef, ClassDef)):
                mode = _open_mode(n, 0)
                if any(ch in mode for ch in 'wax+?'):
                    out.append((n, '.open(mode=%s)' % mode))
    return out
