"""C05 Text matchers and text transformers: routing and wiring clauses (DESIGN.md section 5, C05).

What a regular expression matches, what `str.strip` removes or how many characters `str.upper` changes is the
semantics of `re` and `str` - not decided here.  Decided is that each documented construct is *wired* to the primitive
that gives it its meaning, applied to the whole text / every line, with the operands in their roles: every clause is a
necessary condition of the property (breaking it breaks the documented behaviour for some text)."""
import ast
import itertools
from typing import List, Optional

from ..core import Index, FuncDef, ClassDef, External, AnalysisError, unparse, walk_own, dotted_name, parent
from ..fold import Folder, Record, EnumMember, Ref, is_unknown, single_return_expr
from ..absint import Interp, Hooks, State, K, Sym, Obj, Exc, NONE, ListVal, FuncVal, BoundMethod, StrCat
from ..report import Check
from .. import util

SM = 'exactly_lib.impls.types.string_matcher.impl.'
ST = 'exactly_lib.impls.types.string_transformer.impl.'
MI = 'exactly_lib.impls.types.matcher.impls.'
LM = 'exactly_lib.impls.types.line_matcher.'


def check(c: Check):
    c.explanation = (
        'Routing and wiring of the text matchers and transformers, decided by abstract evaluation on symbolic texts '
        '(a text is a list of 0-3 lines, each line a symbol standing for any string followed by a new-line): is-empty '
        'is true exactly for the text without lines; the four comparison strategies of equals return the match result '
        'exactly when an equality test of (something read from the expected text) and (something read from the '
        'actual text) holds, a prefix being read only with a minimum length that exceeds the other side; matches '
        'routes -full to fullmatch and its absence to search and is given the whole text; num-lines counts one per '
        'line; the line quantifiers get every line, numbered from 1, without its new-line; -transformed-by applies the '
        'matcher to the transformed text and gives its verdict; char-case / strip options are bound to the str '
        'primitives of their names, applied to every line; replace substitutes with (pattern, replacement, text) in '
        'their roles, keeps the new-line out of the substitution exactly with -preserve-new-lines and leaves lines '
        'not selected by -at unchanged; filter keeps exactly the matching lines, unchanged; identity returns its '
        'input; constructor arguments are never cross-wired between the SDV / DDV / ADV / primitive layers; the prefix '
        'reader of equals returns whole lines and stops only when what it returns has reached the minimum; the three '
        'strip variants give the documented text for every symbolic text (forks on whether a line is empty / blank). '
        'Not decided: the meaning of regular expressions and of the str primitives themselves.')
    clause_a(c)
    clause_b(c)
    clause_c(c)
    clause_d(c)
    clause_e(c)
    clause_f(c)
    clause_g(c)
    clause_h(c)
    clause_i(c)
    clause_j(c)
    clause_k(c)
    clause_l(c)
    clause_m(c)
    clause_n(c)


# ------------------------------------------------------------------ shared: symbolic texts
def _widths(c: Check):
    """numbers of lines of the symbolic texts: 0-3 (quick), 0-5 (thorough)"""
    return (0, 1, 2, 3, 4, 5) if c.tier == 'thorough' else (0, 1, 2, 3)


def text_lines(n: int, last_has_newline: bool = True) -> List[StrCat]:
    """the lines of a text as iteration gives them: non-empty, the new-line (if any) last"""
    out = []
    for i in range(n):
        body = Sym('line%d' % i)
        out.append(StrCat([body, K('\n')]) if (i < n - 1 or last_has_newline) else StrCat([body, K('x')]))
    return out


class TextHooks(Hooks):
    """`with <model>.contents().as_lines as lines` binds the given list of symbolic lines"""
    loop_bound = 4

    def __init__(self, lines: Optional[List[StrCat]], inline=()):
        self.lines = lines
        self.inline_set = set(inline)

    def inline(self, fd, st):
        return fd in self.inline_set

    def with_value(self, interp, ctx, node, st):
        if self.lines is not None and isinstance(node, ast.Attribute) and node.attr == 'as_lines':
            return ListVal(list(self.lines))
        return None


def result_value(p, v):
    """the `value` a returned MatchingResult is built with: the argument of build_result(..) / MatchingResult(..)"""
    if isinstance(v, K) and isinstance(v.v, Record) and v.v.cls.name == 'MatchingResult':
        from ..absint import wrap as _w; return _w(v.v.args.get("value"))
    r = v
    if isinstance(r, Sym) and r.origin and r.origin[0] == 'call':
        key = r.origin[1]
        if key.endswith('build_result') or key.endswith(':MatchingResult') or key.endswith('.build_result'):
            a = list(r.origin[2])
            return a[0] if a else r.origin[3].get('value')
        node = r.origin[4]
        if isinstance(node, ast.Call) and isinstance(node.func, ast.Attribute) and node.func.attr == 'build_result':
            a = list(r.origin[2])
            return a[0] if a else None
    return None


def call_of(p, v):
    """(method / function name, receiver value, argument values, event) of the call whose result v is"""
    o = v.origin if isinstance(v, Sym) else None
    if not o or o[0] != 'call' or o[5] is None or o[5] >= len(p.trace):
        return None, None, [], None
    e = p.trace[o[5]]
    recv = e.data.get('recv')
    if recv is None and e.data.get('callee_val') is not None:
        cv = e.data.get('callee_val')
        recv = cv.origin[1] if isinstance(cv, Sym) and cv.origin and cv.origin[0] == 'attr' else None
    name = e.node.func.attr if isinstance(e.node.func, ast.Attribute) else unparse(e.node.func)
    return name, recv, list(e.data['args']), e


def attr_path(v):
    """(root value, attribute / call names) of a value reached by attribute reads and method calls from a root"""
    names = []
    cur = v
    while isinstance(cur, Sym) and cur.origin:
        o = cur.origin
        if o[0] == 'attr':
            names.append(o[2])
            cur = o[1]
        elif o[0] == 'with':
            cur = o[1]
        else:
            break
    return cur, tuple(reversed(names))


# ------------------------------------------------------------------ a: is-empty
def clause_a(c: Check):
    """EVAL is-empty: on the text without lines the result is built with True, on every text with a line with
    False; the line looked at is the first one"""
    ix, fo = c.ix, c.fo
    cls = ix.cls(SM + 'emptiness:EmptinessStringMatcher')
    f = ix.class_member(cls, 'matches_w_trace')
    helpers = [m for m in cls.methods.values() if m is not f and m.name not in ('__init__',)]
    n = 0
    for width in (0, 1, 2):
        lines = text_lines(width)
        it = Interp(ix, fo, TextHooks(lines, inline=helpers))
        for p in it.run_function(f, {}):
            n += 1
            c.count()
            got = result_value(p, p.val) if p.kind == 'return' else None
            want = width == 0
            c.expect(isinstance(got, K) and got.v is want, 'C05-a', 'is-empty/%d-lines' % width,
                     'is-empty on a text of %d lines gives %s (expected %s)' % (
                         width, util.describe(got) if got is not None else p.kind, want), f.loc())
    c.floor('C05-a', 'texts is-empty is evaluated on', n, 3)


# ------------------------------------------------------------------ c: matches
def clause_c(c: Check):
    """DT matches [-full]: `-full` is `fullmatch`, its absence `search`, of the stored pattern on the model; the
    verdict is "a match was found"; the model of the text matcher is the whole text (`as_str`), that of `contents`
    on a line the line without its new-line"""
    ix, fo = c.ix, c.fo
    cls = ix.cls(MI + 'matches_regex:MatchesRegex')
    f = ix.class_member(cls, 'matches_w_trace')
    init = ix.class_member(cls, '__init__')
    helpers = [m for m in cls.methods.values() if m.name not in ('__init__', 'matches_w_trace')]
    pp = [p.arg for p in init.positional_params()[1:]]
    c.require('is_full_match' in pp and 'pattern' in pp, 'C05-c: constructor parameters of MatchesRegex not recognised')

    class H(Hooks):
        def inline(self, fd, st):
            return fd in helpers

    for full in (True, False):
        it = Interp(ix, fo, H())
        pattern = Sym('pattern')
        insts = it.instantiate(cls, State(), {'is_full_match': K(full), 'pattern': pattern})
        c.require(len(insts) == 1, 'C05-c: constructor of MatchesRegex has %d paths' % len(insts))
        obj, st = insts[0]
        model = Sym('model')
        key = 'matches%s' % ('-full' if full else '')
        n_ret = 0
        for p in it.run_function(f, {f.positional_params()[1].arg: model}, st.fork(), recv=obj):
            c.count()
            if p.kind != 'return':
                continue
            n_ret += 1
            on_pattern = []
            for e in p.calls():
                recv = e.data.get('recv')
                if recv is None:
                    cv = e.data.get('callee_val')
                    recv = cv.origin[1] if isinstance(cv, Sym) and cv.origin and cv.origin[0] == 'attr' else None
                if recv is pattern:
                    on_pattern.append(e)
            ok = len(on_pattern) == 1
            if ok:
                e = on_pattern[0]
                ok = isinstance(e.node.func, ast.Attribute) and e.node.func.attr == ('fullmatch' if full else 'search') \
                     and len(e.data['args']) == 1 and e.data['args'][0] is model and not e.data['kwargs']
            c.expect(ok, 'C05-c', key + '/routing',
                     '%s applies %s (expected <the pattern>.%s(<the model>), once)' % (
                         key, [unparse(e.node) for e in on_pattern], 'fullmatch' if full else 'search'), f.loc())
        c.require(n_ret >= 1, 'C05-c: MatchesRegex.matches_w_trace has no returning path')
    # verdict polarity: on the path where the search result is None the verdict is False
    for full in (True, False):
        for is_none in (True, False):
            class H2(Hooks):
                def inline(self, fd, st):
                    return fd in helpers

                def opaque_result(self, interp, cdef, node, args, kwargs, st):
                    if isinstance(node.func, ast.Attribute) and node.func.attr in ('fullmatch', 'search'):
                        return NONE if is_none else Sym('match-object', nullness=False, truth=True)
                    return None

            it = Interp(ix, fo, H2())
            obj, st = it.instantiate(cls, State(), {'is_full_match': K(full), 'pattern': Sym('pattern')})[0]
            vals = set()
            for p in it.run_function(f, {f.positional_params()[1].arg: Sym('model')}, st, recv=obj):
                got = result_value(p, p.val) if p.kind == 'return' else None
                vals.add(got.v if isinstance(got, K) else '?')
            c.expect(vals == {not is_none}, 'C05-c', 'matches%s/verdict/%s' % ('-full' if full else '', 'no-match' if is_none else 'match'),
                     'when the search gives %s the verdict is %s' % ('None' if is_none else 'a match', sorted(map(str, vals))), f.loc())
    # the models
    g = ix.func(SM + 'matches:_PropertyGetter.get_from')
    r = None
    for p in util.func_paths(ix, fo, g, Hooks()):
        if p.kind == 'return':
            root, names = attr_path(p.val)
            r = names
            mp = g.positional_params()[1].arg
            ok = names[-1:] == ('as_str',) and isinstance(root, Sym) and root.origin and root.origin[0] == 'call'
            if ok:
                nm, recv, args, _ = call_of(p, root)
                ok = nm == 'contents' and not args and isinstance(recv, Sym) and recv.origin[:2] == ('param', mp)
            c.expect(ok, 'C05-c', 'matches/model-is-the-whole-text',
                     'the regular expression is matched against %s (expected <model>.contents().as_str)' % util.describe(p.val), g.loc())
    c.require(r is not None, 'C05-c: the text model getter of matches has no returning path')
    sd = ix.func(SM + 'matches:sdv')
    ok = False
    for n_ in ast.walk(sd.node):
        if isinstance(n_, ast.Call) and ix.callee(sd.module, sd.module.enclosing_func(n_) or sd, n_) == ix.cls(MI + 'matches_regex:MatchesRegexDdv'):
            b = util.ctor_call_args(ix, ix.cls(MI + 'matches_regex:MatchesRegexDdv'), n_) or {}
            a = b.get('is_full_match')
            ok = isinstance(a, ast.Name) and a.id == 'is_full_match'
    c.expect(ok, 'C05-c', 'matches/full-flag-plumbing', 'the -full flag given to the matcher is not the parsed one', sd.loc())


# ------------------------------------------------------------------ d: num-lines
def clause_d(c: Check):
    """EVAL num-lines: the number handed to the integer matcher is the number of lines"""
    ix, fo = c.ix, c.fo
    g = ix.func(SM + 'num_lines:_PropertyGetter.get_from')
    n = 0
    for width in _widths(c):
        for last_nl in ((True, False) if width else (True,)):
            it = Interp(ix, fo, TextHooks(text_lines(width, last_nl)))
            for p in it.run_function(g, {}):
                n += 1
                c.count()
                got = p.val.v if p.kind == 'return' and isinstance(p.val, K) else None
                c.expect(got == width and isinstance(got, int) and not isinstance(got, bool), 'C05-d',
                         'num-lines/%d-lines%s' % (width, '' if last_nl else '-no-final-newline'),
                         'num-lines of a text of %d lines is %s' % (width, util.describe(p.val) if p.kind == 'return' else p.kind),
                         g.loc())
    c.floor('C05-d', 'texts num-lines is evaluated on', n, 7)


# ------------------------------------------------------------------ f: -transformed-by
def clause_f(c: Check):
    """EVAL -transformed-by: the matcher is applied to <transformer>.transform(<model>) and its verdict is the
    verdict of the whole; the layers hand transformer and matcher on in their roles"""
    ix, fo = c.ix, c.fo
    cls = ix.cls(SM + 'on_transformed:StringMatcherWithTransformation')
    f = ix.class_member(cls, 'matches_w_trace')
    it = Interp(ix, fo, Hooks())
    tr, mt = Sym('transformer'), Sym('matcher')
    insts = it.instantiate(cls, State(), {'transformer': tr, 'on_transformed': mt})
    c.require(len(insts) == 1, 'C05-f: constructor paths %d' % len(insts))
    obj, st = insts[0]
    model = Sym('model')
    n = 0
    for p in it.run_function(f, {f.positional_params()[1].arg: model}, st, recv=obj):
        if p.kind != 'return':
            continue
        n += 1
        got = result_value(p, p.val)
        root, names = attr_path(got) if got is not None else (None, ())
        nm, recv, args, _ = call_of(p, root) if root is not None else (None, None, [], None)
        ok = names == ('value',) and nm in ('matches_w_trace',) and recv is mt and len(args) == 1
        if ok:
            nm2, recv2, args2, _ = call_of(p, args[0])
            ok = nm2 == 'transform' and recv2 is tr and len(args2) == 1 and args2[0] is model
        c.expect(ok, 'C05-f', 'transformed-by/verdict-of-matcher-on-transformed-text',
                 'the verdict is %s (expected <matcher>.matches_w_trace(<transformer>.transform(<model>)).value)' % (
                     util.describe(got) if got is not None else util.describe(p.val)), f.loc())
    c.floor('C05-f', 'returning paths of the -transformed-by matcher', n, 1)


# ------------------------------------------------------------------ b: equals
READER_CALLS = {
    # name of a call a compared text may have been obtained through -> why it is a reader of the text
    'contents': 'the contents object of a text',
    'open': 'opens the file of a text',
    'read': 'reads characters from an open text file',
    '__enter__': 'context manager of an open file',
    'read_lines_as_str__w_minimum_num_chars': 'reads whole lines until a minimum number of characters (C05-b/prefix-reader)',
    '_freeze_and_read_expected_header': 'reads a prefix of the expected text (judged as a strategy helper)',
    '_read_expected_header': 'reads a prefix of the expected text (judged as a strategy helper)',
}
READER_ATTRS = {'as_str', 'as_file', 'as_lines', '_expected', '_source'}


class _Derivation:
    """how a compared value was obtained: the roots it is read from, the calls on the way, the minimum lengths"""

    def __init__(self):
        self.roots = set()
        self.calls = []
        self.min_lengths = []   # values given as `int` arguments of readers
        self.other = []         # derivation steps that are not reading


def derivation(ix: Index, p, v, d: Optional[_Derivation] = None, depth: int = 0) -> _Derivation:
    d = d or _Derivation()
    if depth > 12:
        d.other.append('too deep')
        return d
    if isinstance(v, Obj):
        d.roots.add('self')
        return d
    if isinstance(v, K):
        d.other.append('constant %r' % (v.v,))
        return d
    if isinstance(v, StrCat):
        d.other.append('assembled text')
        return d
    if not isinstance(v, Sym) or not v.origin:
        d.other.append('unknown value %s' % util.describe(v))
        return d
    o = v.origin
    if o[0] == 'param':
        d.roots.add('param:' + o[1])
    elif o[0] == 'attr':
        base = o[1]
        if isinstance(base, Obj):
            d.roots.add('self.' + o[2])
        else:
            d.calls.append('.' + o[2])
            derivation(ix, p, base, d, depth + 1)
    elif o[0] == 'with':
        derivation(ix, p, o[1], d, depth + 1)
    elif o[0] == 'index':
        if o[2] in (0, K(0)) or (isinstance(o[2], K) and o[2].v == 0) or o[2] == 0:
            derivation(ix, p, o[1], d, depth + 1)
        else:
            d.other.append('element %s of a result' % (o[2],))
    elif o[0] == 'call':
        name, recv, args, ev = call_of(p, v)
        d.calls.append(name)
        if name not in READER_CALLS:
            d.other.append('call of %s' % name)
        callee = ev.data.get('callee') if ev is not None else None
        int_params = set()
        names = []
        if isinstance(callee, FuncDef):
            pp = callee.positional_params()
            if callee.cls is not None and not callee.is_static:
                pp = pp[1:]
            names = [q.arg for q in pp]
            int_params = {q.arg for q in pp if q.annotation is not None and unparse(q.annotation) == 'int'}
        if recv is not None:
            derivation(ix, p, recv, d, depth + 1)
        for i, a in enumerate(args):
            pname = names[i] if i < len(names) else None
            is_len = pname in int_params or (isinstance(a, K) and isinstance(a.v, int)) or (
                isinstance(a, Sym) and a.origin and a.origin[0] == 'call' and call_of(p, a)[0] in ('_min_num_chars_to_read', 'len'))
            if is_len:
                d.min_lengths.append(a)
            else:
                derivation(ix, p, a, d, depth + 1)
    else:
        d.other.append('%s' % (o[0],))
    return d


def clause_b(c: Check):
    """equals: each comparison strategy returns the stored match result exactly when an equality test between a text
    read from the expected side and a text read from the actual side holds; a side that is read as a prefix is read
    with a minimum length computed from the whole other side, and that minimum exceeds the other side's length (else
    "expected is a prefix of actual" passes); the chunked file comparison reads both files with the same chunk size"""
    ix, fo = c.ix, c.fo
    ap = ix.cls(SM + 'equality:_ApplierWExtDepsCases')
    both = ix.cls(SM + 'equality:_ExtDepsOfBothHandler')
    match = ix.class_member(ap, 'match')
    # strategies: the methods whose result `match` returns
    strategies = []

    class HD(Hooks):
        def inline(self, fd, st):
            return False

    for p in util.func_paths(ix, fo, match, HD()):
        if p.kind != 'return':
            continue
        name, recv, args, ev = call_of(p, p.val)
        callee = ev.data.get('callee') if ev is not None else None
        if callee is None and name == 'match':
            callee = ix.class_member(both, 'match')
        c.expect(isinstance(callee, FuncDef) and len(args) == 1 and isinstance(args[0], Sym)
                 and args[0].origin[:2] == ('param', match.positional_params()[1].arg), 'C05-b',
                 'equals/dispatch/%s' % (name,),
                 'the comparison is delegated to %s with %s (expected a strategy applied to the actual text)' % (
                     name, [util.describe(a) for a in args]), match.loc())
        if isinstance(callee, FuncDef) and callee not in strategies:
            strategies.append(callee)
    c.floor('C05-b', 'comparison strategies of equals', len(strategies), 4)

    mn = ix.func(SM + 'equality:_min_num_chars_to_read')
    # the minimum length exceeds the operand: len(operand) + k with k >= 1
    r = single_return_expr(mn)
    ok = False
    if r is not None:
        terms = []

        def flat(n_):
            if isinstance(n_, ast.BinOp) and isinstance(n_.op, ast.Add):
                flat(n_.left)
                flat(n_.right)
            else:
                terms.append(n_)

        flat(r)
        par = mn.positional_params()[0].arg
        lens = [t for t in terms if isinstance(t, ast.Call) and unparse(t.func) == 'len' and len(t.args) == 1
                and isinstance(t.args[0], ast.Name) and t.args[0].id == par]
        rest = [fo.fold(mn.module, mn, t) for t in terms if t not in lens]
        ok = len(lens) == 1 and all(isinstance(x, int) and not isinstance(x, bool) for x in rest) and sum(rest) >= 1
    c.expect(ok, 'C05-b', 'equals/minimum-length-exceeds-operand',
             '_min_num_chars_to_read(x) is %s (expected len(x) + k with a constant k >= 1: reading only len(x) '
             'characters of the other side cannot tell "equal" from "x is a prefix")' % (unparse(r) if r is not None else '?'),
             mn.loc())

    n_paths = 0
    for s in strategies:
        cls = s.cls
        helpers = [m for m in cls.methods.values() if m is not s and m.name.startswith('_') and m.name != '__init__'
                   and not m.name.startswith('_details') and not m.name.endswith('_detail')]

        class H(Hooks):
            loop_bound = 2
            record_comparisons = True

            def inline(self, fd, st):
                return fd in helpers or fd is mn

        it = Interp(ix, fo, H())
        actual = Sym('param:' + s.positional_params()[1].arg, origin=('param', s.positional_params()[1].arg, s.key))
        for p in it.run_function(s, {s.positional_params()[1].arg: actual}):
            if p.kind != 'return' or p.truncated:
                continue
            n_paths += 1
            c.count()
            key = 'equals/%s.%s' % (cls.name, s.name)
            root, names = attr_path(p.val)
            is_match = isinstance(root, Obj) and names[-1:] == ('_result_for_match',)
            nm, _, _, _ = call_of(p, p.val)
            is_no_match = nm == '_build_result_for_no_match' or (isinstance(p.val, K) and p.val.v is False)
            if isinstance(p.val, K) and p.val.v is True:
                is_match = True
            c.require(is_match or is_no_match, 'C05-b: result %s of %s not understood' % (util.describe(p.val), s.key))
            # text comparisons on the path, in order: (equal?, derivation left, derivation right)
            cmps = []
            evs = p.trace
            for i, e in enumerate(evs):
                if e.kind != 'cmp' or not isinstance(e.data[0], (ast.Eq, ast.NotEq)):
                    continue
                op, l, r_ = e.data
                truth = next((g.data[1] for g in evs[i + 1:] if g.kind == 'guard' and g.data[0] is e.node), None)
                if truth is None:
                    continue  # decided without a fork: a comparison of constants
                dl, dr = derivation(ix, p, l), derivation(ix, p, r_)
                cmps.append((truth == isinstance(op, ast.Eq), dl, dr, l, r_, e))
            exp_act = []
            for equal, dl, dr, l, r_, e in cmps:
                sides = []
                for d in (dl, dr):
                    from_expected = any(x in ('self._expected', 'self') for x in d.roots)
                    from_actual = any(x.startswith('param:') for x in d.roots)
                    sides.append('expected' if from_expected and not from_actual else
                                 'actual' if from_actual and not from_expected else 'mixed')
                if sorted(sides) == ['actual', 'expected']:
                    exp_act.append((equal, dl, dr, l, r_, e))
                    for d, v_ in ((dl, l), (dr, r_)):
                        c.expect(not d.other, 'C05-b', key + '/compares-the-texts-as-read',
                                 'a compared value is not a text as read but %s (%s)' % (
                                     '; '.join(d.other), unparse(e.node)), '%s:%d' % (s.module.relpath, e.node.lineno))
                    # prefix readers: the minimum length is computed from the other side, as compared
                    for d, other in ((dl, r_), (dr, l)):
                        for ml in d.min_lengths:
                            if isinstance(ml, K):
                                continue
                            nm2, _, a2, _ = call_of(p, ml)
                            src = a2[0] if nm2 == '_min_num_chars_to_read' and len(a2) == 1 else None
                            if src is None and isinstance(ml, Sym) and ml.origin and ml.origin[0] == 'op':
                                # inlined: len(x) + constants
                                lens_ = [x for x in _flatten_op(ml) if isinstance(x, Sym) and x.origin and x.origin[0] == 'call'
                                         and call_of(p, x)[0] == 'len']
                                src = call_of(p, lens_[0])[2][0] if len(lens_) == 1 else None
                            c.expect(src is other, 'C05-b', key + '/prefix-length-from-the-other-side',
                                     'a prefix is read with the minimum length %s, which is not computed from the whole '
                                     'text it is compared with' % util.describe(ml), s.loc())
            c.expect(bool(exp_act), 'C05-b', key + '/decided-by-a-comparison-of-the-texts',
                     'a path of %s gives %s without comparing a text read from the expected side with one read from the '
                     'actual side' % (s.name, 'the match result' if is_match else 'no match'), s.loc())
            if exp_act:
                if is_match:
                    c.expect(all(x[0] for x in exp_act), 'C05-b', key + '/match-only-when-equal',
                             '%s gives the match result on a path where a comparison of the texts found a difference' % s.name,
                             s.loc())
                else:
                    c.expect(not exp_act[-1][0], 'C05-b', key + '/no-match-only-when-different',
                             '%s gives no match on a path where the last comparison of the texts found them equal' % s.name,
                             s.loc())
            # chunked reads: same size on both sides
            sizes = {}
            for equal, dl, dr, l, r_, e in exp_act:
                for d in (dl, dr):
                    ks = tuple(m.v for m in d.min_lengths if isinstance(m, K))
                    if ks:
                        sizes[id(d)] = ks
            if len(sizes) >= 2:
                c.expect(len(set(sizes.values())) == 1, 'C05-b', key + '/same-chunk-size',
                         'the two files are read in chunks of different sizes %s: equal texts compare unequal' % sorted(set(sizes.values())),
                         s.loc())
    c.floor('C05-b', 'complete paths of the comparison strategies', n_paths, 8)


def _flatten_op(v):
    """operands of an arithmetic value built by binary operators / augmented assignments"""
    out = []
    if isinstance(v, Sym) and v.origin and v.origin[0] == 'op':
        for x in v.origin[2]:
            out.extend(_flatten_op(x))
    elif isinstance(v, Sym) and v.origin and v.origin[0] == 'aug':
        for x in v.origin[1:3]:
            out.extend(_flatten_op(x))
    else:
        out.append(v)
    return out


# ------------------------------------------------------------------ e: every / any line
QM = 'exactly_lib.impls.types.matcher.impls.quantifier_matchers'
MC = 'exactly_lib.impls.types.line_matcher.model_construction'


def _is_line_model(p, v, line, number: int) -> bool:
    """v is (number, <line>.rstrip('\\n'))"""
    if not (isinstance(v, ListVal) and len(v.items) == 2):
        return False
    n, txt = v.items
    if not (isinstance(n, K) and n.v == number and not isinstance(n.v, bool)):
        return False
    name, recv, args, _ = call_of(p, txt)
    return name == 'rstrip' and recv is line and len(args) == 1 and isinstance(args[0], K) and args[0].v == '\n'


def clause_e(c: Check):
    """every / any line: FOLD shape of the quantifiers (code shared with the file quantifiers, C15-c); the elements
    are the lines of the text - every line, in order, numbered from 1, each without its new-line (EVAL of the model
    constructors on explicit lists of lines)"""
    ix, fo = c.ix, c.fo
    from .common import check_bool_fold

    def elem(d, n, cv):
        return isinstance(n.func, ast.Attribute) and n.func.attr == 'matches_w_trace'

    inl = [ix.func(QM + ':_QuantifierBase._report_final_element'), ix.func(QM + ':Exists._no_match'),
           ix.func(QM + ':ForAll._all_match')]
    check_bool_fold(c, 'C05-e', ix.func(QM + ':Exists._matches'), elem, 'ANY', inline=inl)
    check_bool_fold(c, 'C05-e', ix.func(QM + ':ForAll._matches'), elem, 'ALL', inline=inl)
    first = fo.fold_path('exactly_lib.type_val_prims.matcher.line_matcher:FIRST_LINE_NUMBER')
    c.expect(first == 1, 'C05-e', 'first-line-number', 'lines are numbered from %r (documented: 1)' % (first,),
             'src/exactly_lib/type_val_prims/matcher/line_matcher.py')
    mi = ix.func(MC + ':model_iter_from_file_line_iter')
    om = ix.func(MC + ':original_and_model_iter_from_file_line_iter')
    lo = ix.func(MC + ':_line_of')

    class H(Hooks):
        loop_bound = 4

        def inline(self, fd, st):
            return fd is lo

    n = 0
    for width in _widths(c):
        lines = text_lines(width)
        for f, with_original in ((mi, False), (om, True)):
            it = Interp(ix, fo, H())
            for p in it.run_function(f, {f.positional_params()[0].arg: ListVal(list(lines))}):
                n += 1
                c.count()
                items = p.val.items if p.kind == 'return' and isinstance(p.val, ListVal) else None
                ok = items is not None and len(items) == width
                if ok:
                    for i, (x, line) in enumerate(zip(items, lines)):
                        if with_original:
                            ok = ok and isinstance(x, ListVal) and len(x.items) == 2 and x.items[0] is line \
                                 and _is_line_model(p, x.items[1], line, 1 + i)
                        else:
                            ok = ok and _is_line_model(p, x, line, 1 + i)
                c.expect(ok, 'C05-e', '%s/%d-lines' % (f.name, width),
                         '%s of %d lines gives %s (expected one element per line, in order: %s(number from 1, the line '
                         'without its new-line))' % (f.name, width, util.describe(p.val) if p.kind == 'return' else p.kind,
                                                     '(the line as read, ' if with_original else '('), f.loc())
    c.floor('C05-e', 'line lists the model constructors are evaluated on', n, 8)
    # the quantifier over lines ranges over the model constructor applied to as_lines of the text
    ge = ix.func(SM + 'line_matchers:_get_line_elements')
    mp = ge.positional_params()[-1].arg
    marker = ListVal([])

    class HL(TextHooks):
        pass

    it = Interp(ix, fo, HL([]))
    it.hooks.lines = None
    bound = {}

    def with_value(interp, ctx, node, st):
        root, names = attr_path(ctx)
        bound['ctx'] = (root, names)
        return marker

    it.hooks.with_value = with_value
    ok = False
    for p in it.run_function(ge, {}):
        ys = [e for e in p.trace if e.kind == 'yield']
        if len(ys) == 1:
            nm, recv, args, ev = call_of(p, ys[0].data)
            root, names = bound.get('ctx', (None, ()))
            nm0, recv0, args0, _ = call_of(p, root) if root is not None else (None, None, [], None)
            ok = (ev is not None and ev.data.get('callee') is mi and len(args) == 1 and args[0] is marker
                  and names == ('as_lines',) and nm0 == 'contents' and isinstance(recv0, Sym)
                  and recv0.origin[:2] == ('param', mp))
    c.expect(ok, 'C05-e', 'line-elements/every-line-of-the-text',
             'the quantified elements are not model_iter_from_file_line_iter(<model>.contents().as_lines)', ge.loc())


# ------------------------------------------------------------------ g, h: option -> primitive tables
def _variant_setups(c: Check, parser_cls: ClassDef, rule: str):
    """[(option long name or None for the default, value of the variant's parser function)] of a transformer parser
    that is a choice of option variants: every TokenSyntaxSetup(is_option(<option>), <parser>) its constructor builds,
    and the default parser of an optional choice"""
    ix, fo = c.ix, c.fo
    init = ix.class_member(parser_cls, '__init__')

    class H(Hooks):
        def inline(self, fd, st):
            return fd.cls is parser_cls

    it = Interp(ix, fo, H())
    paths = it.run_function(init, {})
    c.require(len(paths) == 1 and paths[0].kind in ('return', 'normal'), '%s: constructor of %s has %d paths' % (rule, parser_cls.key, len(paths)))
    p = paths[0]
    out = []
    for e in p.calls():
        callee = e.data.get('callee')
        if isinstance(callee, ClassDef) and callee.name == 'TokenSyntaxSetup' and len(e.data['args']) == 2:
            m, fn = e.data['args']
            nm, _, a, _ = call_of(p, m)
            c.require(nm == 'is_option' and len(a) == 1 and isinstance(a[0], K) and isinstance(a[0].v, Record),
                      '%s: token matcher of a variant of %s not understood' % (rule, parser_cls.key))
            long = fo.attr_of_value(a[0].v, 'long')
            c.require(isinstance(long, str), '%s: option name of a variant not folded' % rule)
            out.append((long, fn))
        if isinstance(callee, ClassDef) and callee.name == 'ParserOfOptionalChoiceWithDefault' and len(e.data['args']) == 2:
            out.append((None, e.data['args'][1]))
    return it, p, out


def _run_funcval(it: Interp, fv, st: State):
    """returning paths of calling a function value (nested def / bound or static method) with symbolic arguments"""
    if isinstance(fv, BoundMethod):
        return it.run_function(fv.fd, {}, st.fork(), recv=fv.recv)
    c_ = fv.closure if isinstance(fv, FuncVal) else None
    fd = fv.fd if isinstance(fv, FuncVal) else None
    if fd is None:
        return []
    env = it.param_syms(fd, {})
    s2 = st.fork()
    outs = it.call_function(fd, env, s2, it._remap_closure(c_, s2) if c_ is not None else None)
    from ..absint import Path
    return [Path('return' if k == 'val' else 'raise', v, s_) for k, v, s_ in outs]


def _external_name(v) -> Optional[str]:
    if isinstance(v, K) and isinstance(v.v, Ref) and isinstance(v.v.d, External):
        return v.v.d.dotted
    if isinstance(v, K) and isinstance(v.v, External):
        return v.v.dotted
    if isinstance(v, Sym) and v.origin and v.origin[0] == 'attr' and isinstance(v.origin[1], K):
        b = v.origin[1].v
        bn = b.d.dotted if isinstance(b, Ref) and isinstance(b.d, External) else (b.dotted if isinstance(b, External) else None)
        if bn:
            return bn + '.' + v.origin[2]
    return None


def clause_g(c: Check):
    """TAB char-case: the option named to-lower is bound to str.lower, to-upper to str.upper; the transformer maps
    the converter it was constructed with over every line"""
    ix, fo = c.ix, c.fo
    M = ST + 'case_converters'
    it, p0, variants = _variant_setups(c, ix.cls(M + ':Parser'), 'C05-g')
    conv_cls = ix.cls(M + ':_CaseConverter')
    seen = {}
    for long, fn in variants:
        c.require(long is not None, 'C05-g: char-case has a default variant')
        for p in _run_funcval(it, fn, p0.state):
            if p.kind != 'return':
                continue
            con = util.constructed(ix, p.val)
            c.require(con is not None and con[0] == conv_cls.key, 'C05-g: variant %s does not build a _CaseConverter' % long)
            conv = con[3].get('converter')
            seen[long] = _external_name(conv) or util.describe(conv)
    want = {}
    for long in seen:
        words = long.split('-')
        want[long] = 'builtins.str.lower' if 'lower' in words else 'builtins.str.upper' if 'upper' in words else '?'
    for long in sorted(seen):
        c.expect(seen[long] == want[long], 'C05-g', 'char-case/-%s' % long,
                 'the option -%s converts with %s (expected %s)' % (long, seen[long], want[long]), M)
    c.expect(sorted(want.values()) == ['builtins.str.lower', 'builtins.str.upper'], 'C05-g', 'char-case/variants',
             'variants of char-case: %s' % sorted(seen), M)
    _expect_maps_every_line(c, 'C05-g', conv_cls, 'converter')


def _expect_maps_every_line(c: Check, rule: str, cls: ClassDef, param: str):
    """`_transform(lines)` of cls applies the function given to the constructor as `param` to every line, in order
    (`map(f, lines)`, a comprehension or a loop), or - for a function over the whole sequence - to `lines` itself"""
    ix, fo = c.ix, c.fo
    f = ix.class_member(cls, '_transform')
    for width in (0, 2):
        it = Interp(ix, fo, Hooks())
        fn = Sym('given-function')
        insts = it.instantiate(cls, State(), {param: fn})
        c.require(len(insts) == 1, 'C05: constructor of %s has %d paths' % (cls.key, len(insts)))
        obj, st = insts[0]
        lines = text_lines(width)
        lv = ListVal(list(lines))
        for p in it.run_function(f, {f.positional_params()[1].arg: lv}, st, recv=obj):
            ok = p.kind == 'return'
            if ok:
                v = p.val
                nm, recv, args, ev = call_of(p, v)
                cv = ev.data.get('callee_val') if ev is not None else None
                if nm == 'map' and len(args) == 2:
                    ok = args[0] is fn and args[1] is lv
                elif cv is fn:
                    ok = len(args) == 1 and args[0] is lv
                elif isinstance(v, ListVal):
                    ok = len(v.items) == width
                    for x, line in zip(v.items, lines):
                        nm_, _, a_, ev_ = call_of(p, x)
                        ok = ok and ev_ is not None and ev_.data.get('callee_val') is fn and len(a_) == 1 and a_[0] is line
                else:
                    ok = False
            c.expect(ok, rule, '%s._transform/every-line/%d-lines' % (cls.name, width),
                     '%s._transform gives %s (expected the function it was constructed with applied to every line, in '
                     'order)' % (cls.name, util.describe(p.val) if p.kind == 'return' else p.kind), f.loc())


def _strip_traits(f: FuncDef, fo: Folder):
    """which text primitives a strip function uses"""
    t = {'leading': False, 'any-space': False, 'newline': False}
    for n in walk_own(f.node):
        if isinstance(n, ast.Call) and isinstance(n.func, ast.Attribute):
            a = n.func.attr
            args = [fo.fold(f.module, f, x) for x in n.args]
            if a in ('strip', 'lstrip'):
                t['leading'] = True
            if a in ('strip', 'lstrip', 'rstrip') and not args:
                t['any-space'] = True
            if a in ('strip', 'lstrip', 'rstrip') and args and isinstance(args[0], str) and set(args[0]) - {'\n'}:
                t['any-space'] = True
            if a == 'isspace':
                t['any-space'] = True
            if a in ('strip', 'lstrip', 'rstrip') and args == ['\n']:
                t['newline'] = True
        if isinstance(n, ast.Constant) and n.value == '\n':
            t['newline'] = True
    return t


def clause_h(c: Check):
    """TAB strip: the default variant removes space at both ends (its function strips leading space); the
    -trailing-space variant removes nothing at the beginning; the -trailing-new-lines variant removes nothing at the
    beginning and uses no primitive that removes other space than new-lines (traits of the three functions)"""
    ix, fo = c.ix, c.fo
    M = ST + 'strip_space'
    it, p0, variants = _variant_setups(c, ix.cls(M + ':Parser'), 'C05-h')
    tr_cls = ix.cls(M + ':_StripWhiteSpaceTransformer')
    fns = {}
    for long, fn in variants:
        for p in _run_funcval(it, fn, p0.state):
            if p.kind != 'return':
                continue
            con = util.constructed(ix, p.val)
            c.require(con is not None and con[0] == tr_cls.key, 'C05-h: variant %s does not build the strip transformer' % long)
            v = con[3].get('transformer')
            d = v.fd if isinstance(v, FuncVal) else (v.v.d if isinstance(v, K) and isinstance(v.v, Ref) else None)
            c.require(isinstance(d, FuncDef), 'C05-h: function of variant %s not resolved (%s)' % (long, util.describe(v)))
            fns[long] = d
    c.expect(set(fns) == {None, 'trailing-space', 'trailing-new-lines'}, 'C05-h', 'strip/variants',
             'variants of strip: %s' % sorted(map(str, fns)), M)
    want = {None: {'leading': True, 'any-space': True},
            'trailing-space': {'leading': False, 'any-space': True},
            'trailing-new-lines': {'leading': False, 'any-space': False, 'newline': True}}
    for long, d in sorted(fns.items(), key=lambda kv: str(kv[0])):
        t = _strip_traits(d, fo)
        w = want.get(long)
        if w is None:
            continue
        bad = {k: t[k] for k in w if t[k] != w[k]}
        c.expect(not bad, 'C05-h', 'strip/%s' % (('-' + long) if long else 'default'),
                 'the function of strip %s (%s) %s' % (
                     ('-' + long) if long else '(default)', d.name,
                     '; '.join('%s space at the beginning' % ('removes' if v_ else 'does not remove') if k == 'leading' else
                               '%s a primitive that removes any white space' % ('uses' if v_ else 'does not use') if k == 'any-space' else
                               '%s new-lines' % ('handles' if v_ else 'does not handle') for k, v_ in bad.items())), d.loc())
    _expect_maps_every_line(c, 'C05-h', tr_cls, 'transformer')


# ------------------------------------------------------------------ i: replace
RP = ST + 'replace.impl'


def clause_i(c: Check):
    """replace: (1) DT of the transformer's constructor: -preserve-new-lines selects the replacer that keeps the
    new-line out of the substitution, its absence the one that substitutes in the whole line; -at selects the applier
    that consults the line matcher, its absence the one that substitutes in every line. (2) EVAL of the replacers on
    a symbolic line `body '\\n'`: including -> sub(line); excluding -> sub(body) + '\\n'; and on a last line without
    new-line: sub(line). (3) the substitution is `<pattern>.sub(<replacement>, <text>)` with the constructor's pattern
    and replacement. (4) DT of the selecting replacer: a line whose model matches is replaced, any other line is
    given unchanged; the models come from original_and_model_iter_from_file_line_iter (C05-e)."""
    ix, fo = c.ix, c.fo
    tr = ix.cls(RP + ':_ReplaceStringTransformer')
    incl = ix.cls(RP + ':_StrReplacerIncludingNewLines')
    excl = ix.cls(RP + ':_StrReplacerExcludingNewLines')
    wo = ix.cls(RP + ':_ReplacerApplierWoLineMatcherSelector')
    wi = ix.cls(RP + ':_ReplacerApplierWLineMatcherSelector')
    base = ix.cls(RP + ':_StrReplacer')

    class H0(Hooks):
        def inline(self, fd, st):
            return False

        def inline_class(self, cd, st):
            return False

    # (1)
    for preserve in (True, False):
        for selector in (True, False):
            it = Interp(ix, fo, H0())
            sel = Sym('selector', nullness=False, truth=True) if selector else NONE
            pat, rep = Sym('pattern'), Sym('replacement')
            insts = it.instantiate(tr, State(), {'lines_selector': sel, 'preserve_new_lines': K(preserve),
                                                 'compiled_regular_expression': pat, 'replacement': rep})
            key = 'replace/%s/%s' % ('preserve-new-lines' if preserve else 'default', 'at' if selector else 'every-line')
            c.require(1 <= len(insts) <= 8, 'C05-i: %d constructor paths for %s' % (len(insts), key))
            for obj, st in insts:
                _judge_replace_construction(c, ix, obj, st, key, selector, preserve, sel, pat, rep, wi, wo, incl, excl, tr)
    _replace_rest(c, ix, fo, base, incl, excl, wi, wo, tr)


def _judge_replace_construction(c, ix, obj, st, key, selector, preserve, sel, pat, rep, wi, wo, incl, excl, tr):
    ap = st.heap.get((obj.oid, '_replacer_applier'))
    con = util.constructed(ix, ap)
    want_ap = wi if selector else wo
    ok = con is not None and con[0] == want_ap.key
    rcon = None
    if ok:
        args = list(con[3].values())
        for a in args:
            rc = util.constructed(ix, a)
            if rc is not None and rc[0] in (incl.key, excl.key):
                rcon = rc
        if selector:
            ok = any(a is sel for a in args)
    want_r = excl if preserve else incl
    ok = ok and rcon is not None and rcon[0] == want_r.key and len(rcon[3]) >= 2 \
         and all(a is b for a, b in zip(list(rcon[3].values())[:2], [pat, rep]))
    c.expect(ok, 'C05-i', key + '/construction',
             '%s builds %s with %s (expected %s with a %s of (pattern, replacement))' % (
                 key, con[0].split(':')[-1] if con else util.describe(ap),
                 rcon[0].split(':')[-1] if rcon else '?', want_ap.name, want_r.name), tr.loc())


def _replace_rest(c, ix, fo, base, incl, excl, wi, wo, tr):
    # (2) + (3)
    sub = ix.class_member(base, '_sub')

    class H1(Hooks):
        symbolic_strings = True

        def inline(self, fd, st):
            return False

    for cls in (incl, excl):
        proc = ix.class_member(cls, 'process')
        for shape in ('with-new-line', 'last-line-without-new-line'):
            it = Interp(ix, fo, H1())
            obj = it.new_obj(cls)
            body = Sym('body')
            body.excludes = '\n'      # the new-line of a line is its last character
            line = StrCat([body, K('\n')]) if shape == 'with-new-line' else StrCat([body, K('x')])
            for p in it.run_function(proc, {proc.positional_params()[1].arg: line}, State(), recv=obj):
                c.count()
                if p.kind != 'return':
                    continue
                empties = [x for e in p.trace if e.kind == 'str-empty' for x in e.data]
                v = p.val
                sc = v if isinstance(v, StrCat) else StrCat([v])
                def substituted(q):
                    """the text a part is the substitution of: `_sub(<text>)`, or the substitution itself,
                    `<the pattern>.sub(<the replacement>, <text>)`"""
                    nm_, recv_, a_, _ = call_of(p, q)
                    if nm_ == '_sub' and len(a_) == 1:
                        return a_[0]
                    if nm_ == 'sub' and len(a_) == 2 and attr_path(recv_)[1][-1:] == ('_regex',) \
                            and attr_path(a_[0])[1][-1:] == ('_replacement',):
                        return a_[1]
                    return None

                subs = [q for q in sc.parts if substituted(q) is not None]
                key = '%s.process/%s' % (cls.name, shape)
                if not subs:
                    plain = all(isinstance(q, K) or any(q is b for b in (body,)) for q in sc.parts)
                    c.require(plain, 'C05-i: the result %r of %s is not understood' % (sc, key))
                    c.bad('C05-i', key, '%s.process on a line %s%s gives %r: the line is given without the substitution '
                                        'having been applied (a pattern may match the empty text too)' % (
                                            cls.name, shape, ' that is empty' if any(body is e for e in empties) else '', sc), proc.loc())
                    continue
                c.require(len(subs) == 1 and sc.parts[0] is subs[0] and all(isinstance(q, K) for q in sc.parts[1:]),
                          'C05-i: the result %r of %s is not understood' % (sc, key))
                tail = ''.join(q.v for q in sc.parts[1:])
                arg = substituted(subs[0])
                asc = arg if isinstance(arg, StrCat) else (StrCat([arg]) if arg is not None else None)
                if cls is excl and shape == 'with-new-line':
                    ok = asc is not None and asc.key(empties) == StrCat([body]).key(empties) and tail == '\n'
                    want = "_sub(<the line without its new-line>) + '\\n'"
                else:
                    ok = asc is not None and asc.key(empties) == line.key(empties) and tail == ''
                    want = '_sub(<the line>)'
                c.expect(ok, 'C05-i', key, '%s.process on a line %s gives _sub(%r) + %r (expected %s)' % (
                    cls.name, shape, asc, tail, want), proc.loc())
    it = Interp(ix, fo, H1())
    pat, rep = Sym('pattern'), Sym('replacement')
    insts = it.instantiate(incl, State(), {'compiled_regular_expression': pat, 'replacement': rep})
    text = Sym('text')
    n_sub = 0
    c.require(1 <= len(insts) <= 8, 'C05-i: %d constructor paths of the replacer' % len(insts))
    for obj, st in insts:  # every way the replacer can be constructed (a flag set in the constructor selects a path)
        for p in it.run_function(sub, {sub.positional_params()[1].arg: text}, st.fork(), recv=obj):
            if p.kind != 'return':
                continue
            n_sub += 1
            nm, recv, args, ev = call_of(p, p.val)
            ok = nm == 'sub' and recv is pat and len(args) == 2 and args[0] is rep and args[1] is text \
                and ev is not None and not ev.data['kwargs']
            c.expect(ok, 'C05-i', '_sub/pattern-replacement-text-in-their-roles',
                     'the substitution is %s (expected <pattern>.sub(<replacement>, <text>) - the compiled pattern, '
                     'with its flags, decides what is replaced)' % (
                         unparse(ev.node) if ev is not None else util.describe(p.val)), sub.loc())
    c.require(n_sub >= 1, 'C05-i: _StrReplacer._sub has no returning path')
    # (4)
    selr = ix.cls(RP + ':_ReplacerWLineMatcherSelector')
    proc = ix.class_member(selr, 'process')
    mr = ix.cls('exactly_lib.type_val_prims.matcher.matching_result:MatchingResult')
    for matches in (True, False):
        class H2(Hooks):
            def inline(self, fd, st):
                return False

            def opaque_result(self, interp, cdef, node, args, kwargs, st):
                if isinstance(node.func, ast.Attribute) and node.func.attr in ('matches_w_trace', 'matches'):
                    return K(Record(mr, {'value': matches, 'trace': Sym('trace')})) if node.func.attr == 'matches_w_trace' else K(matches)
                return None

        it = Interp(ix, fo, H2())
        sel, rpl = Sym('selector'), Sym('str-replacer')
        obj, st = it.instantiate(selr, State(), {'lines_selector': sel, 'str_replacer': rpl})[0]
        orig, model = StrCat([Sym('body'), K('\n')]), Sym('line-model')
        for p in it.run_function(proc, {proc.positional_params()[1].arg: ListVal([orig, model], True)}, st, recv=obj):
            if p.kind != 'return':
                continue
            asked = [e for e in p.calls() if isinstance(e.node.func, ast.Attribute) and e.node.func.attr in ('matches_w_trace', 'matches')]
            ok = len(asked) == 1 and len(asked[0].data['args']) == 1 and asked[0].data['args'][0] is model
            if matches:
                nm, recv, args, ev = call_of(p, p.val)
                ok = ok and ev is not None and ev.data.get('callee_val') is rpl and len(args) == 1 and args[0] is orig
            else:
                ok = ok and p.val is orig
            c.expect(ok, 'C05-i', 'selecting-replacer/%s' % ('selected' if matches else 'not-selected'),
                     'a line whose model %s the -at matcher gives %s (expected %s)' % (
                         'matches' if matches else 'does not match',
                         util.describe(p.val) if not isinstance(p.val, StrCat) else repr(p.val),
                         'the replacer applied to the line as read' if matches else 'the line as read, unchanged'), proc.loc())
    # (5) a substitution may remove all of a last line, or add / remove new-lines: the output of both appliers is
    # divided into lines anew, on every path
    redivide = ix.func(RP + ':_lines_iterator_from_replacements')
    for ap_cls in (wo, wi):
        pr = ix.class_member(ap_cls, 'process')
        n_ret = 0
        for p in util.func_paths(ix, fo, pr, H1()):
            if p.kind != 'return':
                continue
            n_ret += 1
            nm, _, args, ev = call_of(p, p.val)
            guards = [('' if t else 'not ') + unparse(g) for g, t in p.guards]
            c.expect(ev is not None and ev.data.get('callee') is redivide, 'C05-i', '%s.process/output-divided-into-lines-anew' % ap_cls.name,
                     '%s.process gives %s%s - not the replacements divided into lines anew: a last line that is replaced '
                     'by nothing stays as an empty line element, a replacement with a new-line as one line' % (
                         ap_cls.name, util.describe(p.val), (' when ' + ', '.join(guards)) if guards else ''), pr.loc())
        c.require(n_ret >= 1, 'C05-i: %s.process has no returning path' % ap_cls.name)
    # the applier with a selector feeds the pairs of the model constructor
    wproc = ix.class_member(wi, 'process')
    om = ix.func(MC + ':original_and_model_iter_from_file_line_iter')
    ok = False
    for p in util.func_paths(ix, fo, wproc, H1()):
        if p.kind != 'return':
            continue
        nm, recv, args, ev = call_of(p, p.val)
        if ev is not None and len(args) == 2:
            nm2, _, args2, ev2 = call_of(p, args[1])
            lp = wproc.positional_params()[1].arg
            ok = ev2 is not None and ev2.data.get('callee') is om and len(args2) == 1 and isinstance(args2[0], Sym) \
                 and args2[0].origin[:2] == ('param', lp)
    c.expect(ok, 'C05-i', 'selecting-applier/models-of-every-line',
             'the -at applier does not feed original_and_model_iter_from_file_line_iter(<lines>) to the replacement', wproc.loc())


# ------------------------------------------------------------------ j: filter / grep
def clause_j(c: Check):
    """filter (and grep, which is filter on `contents matches`): EVAL of the line selection on explicit pairs
    (line as read, line model) with every pattern of verdicts: the output is exactly the lines whose model matches,
    each as read, in order. (Which pairs are produced for a line-number interval is C13.)"""
    ix, fo = c.ix, c.fo
    cls = ix.cls(ST + 'filter.line_matcher:_ContentsViaAsLines')
    f = ix.class_member(cls, '_transform_lines')
    pairs_f = ix.class_member(cls, '_line_and_line_matcher_models')
    mr = ix.cls('exactly_lib.type_val_prims.matcher.matching_result:MatchingResult')
    n = 0
    for width in [w for w in _widths(c) if w <= 4]:   # the interpreter unrolls filtered comprehensions up to 4 elements
        for verdicts in itertools.product((True, False), repeat=width):
            lines = text_lines(width)
            models = [Sym('model%d' % i) for i in range(width)]
            pairs = ListVal([ListVal([l, m_], True) for l, m_ in zip(lines, models)])
            asked = []

            class H(Hooks):
                loop_bound = 4

                def inline(self, fd, st):
                    return False

                def on_call(self, interp, node, callee, callee_def, args, kwargs, st):
                    if callee_def is pairs_f:
                        return [('val', pairs, st)]
                    if isinstance(node.func, ast.Attribute) and node.func.attr in ('matches_w_trace', 'matches') and len(args) == 1:
                        idx = [i for i, m_ in enumerate(models) if args[0] is m_]
                        if len(idx) == 1:
                            asked.append(idx[0])
                            v = verdicts[idx[0]]
                            return [('val', K(Record(mr, {'value': v, 'trace': Sym('trace')})) if node.func.attr == 'matches_w_trace' else K(v), st)]
                    return None

            it = Interp(ix, fo, H())
            obj = it.new_obj(cls)
            st = State()
            st.heap[(obj.oid, '_line_matcher')] = Sym('line-matcher')
            for p in it.run_function(f, {f.positional_params()[1].arg: Sym('lines')}, st, recv=obj):
                n += 1
                c.count()
                got = None
                if p.kind == 'return' and isinstance(p.val, ListVal):
                    got = [next((i for i, l in enumerate(lines) if x is l), '?') for x in p.val.items]
                elif p.kind in ('return', 'normal'):
                    ys = [e.data for e in p.trace if e.kind == 'yield']
                    if ys or p.val is None or p.val is NONE or (isinstance(p.val, K) and p.val.v is None):
                        got = [next((i for i, l in enumerate(lines) if x is l), '?') for x in ys]
                want = [i for i, v in enumerate(verdicts) if v]
                c.expect(got == want, 'C05-j', 'filter/%s' % (''.join('T' if v else 'F' for v in verdicts) or 'empty'),
                         'filter with line verdicts %s gives lines %s (expected %s, each as read)' % (list(verdicts), got, want), f.loc())
    c.floor('C05-j', 'verdict patterns the line filter is evaluated on', n, 15)
    # grep REGEX is filter on the line matcher `contents matches REGEX`
    g = ix.func(ST + 'filter.parse:GrepShortcutParser.parse')
    flt = ix.func(ST + 'filter.line_matcher:sdv')
    cont = ix.func(LM + 'impl.contents.parse:sdv')
    mat = ix.func('exactly_lib.impls.types.string_matcher.parse.matches:parse')
    n_ret = 0

    class HG(Hooks):
        def inline(self, fd, st):
            return False

    for p in util.func_paths(ix, fo, g, HG()):
        if p.kind != 'return':
            continue
        n_ret += 1
        nm, _, a1, e1 = call_of(p, p.val)
        ok = e1 is not None and e1.data.get('callee') is flt and len(a1) == 2
        if ok:
            nm2, _, a2, e2 = call_of(p, a1[1])
            ok = e2 is not None and e2.data.get('callee') is cont and len(a2) == 1
            if ok:
                nm3, _, a3, e3 = call_of(p, a2[0])
                ok = e3 is not None and e3.data.get('callee') is mat and len(a3) == 1 and isinstance(a3[0], Sym) \
                     and a3[0].origin[:2] == ('param', g.positional_params()[1].arg)
        c.expect(ok, 'C05-j', 'grep/is-filter-on-contents-matches',
                 'grep REGEX is built as %s (expected the line filter on the line matcher `contents` of the text '
                 'matcher `matches REGEX` parsed from the arguments)' % util.describe(p.val), g.loc())
    c.require(n_ret >= 1, 'C05-j: the parser of grep has no returning path')


# ------------------------------------------------------------------ k: identity
def clause_k(c: Check):
    """identity gives its input: `_transform(lines)` returns `lines`, and it reports itself as identity"""
    ix, fo = c.ix, c.fo
    cls = ix.cls(ST + 'identity:IdentityStringTransformer')
    f = ix.class_member(cls, '_transform')
    lv = Sym('lines')
    it = Interp(ix, fo, Hooks())
    for p in it.run_function(f, {f.positional_params()[1].arg: lv}):
        c.expect(p.kind == 'return' and p.val is lv, 'C05-k', 'identity/returns-its-input',
                 'identity gives %s' % (util.describe(p.val) if p.kind == 'return' else p.kind), f.loc())
    idf = ix.class_member(cls, 'is_identity_transformer')
    vals = {p.val.v if p.kind == 'return' and isinstance(p.val, K) else '?' for p in util.func_paths(ix, fo, idf, Hooks())}
    c.expect(vals == {True}, 'C05-k', 'identity/is-identity', 'identity reports is_identity_transformer=%s' % sorted(map(str, vals)), idf.loc())


# ------------------------------------------------------------------ l: layers
def clause_l(c: Check):
    """PLUMB sweep over the packages of the text matchers / transformers / line matchers / regex: no construction
    cross-wires two arguments (see common.sweep_cross_wiring); REC sweep over their data classes"""
    from .common import sweep_cross_wiring, sweep_records
    pk = ['exactly_lib.impls.types.string_matcher', 'exactly_lib.impls.types.string_transformer',
          'exactly_lib.impls.types.line_matcher', 'exactly_lib.impls.types.matcher', 'exactly_lib.impls.types.regex']
    sweep_cross_wiring(c, 'C05-l', pk, floor=40)
    sweep_records(c, 'C05-rec', pk, floor=3)


# ------------------------------------------------------------------ m: the prefix reader of equals
def clause_m(c: Check):
    """EVAL of read_lines_as_str__w_minimum_num_chars on explicit lists of lines: the text returned is the
    concatenation of the first k lines, in order, for the k lines taken from the iterator - nothing read is left
    out; reading stops early only under a test that compares what was read with the requested minimum"""
    ix, fo = c.ix, c.fo
    f = ix.func('exactly_lib.util.str_.read_lines:read_lines_as_str__w_minimum_num_chars')
    pp = f.positional_params()
    mnp = [p.arg for p in pp if p.annotation is not None and unparse(p.annotation) == 'int']
    lp = [p.arg for p in pp if p.arg not in mnp]
    c.require(len(mnp) == 1 and len(lp) == 1, 'C05-m: parameters of the prefix reader not recognised')

    class H(Hooks):
        loop_bound = 6
        record_comparisons = True

    n = 0
    for width in _widths(c):
        lines = text_lines(width)
        it = Interp(ix, fo, H())
        mn = Sym('minimum', origin=('param', mnp[0], f.key))
        for p in it.run_function(f, {lp[0]: ListVal(list(lines)), mnp[0]: mn}):
            if p.kind != 'return':
                continue
            n += 1
            c.count()
            v = p.val.items[0] if isinstance(p.val, ListVal) and len(p.val.items) == 2 else None
            sc = v if isinstance(v, StrCat) else (StrCat([v]) if isinstance(v, K) and isinstance(v.v, str) else None)
            ok = sc is not None
            k = None
            if ok:
                for k_ in range(width + 1):
                    if sc.key() == StrCat(list(lines[:k_])).key():
                        k = k_
                ok = k is not None
            c.expect(ok, 'C05-m', 'prefix-reader/%d-lines/text-is-a-prefix-of-whole-lines' % width,
                     'from %d lines the reader gives %r (expected the concatenation of the first k lines)' % (width, sc if sc is not None else util.describe(p.val)),
                     f.loc())
            if ok and k < width:
                # stopped early: the last decisive test compared something with the minimum
                cm = [e for e in p.trace if e.kind == 'cmp' and (e.data[1] is mn or e.data[2] is mn)]
                c.expect(bool(cm), 'C05-m', 'prefix-reader/%d-lines/stops-only-at-the-minimum' % width,
                         'the reader stops after %d of %d lines without comparing what it has read with the requested '
                         'minimum' % (k, width), f.loc())
                # what is compared with the minimum when reading stops is the length of exactly the lines returned
                sums = []
                for e in cm:
                    other = e.data[2] if e.data[1] is mn else e.data[1]
                    counted = []
                    for x in _flatten_op(other):
                        nm, _, a, _ = call_of(p, x)
                        if nm == 'len' and len(a) == 1 and any(a[0] is l for l in lines):
                            counted.append(a[0])
                    if counted:
                        sums.append(counted)
                if sums:
                    counted = sums[-1]
                    idx = sorted(i for i, l in enumerate(lines) if any(l is x for x in counted))
                    c.expect(idx == list(range(k)) and len(counted) == k, 'C05-m',
                             'prefix-reader/%d-lines/minimum-is-reached-by-what-is-returned' % width,
                             'the reader stops when the lengths of lines %s reach the minimum but returns lines %s: the '
                             'text returned may be shorter than the minimum asked for (equals then takes a proper '
                             'prefix for the whole text)' % (idx, list(range(k))), f.loc())
    c.floor('C05-m', 'paths of the prefix reader', n, 6)


# ------------------------------------------------------------------ n: the strip variants, symbolically
def clause_n(c: Check):
    """EVAL over all texts of 0-3 lines: each variant of `strip` gives the documented text. The variant's function is
    run as a generator over an *iterator* of symbolic lines (each `sym '\n'`, sym any string without new-line; the
    last line also without final new-line). A test of a line against '\n' / '' forks and records whether the symbol
    is empty; `isspace()` / `lstrip()` / `rstrip()` fork on whether a symbol is blank (empty or white space only)
    and give `lstrip(sym)` / `rstrip(sym)` / `strip(sym)` of a symbol that is not. On every complete path the
    concatenation of what is yielded must equal the input with - default: the blank lines and white space at both
    ends, -trailing-space: those at the end, -trailing-new-lines: the new-lines (and empty lines) at the end -
    removed, computed from the same facts."""
    ix, fo = c.ix, c.fo
    from ..absint import IterVal
    M = ST + 'strip_space'
    it0, p0, variants = _variant_setups(c, ix.cls(M + ':Parser'), 'C05-n')
    fns = {}
    for long, fv in variants:
        for p in _run_funcval(it0, fv, p0.state):
            con = util.constructed(ix, p.val) if p.kind == 'return' else None
            v = con[3].get('transformer') if con is not None else None
            d = v.fd if isinstance(v, FuncVal) else (v.v.d if isinstance(v, K) and isinstance(v.v, Ref) else None)
            if isinstance(d, FuncDef):
                fns[long] = d
    c.require(set(fns) == {None, 'trailing-space', 'trailing-new-lines'}, 'C05-n: functions of the strip variants not found (%s)' % sorted(map(str, fns)))

    class H(Hooks):
        loop_bound = 7
        symbolic_strings = True

    def facts(p):
        empty, nonempty, blank, nonblank = [], [], [], []
        for e in p.trace:
            if e.kind == 'str-empty':
                empty += e.data
                blank += e.data
            elif e.kind == 'str-nonempty':
                nonempty += e.data
            elif e.kind == 'str-blank':
                blank += e.data
            elif e.kind == 'str-nonblank':
                nonblank += e.data
                nonempty += e.data
        return empty, nonempty, blank, nonblank

    def is_in(x, xs):
        return any(x is y for y in xs)

    def expected(variant, lines, f_):
        """(parts, undecided symbol or None)"""
        empty, nonempty, blank, nonblank = f_
        whole = []
        for l in lines:
            whole.extend(l.parts)

        def strip_end(parts, left, only_newlines):
            parts = list(parts)
            while parts:
                t = parts[0] if left else parts[-1]
                if isinstance(t, K):
                    v_ = (t.v.lstrip('\n') if left else t.v.rstrip('\n')) if only_newlines else (t.v.lstrip() if left else t.v.rstrip())
                    if v_:
                        if left:
                            parts[0] = K(v_)
                        else:
                            parts[-1] = K(v_)
                        return parts, None
                    parts.pop(0 if left else -1)
                    continue
                if only_newlines:
                    if is_in(t, empty):
                        parts.pop(0 if left else -1)
                        continue
                    if is_in(t, nonempty):
                        return parts, None
                    return parts, t
                if is_in(t, blank):
                    parts.pop(0 if left else -1)
                    continue
                if is_in(t, nonblank) or getattr(t, 'strip_base', None) is not None:
                    d = interp_of_run._stripped(t, 'l' if left else 'r')
                    if left:
                        parts[0] = d
                    else:
                        parts[-1] = d
                    return parts, None
                return parts, t
            return parts, None

        und = None
        if variant is None:
            whole, und = strip_end(whole, True, False)
        if und is None:
            whole, und = strip_end(whole, False, variant == 'trailing-new-lines')
        return whole, und

    n = 0
    for variant, fn in sorted(fns.items(), key=lambda kv: str(kv[0])):
        vname = ('-' + variant) if variant else 'default'
        for width in _widths(c):
            for last_nl in ((True, False) if width else (True,)):
                syms = [Sym('line%d' % i) for i in range(width)]
                lines = [StrCat([s_, K('\n')]) for s_ in syms]
                if width and not last_nl:
                    lines[-1] = StrCat([syms[-1], K('x')])   # a last line that ends with something else than a new-line
                interp_of_run = Interp(ix, fo, H())
                for p in interp_of_run.run_function(fn, {fn.positional_params()[0].arg: IterVal(list(lines))}):
                    if p.truncated:
                        continue
                    c.require(p.kind in ('return', 'normal'), 'C05-n: %s raises on a path' % fn.key)
                    n += 1
                    c.count()
                    f_ = facts(p)
                    ys = [e.data for e in p.trace if e.kind == 'yield']
                    parts = []
                    for y in ys:
                        sc = y if isinstance(y, StrCat) else (StrCat([y]) if isinstance(y, K) and isinstance(y.v, str) else None)
                        c.require(sc is not None, 'C05-n: a value yielded by %s is not a text (%s)' % (fn.name, util.describe(y)))
                        parts.append(sc)
                    got = StrCat(parts)
                    want_parts, und = expected(variant, lines, f_)
                    shape = '%d-lines%s' % (width, '' if last_nl else '-no-final-newline')
                    pattern = ''.join('e' if is_in(s_, f_[0]) else 'b' if is_in(s_, f_[2]) else 'n' if is_in(s_, f_[3]) else
                                      'x' if is_in(s_, f_[1]) else '?' for s_ in syms) or '-'
                    if und is not None:
                        c.bad('C05-n', 'strip/%s/%s/%s/undecided' % (vname, shape, pattern),
                              'a path of %s ends without having looked at %s although the result depends on whether it '
                              'is %s' % (fn.name, und.tag, 'empty' if variant == 'trailing-new-lines' else 'blank'), fn.loc())
                        continue
                    want = StrCat(want_parts)
                    c.expect(got.key(f_[0]) == want.key(f_[0]), 'C05-n', 'strip/%s/%s/%s' % (vname, shape, pattern),
                             'for a text of %d lines (e empty, b blank, n not blank, x not empty, ? not looked at: %s) strip '
                             '%s gives %r (expected %r)' % (width, pattern, vname, got, want), fn.loc())
    c.floor('C05-n', 'symbolic texts the strip variants are evaluated on', n, 40)
