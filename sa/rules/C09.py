"""C09 String syntax: lexer configuration and quoting routing (DESIGN.md section 5, clauses a-d)."""
import ast
from typing import List, Optional

from ..core import Index, FuncDef, ClassDef, External, AnalysisError, unparse, walk_own, dotted_name, parent
from ..fold import Folder, Record, EnumMember, Ref, is_unknown, single_return_expr
from ..absint import Interp, Hooks, State, K, Sym, Obj, Exc, NONE, ListVal
from ..report import Check
from .. import util
from .common import ForkHooks, labels_of

TS = 'exactly_lib.section_document.element_parsers.token_stream'
PS = 'exactly_lib.impls.types.string_.parse_string'
SS = 'exactly_lib.symbol.symbol_syntax'
TK = 'exactly_lib.util.parse.token'

REQUIRED_LEXER_CONF = {'whitespace_split': True, 'commenters': '', 'escape': ''}


def check(c: Check):
    c.explanation = (
        'Configuration obligation of every shlex lexer that tokenises test-case source (posix mode, whitespace '
        'splitting, no comment characters inside arguments, no escape characters), decision table of the quoting '
        'routing (a hard-quoted token is one constant and is never searched for symbol references; every other token '
        'is), folded delimiter constants against the literal offsets that use them, and typestate of the token '
        'stream for an unterminated quote (the lexer error is kept and raised as TokenSyntaxError by the next '
        'consume; every handler of it converts to the instruction syntax error). Decides clauses a-d of DESIGN.md '
        'C09; not token boundaries, here-document bodies or positions.')
    clause_j(c)
    clause_k(c)
    clause_l(c)
    clause_m(c)
    clause_n(c)
    clause_a(c)
    clause_b(c)
    clause_c(c)
    clause_d(c)
    clause_e(c)
    clause_f(c)
    clause_g(c)
    clause_h(c)
    clause_i(c)


# ---------------------------------------------------------------- a
def lexer_configuration(c: Check, fd: FuncDef):
    """(posix argument, {attribute: folded value}) of the shlex.shlex object constructed in fd, per path"""
    ix, fo = c.ix, c.fo
    out = []
    for p in util.func_paths(ix, fo, fd, Hooks()):
        lexers = [e for e in p.calls() if isinstance(e.data['callee'], External) and e.data['callee'].dotted == 'shlex.shlex']
        if not lexers:
            continue
        e = lexers[0]
        posix = e.data['kwargs'].get('posix')
        lex_idx = p.trace.index(e)
        attrs = {}
        for ev in p.trace:
            if ev.kind == 'setattr':
                base, attr, v = ev.data
                r = util.root_sym(base)
                if isinstance(r, Sym) and r.origin and r.origin[0] == 'call' and r.origin[5] == lex_idx:
                    attrs[attr] = v.v if isinstance(v, K) else util.describe(v)
        out.append((posix.v if isinstance(posix, K) else None, attrs, p))
    return out


def clause_a(c: Check):
    ix = c.ix
    nl = ix.func(TS + ':TokenStream._new_lexer')
    confs = lexer_configuration(c, nl)
    c.require(confs, 'C09-a: no shlex.shlex construction in TokenStream._new_lexer')
    for posix, attrs, p in confs:
        c.expect(posix is True, 'C09-a', 'TokenStream._new_lexer/posix', 'the lexer is not in posix mode (%r)' % posix,
                 nl.loc())
        for attr, want in sorted(REQUIRED_LEXER_CONF.items()):
            got = attrs.get(attr, '<shlex default>')
            c.expect(got == want, 'C09-a', 'TokenStream._new_lexer/' + attr,
                     'lexer.%s is %r (the documented syntax needs %r%s)' % (
                         attr, got, want,
                         ": a `#` inside an argument would start a comment and the rest of the line be dropped"
                         if attr == 'commenters' else ''), nl.loc())
        ret = util.root_sym(p.val) if p.kind == 'return' else None
        c.expect(isinstance(ret, Sym) and util.origin_call_key(ret) == 'shlex.shlex', 'C09-a',
                 'TokenStream._new_lexer/returns-configured-lexer', 'the configured lexer is not returned', nl.loc())
    c.sample({'TokenStream lexer': confs[0][1]})
    # every lexer the stream uses comes from _new_lexer
    tsc = ix.cls(TS + ':TokenStream')
    n = 0
    for meth, v, st in ix.self_attr_assignments(tsc, '_lexer'):
        n += 1
        c.expect(isinstance(v, ast.Call) and ix.callee(meth.module, meth, v) == nl, 'C09-a',
                 'TokenStream/%s/lexer-from-_new_lexer' % meth.name,
                 'the lexer assigned in %s is %s' % (meth.name, unparse(v)), meth.loc())
    c.floor('C09-a', 'assignments of TokenStream._lexer', n, 2)
    # who else constructs a lexer for source text
    others = []
    for m in ix.modules_mentioning('shlex'):
        for node in ast.walk(m.tree):
            if isinstance(node, ast.Call):
                f = m.enclosing_func(node)
                d = ix.callee(m, f, node)
                if isinstance(d, External) and d.dotted in ('shlex.shlex', 'shlex.split'):
                    where = f.key if f else m.name
                    if where != nl.key:
                        others.append('%s (%s)' % (where, d.dotted))
    allowed_prefixes = ('exactly_lib.cli.', 'exactly_lib.section_document.element_parsers.token_parse:',
                        'exactly_lib.section_document.element_parsers.misc_utils:split_arguments_list_string')
    for o in others:
        c.expect(o.startswith(allowed_prefixes), 'C09-a', 'other-lexer/' + o.split(' ')[0],
                 'another shlex lexer tokenises source text in %s (its configuration is not the documented one)' % o,
                 None)
    c.note('informational: other shlex uses (command line options, suite file names, [conf] directory arguments): %s'
           % others)


# ---------------------------------------------------------------- b
def clause_b(c: Check):
    ix, fo = c.ix, c.fo
    tok = ix.cls(TK + ':Token')
    tt = fo.enum_members(ix.cls(TK + ':TokenType'))
    split = ix.func(SS + ':split')
    const = ix.func(SS + ':constant')

    class H(Hooks):
        def inline(self, fd, st):
            return fd.module.name == TK or fd.module.name == 'exactly_lib.util.either'

    cases = [
        ('hard-quoted', Record(tok, {'token_type': tt['QUOTED'], 'string': 'a @[S]@', 'source_string': "'a @[S]@'"}), False),
        ('soft-quoted', Record(tok, {'token_type': tt['QUOTED'], 'string': 'a @[S]@', 'source_string': '"a @[S]@"'}), True),
        ('plain', Record(tok, {'token_type': tt['PLAIN'], 'string': 'a@[S]@', 'source_string': 'a@[S]@'}), True),
    ]
    for fn in ('parse_fragments_from_token', 'parse_sym_ref_or_fragments_from_token'):
        f = ix.func(PS + ':' + fn)
        for label, rec, want_split in cases:
            for p in util.func_paths(ix, fo, f, H(), args={f.positional_params()[0].arg: K(rec)}):
                splits = [e for e in p.calls() if e.data['callee'] == split]
                consts = [e for e in p.calls() if e.data['callee'] == const]
                key = '%s/%s' % (fn, label)
                if want_split:
                    ok = len(splits) == 1 and isinstance(splits[0].data['args'][0], K) \
                         and splits[0].data['args'][0].v == rec.args['string']
                    c.expect(ok, 'C09-b', key, 'a %s token is not searched for symbol references (split calls: %d)' % (
                        label, len(splits)), f.loc())
                else:
                    ok = not splits and len(consts) == 1 and isinstance(consts[0].data['args'][0], K) \
                         and consts[0].data['args'][0].v == rec.args['string']
                    c.expect(ok, 'C09-b', key,
                             'a hard-quoted token is %s' % ('searched for symbol references' if splits else
                                                            'not taken as one constant'), f.loc())
    # Token: quoting classification
    for label, src, hard in (('hard', "'x'", True), ('soft', '"x"', False)):
        rec = Record(tok, {'token_type': tt['QUOTED'], 'string': 'x', 'source_string': src})
        v = fo.record_attr(rec, 'is_hard_quote_type')
        c.expect(v is hard, 'C09-b', 'Token.is_hard_quote_type/' + label,
                 'a token written %s is classified hard-quoted=%r' % (src, v), tok.loc())
    hq = fo.fold_path(TK + ':HARD_QUOTE_CHAR')
    sq = fo.fold_path(TK + ':SOFT_QUOTE_CHAR')
    c.expect(hq == "'" and sq == '"', 'C09-b', 'quote-characters', 'quote characters are %r / %r' % (hq, sq), TK)
    # TokenStream classifies QUOTED by the first source character being a lexer quote
    cons = ix.func(TS + ':TokenStream.consume')
    ok = any(isinstance(n, ast.IfExp) and 'quotes' in unparse(n.test) and '[0]' in unparse(n.test)
             for n in ast.walk(cons.node))
    c.expect(ok, 'C09-b', 'TokenStream.consume/token-type', 'the token type is not derived from the first source '
                                                            'character being a quote', cons.loc())


# ---------------------------------------------------------------- c
def clause_c(c: Check):
    ix, fo = c.ix, c.fo
    b = fo.fold_path(SS + ':SYMBOL_REFERENCE_BEGIN')
    e = fo.fold_path(SS + ':SYMBOL_REFERENCE_END')
    c.expect(b == '@[' and e == ']@', 'C09-c', 'delimiters', 'symbol reference delimiters are %r %r' % (b, e), SS)
    c.require(isinstance(b, str) and isinstance(e, str), 'C09-c: delimiters do not fold')
    n = 0
    for fn in ('_find_symbol_reference', 'parse_maybe_symbol_reference'):
        f = ix.func(SS + ':' + fn)
        for node in ast.walk(f.node):
            if isinstance(node, ast.Constant) and isinstance(node.value, int) and not isinstance(node.value, bool) \
                    and node.value not in (0, 1, -1):
                n += 1
                c.expect(abs(node.value) == len(b) == len(e), 'C09-c', '%s/offset-%d' % (fn, node.value),
                         'literal offset %d does not equal the delimiter length %d/%d' % (node.value, len(b), len(e)),
                         '%s:%d' % (f.module.relpath, node.lineno))
    c.floor('C09-c', 'literal delimiter offsets', n, 4)


# ---------------------------------------------------------------- d
def clause_d(c: Check):
    ix, fo = c.ix, c.fo
    tsc = ix.cls(TS + ':TokenStream')
    cons = ix.class_member(tsc, 'consume')
    tse = ix.cls(TS + ':TokenSyntaxError')
    # (1) pending error -> raised
    it = Interp(ix, fo, Hooks())
    st = State()
    obj = it.new_obj(tsc)
    st.heap[(obj.oid, '_head_syntax_error_description')] = Sym('pending_error', truth=True, nullness=False)
    for p in it.run_function(cons, st=st, recv=obj):
        c.expect(p.kind == 'raise' and isinstance(p.val, Exc) and p.val.cls == tse, 'C09-d',
                 'TokenStream.consume/pending-error-raised',
                 'a token with invalid quoting is consumed without TokenSyntaxError (%s)' % p.kind, cons.loc())
    # (2) lexer error -> remembered
    hooks = ForkHooks(ix)
    hooks.fork_on(lambda d, n, cv: isinstance(n.func, ast.Attribute) and n.func.attr == 'get_token',
                  [('value-error', ('raise', External('builtins.ValueError')))])
    it = Interp(ix, fo, hooks)
    st = State()
    obj = it.new_obj(tsc)
    st.heap[(obj.oid, '_head_syntax_error_description')] = NONE
    n = 0
    for p in it.run_function(cons, st=st, recv=obj):
        n += 1
        desc = p.state.heap.get((obj.oid, '_head_syntax_error_description'))
        head = p.state.heap.get((obj.oid, '_head_token'))
        remembered = desc is not None and not (isinstance(desc, K) and not desc.v)
        c.expect(p.kind == 'return' and remembered and isinstance(head, K) and head.v is None, 'C09-d',
                 'TokenStream.consume/lexer-error-remembered',
                 'an unterminated quote is not remembered as a syntax error of the head token (description %s, head %s, '
                 'ends by %s)' % (util.describe(desc), util.describe(head), p.kind), cons.loc())
    c.floor('C09-d', 'paths of consume with a lexer error', n, 1)
    # (3) look-ahead state
    las = ix.class_member(tsc, 'look_ahead_state')
    lst = fo.enum_members(ix.cls(TS + ':LookAheadState'))
    for label, head, desc, want in (('token', Sym('tok', truth=True, nullness=False), NONE, 'HAS_TOKEN'),
                                    ('null', NONE, NONE, 'NULL'),
                                    ('error', NONE, Sym('err', truth=True, nullness=False), 'SYNTAX_ERROR')):
        it = Interp(ix, fo, Hooks())
        st = State()
        obj = it.new_obj(tsc)
        st.heap[(obj.oid, '_head_token')] = head
        st.heap[(obj.oid, '_head_syntax_error_description')] = desc
        outs = set()
        for p in it.run_function(las, st=st, recv=obj):
            outs.add(p.val.v.name if p.kind == 'return' and isinstance(p.val, K) and isinstance(p.val.v, EnumMember) else '?')
        c.expect(outs == {want}, 'C09-d', 'look_ahead_state/' + label, 'state is %s (expected %s)' % (outs, want), las.loc())
    # (4) every handler of TokenSyntaxError converts to the instruction syntax error
    siiae = ix.cls('exactly_lib.section_document.element_parsers.instruction_parser_exceptions:'
                   'SingleInstructionInvalidArgumentException')
    n = 0
    for m in ix.modules_mentioning('TokenSyntaxError'):
        for node in ast.walk(m.tree):
            if isinstance(node, ast.ExceptHandler) and node.type is not None:
                f = m.enclosing_func(node)
                types = node.type.elts if isinstance(node.type, ast.Tuple) else [node.type]
                if any(ix.resolve_static(m, f, t) == tse for t in types):
                    n += 1
                    ok = False
                    for x in ast.walk(node):
                        if isinstance(x, ast.Raise) and x.exc is not None:
                            cal = x.exc if isinstance(x.exc, ast.Call) else None
                            d = ix.callee(m, f, cal) if cal is not None else None
                            if d == siiae or (isinstance(d, ClassDef) and ix.is_subclass(d, siiae)):
                                ok = True
                            if isinstance(d, FuncDef) and d.cls is not None and d.cls.name == 'ParseException':
                                ok = True  # the act phase's syntax error channel (-> SYNTAX_ERROR)
                        if isinstance(x, ast.Call):
                            d = ix.callee(m, f, x)
                            if isinstance(d, FuncDef) and any(isinstance(y, ast.Raise) for y in ast.walk(d.node)) \
                                    and 'error' in d.name:
                                ok = True
                    c.expect(ok, 'C09-d', 'TokenSyntaxError-handler@' + (f.key if f else m.name),
                             'a handler of TokenSyntaxError does not report an instruction syntax error',
                             '%s:%d' % (m.relpath, node.lineno))
    c.floor('C09-d', 'handlers of TokenSyntaxError', n, 4)
    # (5) the token parser checks the look-ahead state before requiring a token
    tp = ix.func('exactly_lib.section_document.element_parsers.token_stream_parser:TokenParser.'
                 '_require_head_token_has_valid_syntax')
    ok = any(isinstance(n_, ast.Call) and isinstance(n_.func, ast.Attribute) and n_.func.attr == 'error_plain'
             for n_ in ast.walk(tp.node))
    c.expect(ok, 'C09-d', 'TokenParser/invalid-head-is-an-error', 'an invalid head token is not reported', tp.loc())


# ---------------------------------------------------------------- e
_DISCARD = 'consume_current_line_as_string_of_remaining_part_of_current_line'
_CAPTURE = 'consume_remaining_part_of_current_line_as_string'
_REPORT = 'report_superfluous_arguments_if_not_at_eol'
_PURE_QUERIES = {'is_at_eol', 'has_current_line', 'remaining_part_of_current_line', 'is_null', 'strip',
                 'has_valid_head_token', 'head_is_unquoted_and_equals', 'has_valid_head_matching', 'remaining_source'}


def clause_e(c: Check):
    """TS "nothing is swallowed": where the rest of the current line is thrown away (the result of the discarding
    call is not used), every path reaching the call has established what the rest of the line is - end of line
    tested, the whole remaining text compared, superfluous arguments reported, or the text taken with the
    capturing call - and has not consumed anything from the token stream since."""
    ix, fo = c.ix, c.fo
    sites = []
    for m in ix.modules_mentioning(_DISCARD):
        if m.name.startswith('exactly_lib.section_document.element_parsers.token_stream'):
            continue  # the definition and its delegation
        for node in ast.walk(m.tree):
            if isinstance(node, ast.Expr) and isinstance(node.value, ast.Call) and isinstance(node.value.func, ast.Attribute) \
                    and node.value.func.attr == _DISCARD:
                f = m.enclosing_func(node)
                if f is not None:
                    sites.append((m, f, node.value))
    c.floor('C09-e', 'places where the rest of a line is discarded', len(sites), 5)
    done = set()
    for m, f, call in sites:
        if f in done:
            continue
        done.add(f)

        class H(Hooks):
            loop_bound = 2

            def inline(self, fd, st, f=f):
                # helpers of the same class / module that are handed the token parser
                return fd.module is f.module and fd is not f and (fd.cls is f.cls or fd.cls is None) and fd.name.startswith('_')

        paths = util.func_paths(ix, fo, f, H())
        c.count(len(paths))
        bad = {}
        n_reached = 0
        for p in paths:
            known = None
            for e in p.trace:
                if e.kind == 'guard':
                    test, truth = e.data
                    src = unparse(test)
                    if isinstance(test, ast.Attribute) and test.attr == 'is_at_eol':
                        known = 'end of line tested' if truth else None
                    elif isinstance(test, ast.Compare) and len(test.ops) == 1 and isinstance(test.ops[0], ast.Eq) \
                            and 'remaining_part_of_current_line' in src and 'head' not in src:
                        known = 'whole remaining text compared' if truth else known
                    continue
                if e.kind != 'call' or not isinstance(e.node.func, ast.Attribute):
                    if e.kind == 'call' and any(_is_token_parser(a) for a in e.data.get('args', [])):
                        known = None
                    continue
                attr = e.node.func.attr
                if attr == _DISCARD and isinstance(parent(e.node), ast.Expr):
                    n_reached += 1
                    if known is None:
                        bad[e.node.lineno] = e
                    known = None
                elif attr == _REPORT:
                    known = 'superfluous arguments reported'
                elif attr == _CAPTURE:
                    known = 'text captured'
                elif attr in _PURE_QUERIES:
                    pass
                elif _is_token_parser(e.data.get('recv')) or _is_token_parser(_attr_base(e.data.get('callee_val'))) \
                        or any(_is_token_parser(a) for a in e.data.get('args', [])):
                    known = None
        for m2, f2, call2 in sites:
            if f2 is f:
                key = 'discard@%s' % f.key
                c.expect(call2.lineno not in bad, 'C09-e', key,
                         'the rest of the current line is discarded on a path that has not established what it holds '
                         '(arguments can be swallowed silently)', '%s:%d' % (m.relpath, call2.lineno))
        c.require(n_reached > 0, 'C09-e: no analysed path of %s reaches its discarding call' % f.key)


def _attr_base(v):
    if v is None:
        return None
    return util.attr_chain(v)[0]


def _is_token_parser(v) -> bool:
    r = util.root_sym(v) if v is not None else None
    cls = getattr(r, 'cls', None)
    return isinstance(cls, ClassDef) and cls.name in ('TokenParser', 'TokenStream')


# ---------------------------------------------------------------- f
def _affine(v, atoms):
    """linear form {atom id: coefficient, None: constant} of an abstract integer built with + and -"""
    if isinstance(v, K) and isinstance(v.v, int) and not isinstance(v.v, bool):
        return {None: v.v}
    if isinstance(v, Sym):
        o = v.origin
        if o and o[0] == 'op' and o[1] == 'BinOp' and isinstance(v.node, ast.BinOp) \
                and isinstance(v.node.op, (ast.Add, ast.Sub)) and len(o[2]) == 2:
            l, r = _affine(o[2][0], atoms), _affine(o[2][1], atoms)
            if l is None or r is None:
                return None
            sign = 1 if isinstance(v.node.op, ast.Add) else -1
            out = dict(l)
            for k, x in r.items():
                out[k] = out.get(k, 0) + sign * x
            return {k: x for k, x in out.items() if x != 0 or k is None}
        if o and o[0] == 'call' and o[1] == 'builtins.len' and len(o[2]) == 1:
            key = ('len', id(util.root_sym(o[2][0])))
            atoms[key] = o[2][0]
            return {key: 1}
        key = ('val', id(util.root_sym(v)))
        atoms[key] = v
        return {key: 1}
    return None


def _diff(a, b):
    out = dict(a)
    for k, x in b.items():
        out[k] = out.get(k, 0) - x
    return {k: x for k, x in out.items() if x != 0}


def clause_f(c: Check):
    """symbol reference scanner: offsets.  For a candidate `@[` at p with name n (the identifier characters that
    follow):  the name is read from p+len(BEGIN); the end delimiter is looked for at p+len(BEGIN)+len(n); the rest
    starts len(END) later; after a failed candidate the search resumes at r with p < r <= p+len(BEGIN)+len(n) - a
    later resume position skips a reference that starts right there."""
    ix, fo = c.ix, c.fo
    f = ix.func(SS + ':_find_symbol_reference')
    begin = fo.fold_path(SS + ':SYMBOL_REFERENCE_BEGIN')
    end = fo.fold_path(SS + ':SYMBOL_REFERENCE_END')
    c.require(isinstance(begin, str) and isinstance(end, str), 'C09-f: reference delimiters are not constant strings')
    extract = ix.func(SS + ':_extract_symbol_name')

    class H(Hooks):
        loop_bound = 2

    paths = util.func_paths(ix, fo, f, H())
    c.count(len(paths))
    n_resume = n_ok = 0
    for p in paths:
        atoms = {}
        cand = None    # value of the current candidate position
        name = None
        for idx, e in enumerate(p.trace):
            if e.kind != 'call':
                continue
            d = e.data
            attr = e.node.func.attr if isinstance(e.node.func, ast.Attribute) else None
            args = d['args']
            if attr == 'find':
                ok = args and isinstance(args[0], K) and args[0].v == begin
                c.expect(bool(ok), 'C09-f', 'scanner/searches-begin-delimiter', 'the scanner does not search for %r' % begin,
                         f.loc())
                if len(args) > 1 and cand is not None:
                    n_resume += 1
                    r = _affine(args[1], atoms)
                    lo = _affine(cand, atoms)
                    good = False
                    if r is not None and lo is not None:
                        dlt = _diff(r, lo)
                        const = dlt.pop(None, 0)
                        if not dlt:
                            good = 1 <= const <= len(begin)
                        elif name is not None and dlt == {('len', id(util.root_sym(name))): 1}:
                            good = 1 <= const <= len(begin)
                    c.expect(good, 'C09-f', 'scanner/resume-position',
                             'after a failed candidate the search resumes at %s: not within (candidate, candidate + %d + '
                             'len(name)] - a reference starting right after the failed one is skipped, or the scan does '
                             'not advance' % (unparse(e.node.args[1]), len(begin)), '%s:%d' % (f.module.relpath, e.node.lineno))
                cand = _value_of_call(p, idx)
                name = None
            elif d.get('callee') == extract and cand is not None:
                st = _affine(args[1], atoms) if len(args) > 1 else None
                lo = _affine(cand, atoms)
                ok = st is not None and lo is not None and _diff(st, lo) == {None: len(begin)}
                c.expect(bool(ok), 'C09-f', 'scanner/name-starts-after-begin',
                         'the name is read from %s, not from right after the %d characters of %r' % (
                             unparse(e.node.args[1]) if len(e.node.args) > 1 else '?', len(begin), begin), f.loc())
                name = _value_of_call(p, idx)
            elif attr == 'startswith' and cand is not None and name is not None:
                ok = args and isinstance(args[0], K) and args[0].v == end and len(args) > 1
                if ok:
                    at = _affine(args[1], atoms)
                    lo = _affine(cand, atoms)
                    ok = at is not None and lo is not None and \
                         _diff(at, lo) == {None: len(begin), ('len', id(util.root_sym(name))): 1}
                c.expect(bool(ok), 'C09-f', 'scanner/end-delimiter-position',
                         'the end delimiter is not looked for right after the name', f.loc())
        if p.kind == 'return' and isinstance(p.val, ListVal) and len(p.val.items) == 3 and cand is not None \
                and not (isinstance(p.val.items[0], K)):
            pos, nm, rest = p.val.items
            ok = util.root_sym(pos) is util.root_sym(cand) and name is not None and util.root_sym(nm) is util.root_sym(name)
            o = rest.origin if isinstance(rest, Sym) else None
            if ok and o and o[0] == 'index' and isinstance(rest.node, ast.Subscript) and isinstance(rest.node.slice, ast.Slice) \
                    and rest.node.slice.upper is None and rest.node.slice.lower is not None:
                so = o[2].origin if isinstance(o[2], Sym) else None
                low = so[2][0] if so and so[0] == 'op' and so[2] else None
                at = _affine(low, atoms) if low is not None else None
                lo = _affine(cand, atoms)
                ok = at is not None and _diff(at, lo) == {None: len(begin) + len(end), ('len', id(util.root_sym(name))): 1}
            else:
                ok = False
            n_ok += 1
            c.expect(bool(ok), 'C09-f', 'scanner/result',
                     'a found reference is not reported as (its position, its name, the text after its end delimiter)',
                     f.loc())
    c.floor('C09-f', 'resumed searches analysed', n_resume, 2)
    c.floor('C09-f', 'successful finds analysed', n_ok, 2)


def _value_of_call(p, ev_idx):
    """the abstract value a call event produced (looked up among later uses)"""
    def visit(v, depth=0):
        if isinstance(v, Sym):
            o = v.origin
            if o and o[0] == 'call' and o[5] == ev_idx:
                return v
            if o and depth < 6:
                for x in o[1:]:
                    for y in (x if isinstance(x, (list, tuple)) else [x]):
                        if isinstance(y, (Sym, ListVal)):
                            r = visit(y, depth + 1)
                            if r is not None:
                                return r
        if isinstance(v, ListVal):
            for x in v.items:
                r = visit(x, depth + 1)
                if r is not None:
                    return r
        return None

    for e in p.trace[ev_idx + 1:]:
        if e.kind == 'call':
            for a in list(e.data.get('args', [])) + list(e.data.get('kwargs', {}).values()):
                r = visit(a)
                if r is not None:
                    return r
        elif e.kind == 'guard':
            pass
    r = visit(p.val) if p.val is not None else None
    if r is not None:
        return r
    for fr in p.state.frames:
        for v in fr.env.values():
            r = visit(v)
            if r is not None:
                return r
    return None


# ---------------------------------------------------------------- g
def _always_raises(fd) -> bool:
    if not isinstance(fd, FuncDef):
        return False
    own = [n for n in walk_own(fd.node)]
    return any(isinstance(n, ast.Raise) for n in own) and not any(isinstance(n, ast.Return) for n in own) \
        and isinstance(fd.node.body[-1], ast.Raise)


def clause_g(c: Check):
    """here-document body: every line up to the first line that equals the marker belongs to the body, in order and
    unchanged; only the marker (success) or the end of the source (syntax error) ends it"""
    ix, fo = c.ix, c.fo
    f = ix.func('exactly_lib.impls.types.string_.parse_rich_string:HereDocParser._parse_contents')
    mk = ix.func('exactly_lib.impls.types.string_.parse_rich_string:_sdv_from_lines')

    class H(Hooks):
        loop_bound = 2

    paths = util.func_paths(ix, fo, f, H())
    c.count(len(paths))
    n_ret = 0
    marker_param = [p_.arg for p_ in f.positional_params() if 'marker' in p_.arg]
    c.require(len(marker_param) == 1, 'C09-g: marker parameter of _parse_contents not found')
    for p in paths:
        lines = []
        for idx, e in enumerate(p.trace):
            if e.kind == 'call' and isinstance(e.node.func, ast.Attribute) and e.node.func.attr == _CAPTURE:
                lines.append(idx)
            if e.kind == 'guard':
                test, truth = e.data
                ok = False
                if isinstance(test, ast.Attribute) and test.attr == 'has_current_line':
                    ok = True
                elif isinstance(test, ast.Compare) and len(test.ops) == 1 and isinstance(test.ops[0], ast.Eq):
                    names = {x.id for x in ast.walk(test) if isinstance(x, ast.Name)}
                    ok = marker_param[0] in names and len(names) == 2 and not any(
                        isinstance(x, ast.Call) for x in ast.walk(test))
                c.expect(ok, 'C09-g', 'here-document/only-marker-or-end-of-source-ends-the-body',
                         'the body of a here-document also depends on the condition `%s`' % unparse(test),
                         '%s:%d' % (f.module.relpath, test.lineno))
        if p.kind == 'return':
            o = p.val.origin if isinstance(p.val, Sym) else None
            if o and o[0] == 'call' and o[1] == mk.key:
                n_ret += 1
                body = o[2][0] if o[2] else None
                items = body.items if isinstance(body, ListVal) else None
                want = lines[:-1]   # every captured line but the marker line
                got = []
                for x in items or []:
                    xo = x.origin if isinstance(x, Sym) else None
                    got.append(xo[5] if xo and xo[0] == 'call' else None)
                c.expect(items is not None and got == want, 'C09-g', 'here-document/body-is-the-lines-before-the-marker',
                         'with %d lines before the marker the body holds lines %s of the source' % (
                             len(want), [lines.index(g) if g in lines else '?' for g in got] if items is not None else '?'),
                         f.loc())
            elif o and o[0] == 'call' and _always_raises(ix.try_lookup(o[1]) if ':' in o[1] else None):
                # `return _raise_...()`: the end of the source was reached without the marker
                c.expect(not any(t is True for t in [e.data[1] for e in p.trace if e.kind == 'guard'][-1:]), 'C09-g',
                         'here-document/missing-marker-is-an-error', 'the missing-marker error is raised although a '
                                                                     'line was available', f.loc())
            else:
                c.bad('C09-g', 'here-document/result', 'the here-document is not built from its lines (%s)' % util.describe(p.val),
                      f.loc())
    c.floor('C09-g', 'completed here-documents analysed', n_ret, 2)
    # the text of the body: `_sdv_from_lines(lines)` parses, for every list of lines, exactly l0 '\n' l1 '\n' ...
    # (symbolic strings: each li stands for any string, the empty one included)
    from ..absint import StrCat

    class HS(Hooks):
        def inline(self, fd, st):
            return fd.module.name.startswith('exactly_lib.util.str_')

    lp = mk.positional_params()[0].arg
    n_lists = 0
    for width in (0, 1, 2, 3):
        it = Interp(ix, fo, HS())
        syms = [Sym('line%d' % i) for i in range(width)]
        lines = ListVal([StrCat([x]) for x in syms])
        want_parts = []
        for x in syms:
            want_parts += [x, K('\n')]
        n_lists += 1
        for p in it.run_function(mk, {lp: lines}):
            c.count()
            if p.kind != 'return':
                c.bad('C09-g', 'here-document/text/%d-lines' % width, '_sdv_from_lines raises for %d lines' % width, mk.loc())
                continue
            o = p.val.origin if isinstance(p.val, Sym) else None
            text = o[2][0] if o and o[0] == 'call' and o[1].endswith(':string_sdv_from_string') and len(o[2]) == 1 else None
            sc = text if isinstance(text, StrCat) else (StrCat([text]) if isinstance(text, K) and isinstance(text.v, str) else None)
            c.require(sc is not None, 'C09-g: the text a here-document of %d lines is parsed from is not understood (%s)' % (
                width, util.describe(text) if text is not None else util.describe(p.val)))
            empties = [x for e in p.trace if e.kind == 'str-empty' for x in e.data]
            got, want = sc.key(empties), StrCat(want_parts).key(empties)
            c.expect(got == want, 'C09-g', 'here-document/text/%d-lines' % width,
                     'the body of a here-document with %d lines%s is parsed from the text %r (expected every line '
                     'followed by a new-line: %r)' % (
                         width, ' (%d of them empty)' % len(empties) if empties else '', sc, StrCat(want_parts)), mk.loc())
    c.floor('C09-g', 'line lists the text of a here-document is evaluated on', n_lists, 4)


# ---------------------------------------------------------------- h
def clause_h(c: Check):
    """a quoted word is never an option: the two ways an option token is recognised both exclude quoted tokens -
    (1) option_parsing.matches is given the token's source string (quotes included), (2) the token matcher built by
    is_option demands an unquoted token, and _Equals.matches honours that demand"""
    ix, fo = c.ix, c.fo
    om = ix.func('exactly_lib.util.cli_syntax.option_parsing:matches')
    ioa = ix.func('exactly_lib.section_document.element_parsers.misc_utils:is_option_argument')
    from ..core import ancestors

    def dominated_by_source_string_guard(f, node, depth=0) -> bool:
        """the call is reached only after `is_option_argument(<token>.source_string)` held: an earlier statement of
        the function body is `if not is_option_argument(X.source_string): return / raise`; or the function is
        module-private and every one of its call sites is dominated in that way"""
        if f is None or depth > 4:
            return False
        top = node
        for a in ancestors(node):
            if a is f.node:
                break
            top = a
        body = f.node.body
        if top in body:
            for stmt in body[:body.index(top)]:
                if not (isinstance(stmt, ast.If) and isinstance(stmt.test, ast.UnaryOp) and isinstance(stmt.test.op, ast.Not)
                        and isinstance(stmt.test.operand, ast.Call) and stmt.body
                        and isinstance(stmt.body[-1], (ast.Return, ast.Raise)) and not stmt.orelse):
                    continue
                call = stmt.test.operand
                if ix.callee(f.module, f, call) == ioa and len(call.args) == 1:
                    a = util.resolve_temp(f, call.args[0])
                    if isinstance(a, ast.Attribute) and a.attr == 'source_string':
                        return True
        if f.cls is None and f.name.startswith('_') and f.parent is None:
            sites = util.call_sites_of(ix, f)
            return bool(sites) and all(dominated_by_source_string_guard(s_.func, s_.node, depth + 1) for s_ in sites)
        return False

    n = 0
    for site in util.call_sites_of(ix, om):
        node, f, m = site.node, site.func, site.module
        if len(node.args) != 2:
            continue
        n += 1
        a = util.resolve_temp(f, node.args[1])
        ok = isinstance(a, ast.Attribute) and a.attr == 'source_string'
        how = 'source-string'
        if not ok:
            ok = dominated_by_source_string_guard(f, node)
            how = 'after is_option_argument(<token>.source_string)'
        c.expect(ok, 'C09-h', 'option-match@%s' % site.where,
                 'an option is matched against %s - not against the source string of the token, and not after the '
                 'source string has been seen to have option syntax (a quoted word that spells an option would be '
                 'taken for the option)' % unparse(a), '%s:%d' % (m.relpath, node.lineno), detail=how)
    c.floor('C09-h', 'option matches', n, 7)
    TM = 'exactly_lib.util.parse.token_matchers'
    eq = ix.cls(TM + ':_Equals')
    init = ix.class_member(eq, '__init__')
    for fname in ('is_option', 'is_unquoted_and_equals'):
        f = ix.func(TM + ':' + fname)
        ok = False
        for p in util.func_paths(ix, fo, f, Hooks()):
            con = util.constructed(ix, p.val) if p.kind == 'return' else None
            if con is not None and con[0] == eq.key:
                names = [p_.arg for p_ in init.positional_params()[1:]]
                given = dict(zip(names, con[1]))
                given.update(con[2])
                flag = given.get('must_be_unquoted')
                if flag is None:
                    pos = init.positional_params()
                    for p_, d in zip(pos[len(pos) - len(init.node.args.defaults):], init.node.args.defaults):
                        if p_.arg == 'must_be_unquoted':
                            flag = K(fo.fold(init.module, None, d))
                ok = isinstance(flag, K) and flag.v is True
            elif con is not None:
                # another matcher class: judged by its own matches method below
                ok = con[0].endswith('_IsUnquotedAndEqualsAny')
        c.expect(ok, 'C09-h', TM.split('.')[-1] + '.' + fname,
                 '%s builds a token matcher that does not demand an unquoted token' % fname, f.loc())
    # _Equals.matches: decision table over (must_be_unquoted, token quoted)
    tok = ix.cls(TK + ':Token')
    tt = fo.enum_members(ix.cls(TK + ':TokenType'))
    mt = ix.class_member(eq, 'matches')
    for must in (True, False):
        for quoted in (True, False):
            it = Interp(ix, fo, Hooks())
            st = State()
            obj = it.new_obj(eq)
            st.heap[(obj.oid, 'must_be_unquoted')] = K(must)
            st.heap[(obj.oid, 'value')] = K('-opt')
            rec = Record(tok, {'token_type': tt['QUOTED'] if quoted else tt['PLAIN'], 'string': '-opt',
                               'source_string': "'-opt'" if quoted else '-opt'})
            res = set()
            for p in it.run_function(mt, {mt.positional_params()[1].arg: K(rec)}, st, recv=obj):
                res.add(p.val.v if p.kind == 'return' and isinstance(p.val, K) else '?')
            want = not (must and quoted)
            c.expect(res == {want}, 'C09-h', '_Equals.matches/must_be_unquoted=%s/quoted=%s' % (must, quoted),
                     'a %s token spelling the value matches=%s with must_be_unquoted=%s (expected %s)' % (
                         'quoted' if quoted else 'plain', sorted(map(str, res)), must, want), mt.loc())


# ---------------------------------------------------------------- i
def clause_i(c: Check):
    """a quoted reference is a string: the string parsers may answer "this is just a reference to the symbol NAME"
    (`Either.of_left(..)` - the caller then takes the symbol itself, e.g. splices a list symbol into a list) only for
    an *unquoted* token; `"@[L]@"` in soft quotes is the string made of L's elements. On every path of the parsers in
    `impls.types.string_.parse_string` that returns `Either.of_left(..)` a truth test of `<token>.is_plain` has held
    (helpers of the module inlined)."""
    ix, fo = c.ix, c.fo
    m = ix.module('exactly_lib.impls.types.string_.parse_string')
    either = ix.cls('exactly_lib.util.either:Either')
    of_left = ix.class_member(either, 'of_left')
    c.require(isinstance(of_left, FuncDef), 'C09-i: Either.of_left not found')

    class H(Hooks):
        record_truth_tests = True

        def inline(self, fd, st):
            return fd.module is m and fd.cls is None

    n = 0
    for f in m.all_funcs:
        if f.parent is not None and f.cls is None:
            continue
        if not any(isinstance(x, ast.Attribute) and x.attr == 'of_left' for x in ast.walk(f.node)):
            continue
        for p in util.func_paths(ix, fo, f, H()):
            if p.kind != 'return':
                continue
            o = p.val.origin if isinstance(p.val, Sym) else None
            if not (o and o[0] == 'call' and o[1] == of_left.key):
                continue
            n += 1
            plain = False
            evs = p.trace
            for i, e in enumerate(evs):
                if e.kind != 'truth-test':
                    continue
                v, test = e.data
                base, names = util.attr_chain(v)
                if names[-1:] != ('is_plain',):
                    continue
                truth = next((g.data[1] for g in evs[i + 1:] if g.kind == 'guard' and g.data[0] is test), None)
                if truth is None and isinstance(v, K):
                    truth = bool(v.v)
                if truth is True:
                    plain = True
            c.expect(plain, 'C09-i', 'bare-reference-only-from-plain-token/%s' % f.key,
                     '%s answers "just a reference to a symbol" (Either.of_left) on a path that has not established that '
                     'the token is unquoted: a soft-quoted "@[L]@" is then taken for the symbol L itself - a list is '
                     'spliced in instead of being the one string of its elements' % f.key.split(':')[-1], f.loc())
    c.floor('C09-i', 'paths of the string parsers that answer with a bare symbol reference', n, 2)


# ---------------------------------------------------------------- j
def clause_j(c: Check):
    """TAB "one alphabet for symbol names": a name that `def` accepts can be referenced. `is_symbol_name` (the check
    of a defined name) and the reference scanner of `symbol_syntax` must use the same character predicate. When the
    scanner is written with a regular expression, the character classes of the expression (parsed with the regex
    parser of the standard library - the pattern is data, nothing is matched) are compared with it: a class of ASCII
    ranges only (`[0-9a-zA-Z_]`) is not `str.isalnum`, which accepts every Unicode letter and digit - `@[größe]@`
    would be left as literal text although `def string größe` is accepted."""
    ix, fo = c.ix, c.fo
    m = ix.module('exactly_lib.symbol.symbol_syntax')
    isn = ix.func('exactly_lib.symbol.symbol_syntax:is_symbol_name')
    preds = {n.func.attr for n in ast.walk(isn.node) if isinstance(n, ast.Call) and isinstance(n.func, ast.Attribute)
             and n.func.attr in ('isalnum', 'isalpha', 'isdigit', 'isidentifier', 'isascii')}
    c.require(preds, 'C09-j: the character predicate of is_symbol_name not recognised')
    unicode_names = 'isalnum' in preds and 'isascii' not in preds
    import re as _re
    try:
        from re import _parser as _rp
    except ImportError:   # Python < 3.11
        import sre_parse as _rp
    n_re = 0
    for node in ast.walk(m.tree):
        if not (isinstance(node, ast.Call) and dotted_name(node.func) in ('re.compile', 're.search', 're.match', 're.finditer', 're.fullmatch')):
            continue
        for s_ in ast.walk(node.args[0]) if node.args else []:
            if not (isinstance(s_, ast.Constant) and isinstance(s_.value, str) and '[' in s_.value):
                continue
            n_re += 1
            try:
                parsed = _rp.parse(s_.value)
            except Exception:
                continue
            ascii_only = []

            def walk(items):
                for op, av in items:
                    if str(op) == 'IN':
                        kinds = {str(k) for k, _ in av}
                        if 'RANGE' in kinds and 'CATEGORY' not in kinds and 'NEGATE' not in kinds:
                            ascii_only.append(s_.value)
                    elif isinstance(av, tuple):
                        for x in av:
                            if hasattr(x, 'data'):
                                walk(x.data)
                            elif isinstance(x, list):
                                for y in x:
                                    if hasattr(y, 'data'):
                                        walk(y.data)

            walk(parsed.data)
            if unicode_names:
                c.expect(not ascii_only, 'C09-j', 'name-alphabet/regex@%d' % node.lineno,
                         'symbol_syntax scans with the expression %r, whose character class is a list of ASCII ranges, while '
                         'is_symbol_name accepts every str.isalnum character: a symbol whose name holds a non-ASCII letter '
                         'can be defined but a reference to it is not recognised (left as literal text)' % s_.value,
                         '%s:%d' % (m.relpath, node.lineno))
    # the scanner's own predicate, when it is written with str predicates
    scan = {n.func.attr for f in m.all_funcs if f is not isn for n in ast.walk(f.node)
            if isinstance(n, ast.Call) and isinstance(n.func, ast.Attribute)
            and n.func.attr in ('isalnum', 'isalpha', 'isdigit', 'isidentifier', 'isascii')}
    if scan:
        c.expect(scan == preds, 'C09-j', 'name-alphabet/predicates',
                 'the reference scanner uses %s, is_symbol_name uses %s' % (sorted(scan), sorted(preds)), m.relpath)
    c.require(scan or n_re, 'C09-j: neither a character predicate nor a regular expression found in the reference scanner')


# ---------------------------------------------------------------- k
def clause_k(c: Check):
    """EVAL `:> TEXT-UNTIL-END-OF-LINE` (and every other "rest of the line is one string" argument): the string is what
    ONE reading of the rest of the current line gives - optionally stripped - and nothing else: no second reading,
    no look at the following lines, no piece cut off.  Both helpers are evaluated with a symbolic token parser for
    strip_space true / false; the text handed to the string constructor must be the result of the single reading."""
    ix, fo = c.ix, c.fo
    PS = 'exactly_lib.impls.types.string_.parse_string'
    READS = ('consume_remaining_part_of_current_line_as_string',
             'consume_current_line_as_string_of_remaining_part_of_current_line')
    n = 0
    for fname, want_read in (('parse_rest_of_line_as_single_string', READS[0]),
                             ('parse_rest_of_line_as_single_string_and_consume_line', READS[1])):
        f = ix.func(PS + ':' + fname)
        users = util.call_sites_of(ix, f)
        for strip in (True, False):
            class H(Hooks):
                loop_bound = 2

                def inline(self, fd, st):
                    return fd.module is f.module and fd is not f and fd.name.startswith('_')

            tp = Sym('token-parser', nullness=False, truth=True)
            pp = f.positional_params()
            args = {pp[0].arg: tp}
            if len(pp) > 1:
                args[pp[1].arg] = K(strip)
            for p in util.func_paths(ix, fo, f, H(), args=args):
                n += 1
                c.count()
                key = '%s/strip_space=%s' % (fname, strip)
                def receiver_of(ev):
                    cv = ev.data.get('callee_val')
                    if ev.data.get('recv') is not None:
                        return ev.data['recv']
                    return cv.origin[1] if isinstance(cv, Sym) and cv.origin and cv.origin[0] == 'attr' else None

                reads = [e for e in p.calls() if isinstance(e.node.func, ast.Attribute)
                         and receiver_of(e) is not None and util.root_sym(receiver_of(e)) is tp]
                names = [e.node.func.attr for e in reads]
                ok = names == [want_read]
                text = None
                if p.kind == 'return':
                    o = util.root_sym(p.val).origin if isinstance(p.val, Sym) else None
                    if o and o[0] == 'call' and o[2]:
                        text = o[2][0]

                def is_reading(v):
                    r = util.root_sym(v) if isinstance(v, Sym) else None
                    return r is not None and r.origin and r.origin[0] == 'call' and str(r.origin[1]).endswith(want_read)

                stripped = False
                t = text
                r = util.root_sym(t) if isinstance(t, Sym) else None
                if r is not None and r.origin and r.origin[0] == 'call' and str(r.origin[1]).endswith('str.strip') \
                        and not r.origin[2] and len(r.origin) > 5 and isinstance(r.origin[5], int):
                    stripped = True
                    t = receiver_of(p.trace[r.origin[5]])
                ok = ok and (is_reading(t) if t is not None else False) and stripped == strip
                c.expect(ok, 'C09-k', key,
                         'the text of a rest-of-line string is %s after the readings %s (expected: the one reading `%s`%s)' % (
                             util.describe(text) if text is not None else p.kind, names, want_read,
                             ', stripped' if strip else ''), f.loc())
        c.floor('C09-k', 'users of ' + fname, len(users), 1)
    c.floor('C09-k', 'paths of the rest-of-line string helpers', n, 4)


# ---------------------------------------------------------------- l
def clause_l(c: Check):
    """EVAL of the step that cuts a string at the next symbol reference (`symbol_syntax._extract_fragment`): whenever
    the scanner has FOUND a reference `@[NAME]@`, the fragments given back end with the symbol fragment of that name -
    on every path (a found reference is never turned back into text, whatever stands before it) - and the scan goes
    on with the text after the reference; when none is found the whole text is one constant."""
    ix, fo = c.ix, c.fo
    SS = 'exactly_lib.symbol.symbol_syntax'
    ef = ix.func(SS + ':_extract_fragment')
    find = ix.func(SS + ':_find_symbol_reference')
    frag = ix.cls(SS + ':Fragment')
    name, rest, pos = Sym('found-name', nullness=False, truth=True), Sym('text-after-the-reference'), Sym('position')
    pos.neq = (-1,)   # a found reference has a position
    hooks = ForkHooks(ix, loop_bound=1)
    hooks.fork_on(lambda d, n, cv: d == find,
                  [('none', lambda: ListVal([K(-1), K(''), K('')], True)),
                   ('found', lambda: ListVal([pos, name, rest], True))])
    hooks.inline_set = {f_ for f_ in ef.module.funcs_by_node.values() if f_.cls is None and f_ is not find and f_ is not ef
                        and not f_.is_generator}
    n = 0
    text = Sym('the-text', nullness=False)
    for p in util.func_paths(ix, fo, ef, hooks, args={ef.positional_params()[0].arg: text}):
        labs = labels_of(p)
        if not labs:
            continue
        n += 1
        c.count()
        items = None
        if p.kind == 'return':
            it_ = Interp(ix, fo, Hooks())
            items = it_.concrete_items(p.val)
        c.require(items is not None and len(items) == 2, 'C09-l: the result of _extract_fragment is not a pair (%s)' % (
            util.describe(p.val) if p.kind == 'return' else p.kind))
        remainder, frs = items
        fr_items = Interp(ix, fo, Hooks()).concrete_items(frs)
        c.require(fr_items is not None, 'C09-l: the fragment list of _extract_fragment is not understood')
        shapes = []
        for x in fr_items:
            con = util.constructed(ix, x)
            if con is None or con[0] != frag.key:
                shapes.append(('?', util.describe(x)))
                continue
            by = con[3]
            vals = list(by.values())
            is_sym = next((v.v for v in vals if isinstance(v, K) and isinstance(v.v, bool)), None)
            value = next((v for v in vals if not (isinstance(v, K) and isinstance(v.v, bool))), None)
            shapes.append(('symbol' if is_sym else 'constant', value))
        if labs == ['found']:
            ok = bool(shapes) and shapes[-1][0] == 'symbol' and util.root_sym(shapes[-1][1]) is name \
                and all(k == 'constant' for k, _ in shapes[:-1]) and util.root_sym(remainder) is rest
            c.expect(ok, 'C09-l', '_extract_fragment/found-reference-is-a-symbol-fragment',
                     'where the scanner has found a reference the fragments are %s and the scan goes on with %s: the '
                     'reference is not (only) given back as the symbol fragment of its name, so it is neither '
                     'substituted nor reported as a reference' % (
                         [(k, util.describe(v)) for k, v in shapes], util.describe(remainder)), ef.loc())
        else:
            ok = len(shapes) == 1 and shapes[0][0] == 'constant' and util.root_sym(shapes[0][1]) is text \
                and isinstance(remainder, K) and remainder.v == ''
            c.expect(ok, 'C09-l', '_extract_fragment/no-reference-whole-text-constant',
                     'without a reference the fragments are %s' % [(k, util.describe(v)) for k, v in shapes], ef.loc())
    c.floor('C09-l', 'paths of _extract_fragment', n, 3)


# ---------------------------------------------------------------- m
def clause_m(c: Check):
    """the kind of quoting of a quoted token (soft: references substituted, hard: not) is read from the FIRST character
    of its source text - the opening quote - in every property of Token that tells the kinds apart (the closing
    character of a token made of adjacent fragments may belong to another kind of quote)."""
    ix, fo = c.ix, c.fo
    tok = ix.cls('exactly_lib.util.parse.token:Token')
    n = 0
    for name in ('quote_type', 'is_hard_quote_type'):
        f = tok.methods.get(name)
        c.require(f is not None, 'C09-m: Token.%s not found' % name)
        for x in walk_own(f.node):
            if isinstance(x, ast.Compare):
                for side in [x.left] + list(x.comparators):
                    if isinstance(side, ast.Subscript):
                        n += 1
                        idx = fo.fold(f.module, f, side.slice)
                        c.expect(idx == 0 and not isinstance(idx, bool), 'C09-m', 'Token.%s/first-character' % name,
                                 'the kind of quoting is read from character %s of the source text, not from the opening '
                                 'quote' % unparse(side.slice), f.loc())
    c.floor('C09-m', 'places where Token reads the quote character', n, 2)


# ---------------------------------------------------------------- n
def clause_n(c: Check):
    """TS of the lexer of a token stream: a lexer that has raised (an unbalanced quote in a here-document body or a
    `:>` text is legal - the error only says that the head token cannot be read as a token) is in an undefined state,
    with the partial token buffered; before the stream is used again it is REPLACED by a new one from the lexer
    factory - in every handler of an exception of `get_token()`.  Otherwise the tokens that follow on later lines of
    the same instruction come out garbled and a valid instruction is a syntax error."""
    ix = c.ix
    ts = ix.cls(TS + ':TokenStream')
    nl = ix.func(TS + ':TokenStream._new_lexer')
    n = 0
    for f in ts.methods.values():
        for tr in walk_own(f.node):
            if not isinstance(tr, ast.Try):
                continue
            reads = [x for st_ in tr.body for x in ast.walk(st_)
                     if isinstance(x, ast.Call) and isinstance(x.func, ast.Attribute) and x.func.attr == 'get_token']
            if not reads:
                continue
            for h in tr.handlers:
                n += 1
                renewed = False
                for x in ast.walk(h):
                    if isinstance(x, ast.Assign) and any(isinstance(t_, ast.Attribute) and t_.attr == '_lexer' for t_ in x.targets) \
                            and isinstance(x.value, ast.Call) and ix.callee(f.module, f, x.value) is nl:
                        renewed = True
                raises = any(isinstance(x, ast.Raise) for x in ast.walk(h))
                c.expect(renewed or raises, 'C09-n', 'lexer-replaced-after-it-raised/%s' % f.key,
                         'after `get_token()` has raised the stream keeps using the same lexer (it is not replaced by '
                         '_new_lexer()): the tokens after an unbalanced quote in a here-document body are garbled',
                         '%s:%d' % (f.module.relpath, h.lineno))
    c.floor('C09-n', 'handlers of a failing get_token()', n, 1)
