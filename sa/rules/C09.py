"""C09 String syntax: lexer configuration and quoting routing (DESIGN.md section 5, clauses a-d)."""
import ast
from typing import List, Optional

from ..core import Index, FuncDef, ClassDef, External, AnalysisError, unparse, walk_own, dotted_name, parent
from ..fold import Folder, Record, EnumMember, Ref, is_unknown, single_return_expr
from ..absint import Interp, Hooks, State, K, Sym, Obj, Exc, NONE, ListVal
from ..report import Check
from .. import util
from .common import ForkHooks, labels_of

TS = 'exactly_lib.section_document.element_parsers.token_stream'
PS = 'exactly_lib.impls.types.string_.parse_string'
SS = 'exactly_lib.symbol.symbol_syntax'
TK = 'exactly_lib.util.parse.token'

REQUIRED_LEXER_CONF = {'whitespace_split': True, 'commenters': '', 'escape': ''}


def check(c: Check):
    c.explanation = (
        'Configuration obligation of every shlex lexer that tokenises test-case source (posix mode, whitespace '
        'splitting, no comment characters inside arguments, no escape characters), decision table of the quoting '
        'routing (a hard-quoted token is one constant and is never searched for symbol references; every other token '
        'is), folded delimiter constants against the literal offsets that use them, and typestate of the token '
        'stream for an unterminated quote (the lexer error is kept and raised as TokenSyntaxError by the next '
        'consume; every handler of it converts to the instruction syntax error). Decides clauses a-d of DESIGN.md '
        'C09; not token boundaries, here-document bodies or positions.')
    clause_a(c)
    clause_b(c)
    clause_c(c)
    clause_d(c)


# ---------------------------------------------------------------- a
def lexer_configuration(c: Check, fd: FuncDef):
    """(posix argument, {attribute: folded value}) of the shlex.shlex object constructed in fd, per path"""
    ix, fo = c.ix, c.fo
    out = []
    for p in util.func_paths(ix, fo, fd, Hooks()):
        lexers = [e for e in p.calls() if isinstance(e.data['callee'], External) and e.data['callee'].dotted == 'shlex.shlex']
        if not lexers:
            continue
        e = lexers[0]
        posix = e.data['kwargs'].get('posix')
        lex_idx = p.trace.index(e)
        attrs = {}
        for ev in p.trace:
            if ev.kind == 'setattr':
                base, attr, v = ev.data
                r = util.root_sym(base)
                if isinstance(r, Sym) and r.origin and r.origin[0] == 'call' and r.origin[5] == lex_idx:
                    attrs[attr] = v.v if isinstance(v, K) else util.describe(v)
        out.append((posix.v if isinstance(posix, K) else None, attrs, p))
    return out


def clause_a(c: Check):
    ix = c.ix
    nl = ix.func(TS + ':TokenStream._new_lexer')
    confs = lexer_configuration(c, nl)
    c.require(confs, 'C09-a: no shlex.shlex construction in TokenStream._new_lexer')
    for posix, attrs, p in confs:
        c.expect(posix is True, 'C09-a', 'TokenStream._new_lexer/posix', 'the lexer is not in posix mode (%r)' % posix,
                 nl.loc())
        for attr, want in sorted(REQUIRED_LEXER_CONF.items()):
            got = attrs.get(attr, '<shlex default>')
            c.expect(got == want, 'C09-a', 'TokenStream._new_lexer/' + attr,
                     'lexer.%s is %r (the documented syntax needs %r%s)' % (
                         attr, got, want,
                         ": a `#` inside an argument would start a comment and the rest of the line be dropped"
                         if attr == 'commenters' else ''), nl.loc())
        ret = util.root_sym(p.val) if p.kind == 'return' else None
        c.expect(isinstance(ret, Sym) and util.origin_call_key(ret) == 'shlex.shlex', 'C09-a',
                 'TokenStream._new_lexer/returns-configured-lexer', 'the configured lexer is not returned', nl.loc())
    c.sample({'TokenStream lexer': confs[0][1]})
    # every lexer the stream uses comes from _new_lexer
    tsc = ix.cls(TS + ':TokenStream')
    n = 0
    for meth, v, st in ix.self_attr_assignments(tsc, '_lexer'):
        n += 1
        c.expect(isinstance(v, ast.Call) and ix.callee(meth.module, meth, v) == nl, 'C09-a',
                 'TokenStream/%s/lexer-from-_new_lexer' % meth.name,
                 'the lexer assigned in %s is %s' % (meth.name, unparse(v)), meth.loc())
    c.floor('C09-a', 'assignments of TokenStream._lexer', n, 2)
    # who else constructs a lexer for source text
    others = []
    for m in ix.modules_mentioning('shlex'):
        for node in ast.walk(m.tree):
            if isinstance(node, ast.Call):
                f = m.enclosing_func(node)
                d = ix.callee(m, f, node)
                if isinstance(d, External) and d.dotted in ('shlex.shlex', 'shlex.split'):
                    where = f.key if f else m.name
                    if where != nl.key:
                        others.append('%s (%s)' % (where, d.dotted))
    allowed_prefixes = ('exactly_lib.cli.', 'exactly_lib.section_document.element_parsers.token_parse:',
                        'exactly_lib.section_document.element_parsers.misc_utils:split_arguments_list_string')
    for o in others:
        c.expect(o.startswith(allowed_prefixes), 'C09-a', 'other-lexer/' + o.split(' ')[0],
                 'another shlex lexer tokenises source text in %s (its configuration is not the documented one)' % o,
                 None)
    c.note('informational: other shlex uses (command line options, suite file names, [conf] directory arguments): %s'
           % others)


# ---------------------------------------------------------------- b
def clause_b(c: Check):
    ix, fo = c.ix, c.fo
    tok = ix.cls(TK + ':Token')
    tt = fo.enum_members(ix.cls(TK + ':TokenType'))
    split = ix.func(SS + ':split')
    const = ix.func(SS + ':constant')

    class H(Hooks):
        def inline(self, fd, st):
            return fd.module.name == TK or fd.module.name == 'exactly_lib.util.either'

    cases = [
        ('hard-quoted', Record(tok, {'token_type': tt['QUOTED'], 'string': 'a @[S]@', 'source_string': "'a @[S]@'"}), False),
        ('soft-quoted', Record(tok, {'token_type': tt['QUOTED'], 'string': 'a @[S]@', 'source_string': '"a @[S]@"'}), True),
        ('plain', Record(tok, {'token_type': tt['PLAIN'], 'string': 'a@[S]@', 'source_string': 'a@[S]@'}), True),
    ]
    for fn in ('parse_fragments_from_token', 'parse_sym_ref_or_fragments_from_token'):
        f = ix.func(PS + ':' + fn)
        for label, rec, want_split in cases:
            for p in util.func_paths(ix, fo, f, H(), args={f.positional_params()[0].arg: K(rec)}):
                splits = [e for e in p.calls() if e.data['callee'] == split]
                consts = [e for e in p.calls() if e.data['callee'] == const]
                key = '%s/%s' % (fn, label)
                if want_split:
                    ok = len(splits) == 1 and isinstance(splits[0].data['args'][0], K) \
                         and splits[0].data['args'][0].v == rec.args['string']
                    c.expect(ok, 'C09-b', key, 'a %s token is not searched for symbol references (split calls: %d)' % (
                        label, len(splits)), f.loc())
                else:
                    ok = not splits and len(consts) == 1 and isinstance(consts[0].data['args'][0], K) \
                         and consts[0].data['args'][0].v == rec.args['string']
                    c.expect(ok, 'C09-b', key,
                             'a hard-quoted token is %s' % ('searched for symbol references' if splits else
                                                            'not taken as one constant'), f.loc())
    # Token: quoting classification
    for label, src, hard in (('hard', "'x'", True), ('soft', '"x"', False)):
        rec = Record(tok, {'token_type': tt['QUOTED'], 'string': 'x', 'source_string': src})
        v = fo.record_attr(rec, 'is_hard_quote_type')
        c.expect(v is hard, 'C09-b', 'Token.is_hard_quote_type/' + label,
                 'a token written %s is classified hard-quoted=%r' % (src, v), tok.loc())
    hq = fo.fold_path(TK + ':HARD_QUOTE_CHAR')
    sq = fo.fold_path(TK + ':SOFT_QUOTE_CHAR')
    c.expect(hq == "'" and sq == '"', 'C09-b', 'quote-characters', 'quote characters are %r / %r' % (hq, sq), TK)
    # TokenStream classifies QUOTED by the first source character being a lexer quote
    cons = ix.func(TS + ':TokenStream.consume')
    ok = any(isinstance(n, ast.IfExp) and 'quotes' in unparse(n.test) and '[0]' in unparse(n.test)
             for n in ast.walk(cons.node))
    c.expect(ok, 'C09-b', 'TokenStream.consume/token-type', 'the token type is not derived from the first source '
                                                            'character being a quote', cons.loc())


# ---------------------------------------------------------------- c
def clause_c(c: Check):
    ix, fo = c.ix, c.fo
    b = fo.fold_path(SS + ':SYMBOL_REFERENCE_BEGIN')
    e = fo.fold_path(SS + ':SYMBOL_REFERENCE_END')
    c.expect(b == '@[' and e == ']@', 'C09-c', 'delimiters', 'symbol reference delimiters are %r %r' % (b, e), SS)
    c.require(isinstance(b, str) and isinstance(e, str), 'C09-c: delimiters do not fold')
    n = 0
    for fn in ('_find_symbol_reference', 'parse_maybe_symbol_reference'):
        f = ix.func(SS + ':' + fn)
        for node in ast.walk(f.node):
            if isinstance(node, ast.Constant) and isinstance(node.value, int) and not isinstance(node.value, bool) \
                    and node.value not in (0, 1, -1):
                n += 1
                c.expect(abs(node.value) == len(b) == len(e), 'C09-c', '%s/offset-%d' % (fn, node.value),
                         'literal offset %d does not equal the delimiter length %d/%d' % (node.value, len(b), len(e)),
                         '%s:%d' % (f.module.relpath, node.lineno))
    c.floor('C09-c', 'literal delimiter offsets', n, 4)


# ---------------------------------------------------------------- d
def clause_d(c: Check):
    ix, fo = c.ix, c.fo
    tsc = ix.cls(TS + ':TokenStream')
    cons = ix.class_member(tsc, 'consume')
    tse = ix.cls(TS + ':TokenSyntaxError')
    # (1) pending error -> raised
    it = Interp(ix, fo, Hooks())
    st = State()
    obj = it.new_obj(tsc)
    st.heap[(obj.oid, '_head_syntax_error_description')] = Sym('pending_error', truth=True, nullness=False)
    for p in it.run_function(cons, st=st, recv=obj):
        c.expect(p.kind == 'raise' and isinstance(p.val, Exc) and p.val.cls == tse, 'C09-d',
                 'TokenStream.consume/pending-error-raised',
                 'a token with invalid quoting is consumed without TokenSyntaxError (%s)' % p.kind, cons.loc())
    # (2) lexer error -> remembered
    hooks = ForkHooks(ix)
    hooks.fork_on(lambda d, n, cv: isinstance(n.func, ast.Attribute) and n.func.attr == 'get_token',
                  [('value-error', ('raise', External('builtins.ValueError')))])
    it = Interp(ix, fo, hooks)
    st = State()
    obj = it.new_obj(tsc)
    st.heap[(obj.oid, '_head_syntax_error_description')] = NONE
    n = 0
    for p in it.run_function(cons, st=st, recv=obj):
        n += 1
        desc = p.state.heap.get((obj.oid, '_head_syntax_error_description'))
        head = p.state.heap.get((obj.oid, '_head_token'))
        remembered = desc is not None and not (isinstance(desc, K) and not desc.v)
        c.expect(p.kind == 'return' and remembered and isinstance(head, K) and head.v is None, 'C09-d',
                 'TokenStream.consume/lexer-error-remembered',
                 'an unterminated quote is not remembered as a syntax error of the head token (description %s, head %s, '
                 'ends by %s)' % (util.describe(desc), util.describe(head), p.kind), cons.loc())
    c.floor('C09-d', 'paths of consume with a lexer error', n, 1)
    # (3) look-ahead state
    las = ix.class_member(tsc, 'look_ahead_state')
    lst = fo.enum_members(ix.cls(TS + ':LookAheadState'))
    for label, head, desc, want in (('token', Sym('tok', truth=True, nullness=False), NONE, 'HAS_TOKEN'),
                                    ('null', NONE, NONE, 'NULL'),
                                    ('error', NONE, Sym('err', truth=True, nullness=False), 'SYNTAX_ERROR')):
        it = Interp(ix, fo, Hooks())
        st = State()
        obj = it.new_obj(tsc)
        st.heap[(obj.oid, '_head_token')] = head
        st.heap[(obj.oid, '_head_syntax_error_description')] = desc
        outs = set()
        for p in it.run_function(las, st=st, recv=obj):
            outs.add(p.val.v.name if p.kind == 'return' and isinstance(p.val, K) and isinstance(p.val.v, EnumMember) else '?')
        c.expect(outs == {want}, 'C09-d', 'look_ahead_state/' + label, 'state is %s (expected %s)' % (outs, want), las.loc())
    # (4) every handler of TokenSyntaxError converts to the instruction syntax error
    siiae = ix.cls('exactly_lib.section_document.element_parsers.instruction_parser_exceptions:'
                   'SingleInstructionInvalidArgumentException')
    n = 0
    for m in ix.modules_mentioning('TokenSyntaxError'):
        for node in ast.walk(m.tree):
            if isinstance(node, ast.ExceptHandler) and node.type is not None:
                f = m.enclosing_func(node)
                types = node.type.elts if isinstance(node.type, ast.Tuple) else [node.type]
                if any(ix.resolve_static(m, f, t) == tse for t in types):
                    n += 1
                    ok = False
                    for x in ast.walk(node):
                        if isinstance(x, ast.Raise) and x.exc is not None:
                            cal = x.exc if isinstance(x.exc, ast.Call) else None
                            d = ix.callee(m, f, cal) if cal is not None else None
                            if d == siiae or (isinstance(d, ClassDef) and ix.is_subclass(d, siiae)):
                                ok = True
                            if isinstance(d, FuncDef) and d.cls is not None and d.cls.name == 'ParseException':
                                ok = True  # the act phase's syntax error channel (-> SYNTAX_ERROR)
                        if isinstance(x, ast.Call):
                            d = ix.callee(m, f, x)
                            if isinstance(d, FuncDef) and any(isinstance(y, ast.Raise) for y in ast.walk(d.node)) \
                                    and 'error' in d.name:
                                ok = True
                    c.expect(ok, 'C09-d', 'TokenSyntaxError-handler@' + (f.key if f else m.name),
                             'a handler of TokenSyntaxError does not report an instruction syntax error',
                             '%s:%d' % (m.relpath, node.lineno))
    c.floor('C09-d', 'handlers of TokenSyntaxError', n, 4)
    # (5) the token parser checks the look-ahead state before requiring a token
    tp = ix.func('exactly_lib.section_document.element_parsers.token_stream_parser:TokenParser.'
                 '_require_head_token_has_valid_syntax')
    ok = any(isinstance(n_, ast.Call) and isinstance(n_.func, ast.Attribute) and n_.func.attr == 'error_plain'
             for n_ in ast.walk(tp.node))
    c.expect(ok, 'C09-d', 'TokenParser/invalid-head-is-an-error', 'an invalid head token is not reported', tp.loc())
