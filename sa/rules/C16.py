"""C16 Suite run: every case once, verdict OK iff all succeed, reporters agree (DESIGN.md section 5, clauses a-f)."""
import ast
from typing import List, Optional, Dict

from ..core import Index, FuncDef, ClassDef, External, AnalysisError, unparse, walk_own, dotted_name, parent
from ..fold import Folder, Record, EnumMember, Ref, is_unknown
from ..absint import Interp, Hooks, State, K, Sym, Obj, Exc, NONE, ListVal, wrap
from ..report import Check
from .. import util
from .common import ForkHooks, labels_of, check_first_error_wins, suite_reading_method

SP = 'exactly_lib.test_suite.reporters.simple_progress_reporter'
JU = 'exactly_lib.test_suite.reporters.junit'
TCP = 'exactly_lib.processing.test_case_processing'
FR = 'exactly_lib.execution.full_execution.result'
PR = 'exactly_lib.test_suite.processing'
SHR = 'exactly_lib.test_suite.file_reading.suite_hierarchy_reading'
EV = 'exactly_lib.processing.exit_values'

DOCUMENTED_SUCCESS = {'PASS', 'SKIPPED', 'XFAIL'}


def check(c: Check):
    c.explanation = (
        'Folded verdict sets (partition of the nine verdicts into success / JUnit failure / JUnit error), decision '
        'tables of the progress reporter\'s final verdict and of the JUnit counters and per-case elements extracted '
        'by abstract evaluation for every kind of case result (not executed x2, executed x 9 verdicts), typestate of '
        'the per-case loop (exactly one processing per case between begin/end, results recorded in order), '
        'enumeration order, read-error and double-inclusion control flow, and materialisation of glob results inside '
        'the handler that converts pattern errors. Decides clauses a-f of DESIGN.md C16; not XML text or timing.')
    clause_a(c)
    clause_bc(c)
    clause_d(c)
    clause_e(c)
    clause_f(c)
    clause_g(c)
    from .common import sweep_records
    sweep_records(c, 'C16-rec', ['exactly_lib.test_suite'], floor=8)


# ---------------------------------------------------------------- a
def clause_a(c: Check):
    ix, fo = c.ix, c.fo
    U = set(fo.enum_members(ix.cls(FR + ':FullExeResultStatus')).values())
    succ = fo.fold_path(SP + ':SUCCESS_STATUSES')
    fail = fo.fold_path(JU + ':FAIL_STATUSES')
    err = fo.fold_path(JU + ':ERROR_STATUSES')
    for name, v in (('SUCCESS_STATUSES', succ), ('FAIL_STATUSES', fail), ('ERROR_STATUSES', err)):
        c.require(isinstance(v, frozenset) and v <= U, 'C16-a: %s does not fold to a set of verdicts: %r' % (name, v))
    c.expect({m.name for m in succ} == DOCUMENTED_SUCCESS, 'C16-a', 'SUCCESS_STATUSES',
             'the progress reporter counts %s as successful (documented: PASS, SKIPPED, XFAIL)' % sorted(
                 m.name for m in succ), SP)
    c.expect(not (succ & fail) and not (succ & err) and not (fail & err), 'C16-a', 'partition/disjoint',
             'verdict sets overlap: success&failure=%s success&error=%s failure&error=%s' % (
                 sorted(succ & fail), sorted(succ & err), sorted(fail & err)), JU)
    missing = U - succ - fail - err
    c.expect(not missing, 'C16-a', 'partition/total',
             'verdicts %s are neither successful nor a JUnit failure nor a JUnit error: the reporters disagree about '
             'them' % sorted(m.name for m in missing), JU)
    c.sample({'success': sorted(m.name for m in succ), 'failure': sorted(m.name for m in fail),
              'error': sorted(m.name for m in err)})
    sv = 'exactly_lib.test_suite.exit_values'
    for name, code, ident in (('ALL_PASS', 0, 'OK'), ('FAILED_TESTS', 4, 'ERROR'), ('INVALID_SUITE', 3, 'INVALID_SUITE')):
        r = fo.fold_path(sv + ':' + name)
        got = (fo.record_attr(r, 'exit_code'), fo.record_attr(r, 'exit_identifier')) if isinstance(r, Record) else r
        c.expect(got == (code, ident), 'C16-a', 'exit_values.' + name,
                 'suite exit value %s is %r (documented: %d %s)' % (name, got, code, ident), sv)


# ---------------------------------------------------------------- b c
class _InlineReporters(Hooks):
    loop_bound = 1

    def __init__(self, extra=()):
        self.extra = set(extra)

    def inline(self, fd, st):
        if fd in self.extra:
            return True
        if fd.module.name in (EV, FR, 'exactly_lib.execution.result', 'exactly_lib.test_suite.reporting'):
            return True
        return False


def case_kinds(c: Check):
    ix, fo = c.ix, c.fo
    status = fo.enum_members(ix.cls(TCP + ':Status'))
    fers = fo.enum_members(ix.cls(FR + ':FullExeResultStatus'))
    aet = fo.enum_members(ix.cls(TCP + ':AccessErrorType'))
    kinds = []
    for n, m in sorted(fers.items()):
        kinds.append(('EXECUTED/' + n, 'EXECUTED', m, None))
    for n, m in sorted(aet.items()):
        kinds.append(('ACCESS_ERROR/' + n, 'ACCESS_ERROR', None, m))
    kinds.append(('INTERNAL_ERROR', 'INTERNAL_ERROR', None, None))
    return status, kinds


def make_case(c: Check, it: Interp, st: State, status, st_name, verdict, access):
    ix = c.ix
    res_cls = ix.cls(TCP + ':Result')
    full_cls = ix.cls(FR + ':FullExeResult')
    pi_cls = ix.cls('exactly_lib.test_suite.reporting:TestCaseProcessingInfo')
    full = None
    if verdict is not None:
        objs = it.instantiate(full_cls, st, {'status': K(verdict), 'sds': Sym('sds'),
                                             'action_to_check_outcome': Sym('atc'), 'failure_info': Sym('fi')})
        full, st = objs[0]
    rec = Record(res_cls, {'status': status[st_name], 'error_info': Sym('error_info'), 'error_type': access,
                           'execution_result': full})
    pi = Record(pi_cls, {'result': rec, 'duration': Sym('duration')})
    return K((Sym('case', origin=('case',)), pi)), st


def clause_bc(c: Check):
    ix, fo = c.ix, c.fo
    status, kinds = case_kinds(c)
    all_pass = fo.fold_path('exactly_lib.test_suite.exit_values:ALL_PASS')
    failed = fo.fold_path('exactly_lib.test_suite.exit_values:FAILED_TESTS')
    sub_rep = ix.cls('exactly_lib.test_suite.reporting:SubSuiteReporter')
    result_m = ix.class_member(sub_rep, 'result')
    # ---- progress reporter
    pr_cls = ix.cls(SP + ':SimpleProgressRootSuiteReporter')
    vf = ix.class_member(pr_cls, '_valid_suite_exit_value')
    table = {}
    for label, st_name, verdict, access in kinds:
        hooks = _InlineReporters()
        it = Interp(ix, fo, hooks)
        st = State()
        case, st = make_case(c, it, st, status, st_name, verdict, access)
        obj = it.new_obj(pr_cls)
        st.heap[(obj.oid, '_sub_reporters')] = ListVal([Sym('reporter', cls=sub_rep, nullness=False)])

        def on_call(interp, node, callee, callee_def, args, kwargs, s, case=case):
            if callee_def == result_m:
                return [('val', ListVal([case]), s)]
            return None

        hooks.on_call = on_call
        outs = set()
        for p in it.run_function(vf, st=st, recv=obj):
            if p.kind != 'return':
                outs.add('raises:' + util.describe(p.val))
                continue
            items = it.concrete_items(p.val)
            ev = items[-1] if items else None
            num = items[0] if items else None
            if isinstance(ev, K) and ev.v is all_pass:
                outs.add('OK')
            elif isinstance(ev, K) and ev.v is failed:
                outs.add('ERROR')
            elif isinstance(ev, K) and isinstance(ev.v, Record):
                outs.add('%s' % fo.record_attr(ev.v, 'exit_identifier'))
            else:
                outs.add('?' + util.describe(ev))
            c.expect(isinstance(num, K) and num.v == 1, 'C16-b', 'progress/num-tests/' + label,
                     'one case is counted as %s tests' % util.describe(num), vf.loc())
        want = 'OK' if (verdict is not None and verdict.name in DOCUMENTED_SUCCESS) else 'ERROR'
        table[label] = sorted(outs)
        c.expect(outs == {want}, 'C16-b', 'progress/final-verdict/' + label,
                 'a suite whose only case ends %s finishes with %s (documented: %s)' % (label, sorted(outs), want),
                 vf.loc())
    # no case at all -> OK
    hooks = _InlineReporters()
    it = Interp(ix, fo, hooks)
    obj = it.new_obj(pr_cls)
    st = State()
    st.heap[(obj.oid, '_sub_reporters')] = ListVal([])
    for p in it.run_function(vf, st=st, recv=obj):
        items = it.concrete_items(p.val) if p.kind == 'return' else None
        ok = items and isinstance(items[-1], K) and items[-1].v is all_pass
        c.expect(bool(ok), 'C16-b', 'progress/final-verdict/no-cases', 'an empty suite does not finish with OK', vf.loc())
    c.sample({'progress final verdict per single case result': table})
    # report_final_results returns the code of that exit value and prints its identifier
    rf = ix.class_member(pr_cls, 'report_final_results')
    hooks = _InlineReporters()
    it = Interp(ix, fo, hooks)
    for p in it.run_function(rf):
        base, chain = util.attr_chain(p.val) if p.kind == 'return' else (None, ())
        idents = [e.data['args'][0] for e in p.calls() if isinstance(e.node.func, ast.Attribute)
                  and e.node.func.attr == 'write_colored_line']
        b2, ch2 = util.attr_chain(idents[0]) if idents else (None, ())
        ok = chain == ('exit_code',) and ch2 == ('exit_identifier',) and util.root_sym(base) is util.root_sym(b2) \
             and isinstance(util.root_sym(base), Sym) and util.root_sym(base).origin \
             and util.root_sym(base).origin[0] == 'index'
        src = util.root_sym(base).origin[1] if ok else None
        ok = ok and util.origin_call_key(util.root_sym(src)) == vf.key
        c.expect(bool(ok), 'C16-b', 'progress/report_final_results',
                 'the final identifier / exit code are not those computed by _valid_suite_exit_value', rf.loc())

    # ---- junit
    ju_cls = ix.cls(JU + ':JUnitRootSuiteReporter')
    xs = ix.class_member(ju_cls, '_xml_for_suite')
    xc = ix.class_member(ju_cls, '_xml_for_case')
    # the helpers that build the <error> / <failure> elements are found by what they do (they construct an XML
    # element), not by their names; they are interpreted together with _xml_for_case
    jm = ix.module(JU)
    elem_builders = set()
    for f_ in jm.funcs_by_node.values():
        if f_.cls is None and any(isinstance(n_, ast.Call) and isinstance(ix.callee(jm, f_, n_), External)
                                  and ix.callee(jm, f_, n_).dotted.endswith('ElementTree.Element')
                                  for n_ in walk_own(f_.node)):
            elem_builders.add(f_)
    c.require(len(elem_builders) >= 1, 'C16-c: no helper of the JUnit reporter constructs an XML element')
    jt = {}
    for label, st_name, verdict, access in kinds:
        hooks = _InlineReporters(extra={xc} | elem_builders | {f_ for f_ in jm.funcs_by_node.values() if f_.cls is None and not f_.is_generator and f_.name.startswith('_') and 'message' not in f_.name})
        it = Interp(ix, fo, hooks)
        st = State()
        case, st = make_case(c, it, st, status, st_name, verdict, access)
        obj = it.new_obj(ju_cls)

        def on_call(interp, node, callee, callee_def, args, kwargs, s, case=case):
            if callee_def == result_m:
                return [('val', ListVal([case]), s)]
            return None

        hooks.on_call = on_call
        rep = Sym('reporter', cls=sub_rep, nullness=False)
        seen = set()
        for p in it.run_function(xs, args={xs.positional_params()[1].arg: rep}, st=st, recv=obj):
            attrs = {}
            elems = []
            for e in p.calls():
                node = e.node
                if isinstance(node.func, ast.Attribute) and node.func.attr == 'set' and len(e.data['args']) == 2:
                    k, v = e.data['args']
                    if isinstance(k, K) and isinstance(k.v, str):
                        n = None
                        if util.origin_call_key(v) == 'builtins.str' and v.origin[2] and isinstance(v.origin[2][0], K):
                            n = v.origin[2][0].v
                        attrs[k.v] = n
                elif isinstance(e.data.get('callee'), External) and e.data['callee'].dotted.endswith('ElementTree.Element') \
                        and e.data['args']:
                    tag = e.data['args'][0]
                    c.require(isinstance(tag, K) and isinstance(tag.v, str),
                              'C16-c: the tag of an XML element built for a case ending %s is not a constant (%s)' % (
                                  label, util.describe(tag)))
                    if tag.v in ('error', 'failure'):
                        elems.append(tag.v)
            seen.add((attrs.get('failures'), attrs.get('errors'), tuple(elems)))
        unsuccessful = not (verdict is not None and verdict.name in DOCUMENTED_SUCCESS)
        jt[label] = sorted(seen, key=str)
        ok = len(seen) == 1
        if ok:
            f, e, elems = next(iter(seen))
            ok = isinstance(f, int) and isinstance(e, int) and f + e == (1 if unsuccessful else 0) \
                 and len(elems) == (1 if unsuccessful else 0)
            if ok and unsuccessful:
                ok = (elems[0] == 'failure') == (f == 1)
        c.expect(ok, 'C16-c', 'junit/counters-and-element/' + label,
                 'a case ending %s gives (failures, errors, elements) = %s; the progress reporter counts it as %s' % (
                     label, sorted(seen, key=str), 'unsuccessful' if unsuccessful else 'successful'), xs.loc())
    c.sample({'junit (failures, errors, elements) per single case result': {k: str(v) for k, v in jt.items()}})
    # tests = number of recorded results
    ok = False
    for n in ast.walk(xs.node):
        if isinstance(n, ast.Dict):
            for k, v in zip(n.keys, n.values):
                if isinstance(k, ast.Constant) and k.value == 'tests':
                    ok = unparse(v).replace(' ', '') == 'str(len(%s.result()))' % xs.positional_params()[1].arg
    c.expect(ok, 'C16-c', 'junit/tests-attribute', 'the tests attribute is not the number of recorded case results',
             xs.loc())


# ---------------------------------------------------------------- d
def clause_d(c: Check):
    ix, fo = c.ix, c.fo
    se = ix.cls(PR + ':SuitesExecutor')
    ps = ix.class_member(se, '_process_single_sub_suite')
    pat = ix.func(PR + ':_process_and_time')

    class H(Hooks):
        loop_bound = 2

    paths = util.func_paths(ix, fo, ps, H())
    n_iter_paths = 0
    for p in paths:
        seq = []
        for e in p.trace:
            if e.kind == 'loop-iter':
                seq.append('iter')
            elif e.kind == 'call':
                node = e.node
                if e.data['callee'] == pat:
                    seq.append('process')
                elif isinstance(node.func, ast.Attribute) and node.func.attr in ('case_begin', 'case_end', 'suite_begin',
                                                                                 'suite_end'):
                    recv = unparse(node.func.value)
                    seq.append(('progress.' if 'progress_reporter' in recv else 'reporter.') + node.func.attr)
        iters = seq.count('iter')
        if iters:
            n_iter_paths += 1
        want = ['progress.suite_begin'] + ['iter', 'progress.case_begin', 'process', 'progress.case_end',
                                           'reporter.case_end'] * iters + ['progress.suite_end']
        c.expect(seq == want, 'C16-d', '_process_single_sub_suite/%d-cases' % iters,
                 'event sequence for %d cases is %s' % (iters, seq), ps.loc())
        # data flow: the processed case is the loop's case; the recorded info is the processing result
        calls = p.calls()
        for i, e in enumerate(calls):
            if e.data['callee'] == pat:
                case_arg = e.data['args'][1] if len(e.data['args']) > 1 else None
                ok = isinstance(case_arg, Sym) and case_arg.origin and case_arg.origin[0] == 'elem'
                ends = [x for x in calls[i + 1:] if isinstance(x.node.func, ast.Attribute)
                        and x.node.func.attr == 'case_end'][:2]
                idx = p.trace.index(e)
                for x in ends:
                    a = x.data['args']
                    ok = ok and len(a) == 2 and a[0] is case_arg and isinstance(a[1], Sym) \
                         and util.root_sym(a[1]).origin and util.root_sym(a[1]).origin[0] == 'call' \
                         and util.root_sym(a[1]).origin[5] == idx
                c.expect(bool(ok) and len(ends) == 2, 'C16-d', '_process_single_sub_suite/data-flow',
                         'the case that is processed / the result that is recorded are not those of the iteration',
                         ps.loc())
    c.floor('C16-d', 'paths with iterations', n_iter_paths, 2)
    loops = [n for n in walk_own(ps.node) if isinstance(n, ast.For)]
    ok = len(loops) == 1 and isinstance(loops[0].iter, ast.Attribute) and loops[0].iter.attr == 'test_cases' \
         and isinstance(loops[0].iter.value, ast.Name) and loops[0].iter.value.id == ps.positional_params()[1].arg
    c.expect(ok, 'C16-d', '_process_single_sub_suite/iterates-test-cases',
             'the cases of the suite are not iterated directly in listing order', ps.loc())
    # execute_and_report
    er = ix.class_member(se, 'execute_and_report')
    for p in util.func_paths(ix, fo, er, H()):
        seq = []
        for e in p.trace:
            if e.kind == 'call':
                d = e.data['callee']
                node = e.node
                if d == ps:
                    a = e.data['args'][0] if e.data['args'] else None
                    seq.append('suite' if isinstance(a, Sym) and a.origin and a.origin[0] == 'elem' else 'suite?')
                elif isinstance(node.func, ast.Attribute) and node.func.attr in ('root_suite_begin', 'root_suite_end',
                                                                                 'report_final_results'):
                    seq.append(node.func.attr)
        n = seq.count('suite')
        want = ['root_suite_begin'] + ['suite'] * n + ['root_suite_end', 'report_final_results']
        ok = seq == want and p.kind == 'return' and util.origin_call_key(util.root_sym(p.val)) is not None \
             and (util.origin_call_key(util.root_sym(p.val)) or '').endswith('report_final_results')
        c.expect(ok, 'C16-d', 'execute_and_report/%d-suites' % n, 'event sequence is %s' % seq, er.loc())
    loops = [n for n in walk_own(er.node) if isinstance(n, ast.For)]
    ok = len(loops) == 1 and isinstance(loops[0].iter, ast.Name) and loops[0].iter.id == er.positional_params()[1].arg
    c.expect(ok, 'C16-d', 'execute_and_report/iterates-in-order', 'suites are not processed in the enumerated order',
             er.loc())
    # SubSuiteReporter records every result, in order
    sr = ix.cls('exactly_lib.test_suite.reporting:SubSuiteReporter')
    ce = ix.class_member(sr, 'case_end')
    ok = False
    for n in walk_own(ce.node):
        if isinstance(n, ast.Call) and isinstance(n.func, ast.Attribute) and n.func.attr == 'append' \
                and isinstance(n.args[0], ast.Tuple):
            names = [x.id for x in n.args[0].elts if isinstance(x, ast.Name)]
            ok = names == [p_.arg for p_ in ce.positional_params()[1:]] and unparse(n.func.value) == 'self._result'
    res = ix.class_member(sr, 'result')
    from ..fold import single_return_expr
    r = single_return_expr(res)
    ok = ok and isinstance(r, ast.Attribute) and r.attr == '_result'
    c.expect(ok, 'C16-d', 'SubSuiteReporter/records-results', 'case results are not recorded as (case, info) in order',
             ce.loc())
    # depth first: sub suites before the suite that lists them
    dfe = ix.func('exactly_lib.test_suite.enumeration:DepthFirstEnumerator.apply')

    class HR(Hooks):
        loop_bound = 2

    for p in util.func_paths(ix, fo, dfe, HR()):
        seq = []
        for e in p.trace:
            if e.kind == 'call':
                node = e.node
                if e.data['callee'] == dfe:
                    seq.append('sub')
                elif isinstance(node.func, ast.Attribute) and node.func.attr == 'append':
                    a = e.data['args'][0] if e.data['args'] else None
                    seq.append('self' if isinstance(a, Sym) and a.origin and a.origin[0] == 'param' else 'append?')
        n = seq.count('sub')
        c.expect(seq == ['sub'] * n + ['self'], 'C16-d', 'DepthFirstEnumerator/%d-sub-suites' % n,
                 'enumeration order is %s (sub-suites must precede the suite that lists them)' % seq, dfe.loc())
    loops = [n for n in walk_own(dfe.node) if isinstance(n, ast.For)]
    ok = len(loops) == 1 and isinstance(loops[0].iter, ast.Attribute) and loops[0].iter.attr == 'sub_test_suites'
    c.expect(ok, 'C16-d', 'DepthFirstEnumerator/iterates-sub-suites-in-order', 'sub-suites are not visited in listing '
                                                                              'order', dfe.loc())
    # _process_case never lets an exception escape
    pc = ix.func(PR + ':_process_case')
    hooks = ForkHooks(ix)
    hooks.fork_on(lambda d, n, cv: isinstance(n.func, ast.Attribute) and n.func.attr == 'apply', [
        ('raises', ('raise', External('builtins.Exception'))), ('result', lambda: Sym('result', origin=('r',)))])
    for p in util.func_paths(ix, fo, pc, hooks):
        lab = labels_of(p)[0]
        if lab == 'raises':
            k = util.origin_call_key(util.root_sym(p.val)) if p.kind == 'return' else None
            c.expect(k is not None and k.endswith('new_internal_error'), 'C16-d', '_process_case/exception',
                     'an exception of the case processor is not turned into an internal-error result', pc.loc())
        else:
            c.expect(p.kind == 'return' and getattr(util.root_sym(p.val), 'label', None) == 'result', 'C16-d',
                     '_process_case/result', 'the result of the case processor is not returned', pc.loc())


# ---------------------------------------------------------------- e
def clause_e(c: Check):
    ix, fo = c.ix, c.fo
    pr = ix.func(PR + ':Processor.process_reporter')
    sre = ix.cls('exactly_lib.test_suite.file_reading.exception:SuiteReadError')
    hooks = ForkHooks(ix)
    hooks.fork_on(lambda d, n, cv: isinstance(n.func, ast.Attribute) and n.func.attr == 'apply'
                                   and '_suite_hierarchy_reader' in unparse(n.func.value), [
        ('read-error', ('raise', sre)), ('hierarchy', lambda: Sym('root_suite', nullness=False, origin=('root',)))])
    seen = set()
    for p in util.func_paths(ix, fo, pr, hooks):
        lab = labels_of(p)
        c.require(len(lab) == 1, 'C16-e: the hierarchy is read %d times' % len(lab))
        seen.add(lab[0])
        k = util.origin_call_key(util.root_sym(p.val)) if p.kind == 'return' else None
        if lab[0] == 'read-error':
            c.expect(k is not None and k.endswith(':SuiteReadErrorReporter'), 'C16-e', 'process_reporter/read-error',
                     'a suite read error gives %s, not the read-error reporter (nothing may execute)' % (
                         k or p.kind), pr.loc())
        else:
            ok = k is not None and k.endswith(':_SuiteExecutionReporter')
            if ok:
                vals = list(p.val.origin[2]) + list(p.val.origin[3].values())
                ok = any(getattr(util.root_sym(v), 'label', None) == 'hierarchy' for v in vals)
            c.expect(ok, 'C16-e', 'process_reporter/valid', 'a valid hierarchy is not handed to the execution reporter',
                     pr.loc())
    c.require(seen == {'read-error', 'hierarchy'}, 'C16-e: process_reporter outcomes %s' % seen)
    # the read error reporter: INVALID_SUITE exit code
    rr = ix.func('exactly_lib.test_suite.result_reporters:SuiteReadErrorReporter.report')
    invalid = fo.fold_path('exactly_lib.test_suite.exit_values:INVALID_SUITE')

    class H(Hooks):
        pass

    for p in util.func_paths(ix, fo, rr, H()):
        ok = p.kind == 'return' and isinstance(p.val, K) and p.val.v == fo.record_attr(invalid, 'exit_code')
        c.expect(ok, 'C16-e', 'SuiteReadErrorReporter.report/exit-code',
                 'an invalid suite is reported with exit code %s' % util.describe(p.val), rr.loc())
    # whole hierarchy is read before anything runs: reading is recursive inside the reader (no laziness)
    sfr = ix.cls(SHR + ':_SingleFileReader')
    call = suite_reading_method(ix, c.require)
    lazy = [n for n in walk_own(call.node) if isinstance(n, ast.Call) and isinstance(n.func, ast.Name)
            and n.func.id == 'map' and not (isinstance(parent(n), ast.Call) and isinstance(parent(n).func, ast.Name)
                                            and parent(n).func.id in ('list', 'tuple'))]
    c.expect(not lazy, 'C16-e', '_SingleFileReader/eager', 'sub-suites are read lazily (map without list)', call.loc())
    # double inclusion
    rp = ix.class_member(sfr, '_resolve_paths')
    chk = None
    for kind, *rest in rp.local_bindings().get('check_suite_paths_for_double_inclusion', []):
        if kind == 'def':
            chk = rest[0]
    c.require(chk is not None, 'C16-e: check_suite_paths_for_double_inclusion not found')
    dbl = ix.cls('exactly_lib.test_suite.file_reading.exception:SuiteDoubleInclusion')

    class HL(Hooks):
        loop_bound = 1

    it = Interp(ix, fo, HL())
    st = State()
    owner = it.new_obj(sfr)
    from ..absint import Frame
    # run the nested function with `self` bound in its closure
    outer = Frame(rp, rp.module, {rp.self_name: owner, 'suite_file_path': Sym('suite_file_path')}, None)
    st.frames.append(outer)
    env = it.param_syms(chk)
    outs = it.call_function(chk, env, st, outer)
    n_acc = 0
    for kind, val, s in outs:
        iters = [e for e in s.trace if e.kind == 'loop-iter']
        if not iters:
            continue
        member_tests = [(g, t) for g, t in s.guards if isinstance(g, ast.Compare) and isinstance(g.ops[0], (ast.In, ast.NotIn))
                        and '_visited' in unparse(g)]
        c.expect(len(member_tests) == 1, 'C16-e', 'double-inclusion/membership-test',
                 'each listed suite path is not tested for membership in the visited set exactly once', chk.loc())
        if not member_tests:
            continue
        g, truth = member_tests[0]
        is_in = truth if isinstance(g.ops[0], ast.In) else not truth
        tested = unparse(g.left)
        # the tested key must be the resolved path
        b = chk.local_bindings().get(tested, [])
        resolved = any(x[0] == 'assign' and isinstance(x[1], ast.Call) and isinstance(x[1].func, ast.Attribute)
                       and x[1].func.attr == 'resolve' for x in b) or '.resolve()' in tested
        c.expect(resolved, 'C16-e', 'double-inclusion/resolved-path',
                 'membership is tested for %s, not the resolved path (a suite reachable by two names would be run '
                 'twice)' % tested, chk.loc())
        if is_in:
            ok = kind == 'raise' and isinstance(val, Exc) and val.cls == dbl
            c.expect(ok, 'C16-e', 'double-inclusion/raises',
                     'a suite path that was already visited does not raise SuiteDoubleInclusion', chk.loc())
        else:
            n_acc += 1
            sets = [e for e in s.trace if e.kind == 'setitem' and isinstance(e.node.value, ast.Attribute)
                    and e.node.value.attr == '_visited']
            ok = kind == 'val' and len(sets) == 1 and unparse(sets[0].node.slice) == tested
            c.expect(ok, 'C16-e', 'double-inclusion/records',
                     'an accepted suite path is not recorded as visited at once (the same suite listed again would be '
                     'accepted)', chk.loc())
    c.floor('C16-e', 'accepting paths of the double-inclusion check', n_acc, 1)
    # the root is pre-recorded
    init = ix.class_member(sfr, '__init__')
    ok = False
    for meth, v, stn in ix.self_attr_assignments(sfr, '_visited'):
        if meth == init and isinstance(v, ast.Dict) and len(v.keys) == 1 and '.resolve()' in unparse(v.keys[0]) \
                and 'root' in unparse(v.keys[0]):
            ok = True
    c.expect(ok, 'C16-e', 'double-inclusion/root-prerecorded',
             'the root suite is not recorded as visited from the start (a cycle back to the root would be accepted)',
             init.loc())
    # the suites section is checked, with this checker
    rets = [n for n in walk_own(rp.node) if isinstance(n, ast.Return)]
    ok = False
    if rets and isinstance(rets[-1].value, ast.Tuple):
        first = rets[-1].value.elts[0]
        if isinstance(first, ast.Call):
            txt = [unparse(a) for a in first.args]
            ok = any('suites_section' in t for t in txt) and 'check_suite_paths_for_double_inclusion' in txt
    c.expect(ok, 'C16-e', 'double-inclusion/applied-to-suites-section',
             'the [suites] section is not resolved with the double-inclusion check', rp.loc())
    # EXC: errors of path resolution become suite read errors
    pfi = None
    for kind, *rest in rp.local_bindings().get('paths_for_instructions', []):
        if kind == 'def':
            pfi = rest[0]
    c.require(pfi is not None, 'C16-e: paths_for_instructions not found')
    fnae = ix.cls('exactly_lib.test_suite.instruction_set.instruction:FileNotAccessibleSimpleError')
    ok = False
    for n in ast.walk(pfi.node):
        if isinstance(n, ast.Call) and isinstance(n.func, ast.Attribute) and n.func.attr == 'resolve_paths':
            for t, part in util.enclosing_trys(n, stop=pfi.node):
                if part == 'body':
                    for types, h in util.handler_table(ix, pfi, t):
                        if fnae in types and any(isinstance(x, ast.Raise) for x in ast.walk(h)):
                            ok = True
    c.expect(ok, 'C16-e', 'resolve_paths/converted', 'FileNotAccessibleSimpleError of resolve_paths is not converted '
                                                     'to a suite read error', pfi.loc())
    # glob patterns: what Path.glob raises for a bad pattern is raised when the result is *consumed*
    g = ix.func('exactly_lib.test_suite.instruction_set.utils:FileNamesResolverForGlobPattern.resolve')
    n_glob = 0
    for n in ast.walk(g.node):
        if isinstance(n, ast.Call) and isinstance(n.func, ast.Attribute) and n.func.attr in ('glob', 'rglob'):
            n_glob += 1
            trys = [(t, part) for t, part in util.enclosing_trys(n, stop=g.node) if part == 'body']
            covered = False
            materialised = False
            for t, part in trys:
                types = set()
                for ts, h in util.handler_table(ix, g, t):
                    for d in ts:
                        if isinstance(d, External):
                            types.add(d.dotted)
                    # handler must convert to the suite's error
                if ({'builtins.ValueError', 'builtins.NotImplementedError'} <= types) or 'builtins.Exception' in types:
                    covered = True
                    pnode = parent(n)
                    if isinstance(pnode, ast.Call) and n in pnode.args:
                        cd = ix.callee(g.module, g, pnode)
                        if isinstance(cd, External) and cd.dotted in ('builtins.sorted', 'builtins.list',
                                                                       'builtins.tuple', 'builtins.set'):
                            materialised = True
                    if isinstance(pnode, (ast.For, ast.comprehension)) and pnode.iter is n:
                        materialised = any(pnode is x for b in t.body for x in ast.walk(b))
            c.expect(covered and materialised, 'C16-e', 'glob/pattern-errors-converted',
                     'the glob result is %s: an invalid pattern (absolute, "**x") raises an uncaught exception instead '
                     'of INVALID_SUITE' % ('not inside a handler for ValueError/NotImplementedError' if not covered
                                           else 'consumed outside the handler that converts pattern errors'),
                     '%s:%d' % (g.module.relpath, n.lineno))
    # which wildcard matcher: pathlib's - wildcards match names that begin with a dot.  `glob.glob` / `iglob` / `fnmatch`
    # on listings skip such names (unless told otherwise): a case `.b.case` listed only by `*.case` would silently not be
    # run, not be counted, not be reported
    gm = g.module
    for n in ast.walk(gm.tree):
        if not isinstance(n, ast.Call):
            continue
        f_ = gm.enclosing_func(n)
        d_ = ix.callee(gm, f_, n) if f_ is not None else None
        if isinstance(d_, External) and d_.dotted in ('glob.glob', 'glob.iglob', 'glob.glob1', 'glob.glob0'):
            n_glob += 1
            kw = {k.arg: k.value for k in n.keywords}
            ih = kw.get('include_hidden')
            c.expect(isinstance(ih, ast.Constant) and ih.value is True, 'C16-e', 'glob/matches-dot-files@%s' % (f_.key if f_ else gm.name),
                     'the wildcards of a suite file are matched with %s, which does not match names that begin with a '
                     'dot: such cases / suites are silently left out of the run and of the reports' % d_.dotted,
                     '%s:%d' % (gm.relpath, n.lineno))
        elif isinstance(n.func, ast.Attribute) and n.func.attr in ('glob', 'rglob') and f_ is not None and f_ is not g:
            n_glob += 1
            c.require(False, 'C16-e: a glob call outside FileNamesResolverForGlobPattern.resolve (%s:%d) is not understood' % (
                gm.relpath, n.lineno))
    c.floor('C16-e', 'glob calls in the suite file-name resolver', n_glob, 1)
    # EXC: asking the file system about a path written in a suite file (`stat`, `lstat`, `open`, `read_text`,
    # `resolve(strict)`) fails with an OSError of ANY kind for a bad reference - not only FileNotFoundError: a
    # reference below a regular file (`x.case/inner.case`) is NotADirectoryError, an unreadable directory
    # PermissionError, a link loop OSError(ELOOP).  Every such call in the suite's file-reference code is inside a
    # handler for OSError that raises the suite's own error (-> INVALID_SUITE / 3, not a traceback / 1)
    n_fs = 0
    for mn in ('exactly_lib.test_suite.instruction_set.utils', 'exactly_lib.test_suite.instruction_set.sections.suites',
               'exactly_lib.test_suite.instruction_set.sections.cases'):
        m_ = ix.module(mn)
        for n in ast.walk(m_.tree):
            if not (isinstance(n, ast.Call) and isinstance(n.func, ast.Attribute) and n.func.attr in RAISING_FS_QUERIES):
                continue
            f_ = m_.enclosing_func(n)
            if f_ is None:
                continue
            n_fs += 1
            covered = False
            narrow = []
            for t, part in util.enclosing_trys(n, stop=f_.node):
                if part != 'body':
                    continue
                for types, h in util.handler_table(ix, f_, t):
                    names = {d.dotted for d in types if isinstance(d, External)}
                    converts = any(isinstance(x, ast.Raise) and x.exc is not None for x in ast.walk(h))
                    if names & {'builtins.OSError', 'builtins.IOError', 'builtins.EnvironmentError', 'builtins.Exception',
                                'builtins.BaseException'} and converts:
                        covered = True
                    else:
                        narrow += sorted(x.split('.')[-1] for x in names)
            c.expect(covered, 'C16-e', 'file-status-errors-converted/%s/%s' % (f_.key, n.func.attr),
                     '`%s` can fail with any OSError for a path written in a suite file (NotADirectoryError for a '
                     'reference below a regular file, PermissionError, ...) but %s: the run ends with a traceback and '
                     'exit code 1 instead of INVALID_SUITE / 3' % (
                         unparse(n)[:50], ('only %s is handled' % ', '.join(narrow)) if narrow else 'nothing is handled'),
                     '%s:%d' % (m_.relpath, n.lineno))
    c.floor('C16-e', 'raising file-system queries in the suite file-reference code', n_fs, 2)


RAISING_FS_QUERIES = ('stat', 'lstat', 'open', 'read_text', 'read_bytes', 'iterdir', 'samefile', 'owner')


# ---------------------------------------------------------------- f
def clause_f(c: Check):
    ix = c.ix
    g = ix.func('exactly_lib.test_suite.instruction_set.utils:FileNamesResolverForGlobPattern.resolve')
    rets = util.returned_values(g)
    ok = bool(rets)
    for r in rets:
        d = ix.callee(g.module, g, r) if isinstance(r, ast.Call) else None
        if not (isinstance(d, External) and d.dotted == 'builtins.sorted' and not r.keywords):
            ok = False
    c.expect(ok, 'C16-f', 'glob/sorted', 'glob matches are not returned sorted', g.loc())
    # every match is examined by the path resolver: no match is filtered away first (a match that cannot be examined -
    # a dangling link, a file that vanished - is an invalid suite, not a shorter list of cases)
    for n in ast.walk(g.node):
        if isinstance(n, (ast.ListComp, ast.GeneratorExp, ast.SetComp)):
            for gen in n.generators:
                c.expect(not gen.ifs, 'C16-f', 'glob/every-match-is-examined',
                         'matches of the pattern are filtered by `%s` before they are examined: a reference that cannot be '
                         'examined silently drops out of the suite' % ' and '.join(unparse(i) for i in gen.ifs),
                         '%s:%d' % (g.module.relpath, n.lineno))
        if isinstance(n, ast.Call) and isinstance(n.func, ast.Name) and n.func.id == 'filter':
            c.bad('C16-f', 'glob/every-match-is-examined', 'matches of the pattern are filtered before they are examined',
                  '%s:%d' % (g.module.relpath, n.lineno))


# ---------------------------------------------------------------- g
def _maybe_none_fields(ix: Index, modules) -> dict:
    """{(class, constructor parameter): reason} for parameters of the classes in `modules` that may be given None:
    annotated Optional, given the literal None at a construction site, or given an element of a dict kept in an
    attribute that is initialised / assigned with a None value"""
    out = {}
    for m in modules:
        for k in m.all_classes:
            init = k.methods.get('__init__')
            if init is None:
                continue
            for p in init.positional_params()[1:]:
                if p.annotation is not None and 'Optional' in unparse(p.annotation):
                    out[(k, p.arg)] = 'annotated Optional'
            for s in util.call_sites_of(ix, k):
                b = util.ctor_call_args(ix, k, s.node) or {}
                for pn, a in b.items():
                    if isinstance(a, ast.Constant) and a.value is None:
                        out.setdefault((k, pn), 'given None at %s' % s.where)
                    v = a
                    if isinstance(v, ast.Call) and isinstance(v.func, ast.Attribute) and v.func.attr == 'get':
                        v = v.func.value
                        out.setdefault((k, pn), 'result of .get() at %s' % s.where)
                        continue
                    if isinstance(v, ast.Subscript):
                        v = v.value
                        if isinstance(v, ast.Attribute) and isinstance(v.value, ast.Name) and s.func is not None:
                            owner = s.func
                            while owner is not None and owner.cls is None:
                                owner = owner.parent
                            cls = owner.cls if owner is not None else None
                            if cls is not None and _dict_attr_may_hold_none(cls, v.attr):
                                out.setdefault((k, pn), 'element of self.%s, which holds None values (%s)' % (v.attr, s.where))
    return out


def _dict_attr_may_hold_none(cls: ClassDef, attr: str) -> bool:
    for f in cls.methods.values():
        for n in ast.walk(f.node):
            if isinstance(n, ast.Assign):
                for t in n.targets:
                    if isinstance(t, ast.Attribute) and t.attr == attr and isinstance(n.value, ast.Dict) \
                            and any(isinstance(v, ast.Constant) and v.value is None for v in n.value.values):
                        return True
                    if isinstance(t, ast.Subscript) and isinstance(t.value, ast.Attribute) and t.value.attr == attr \
                            and isinstance(n.value, ast.Constant) and n.value.value is None:
                        return True
    return False


def _non_null_polarity(test, target: str) -> int:
    """+1: the test being true implies <target> is not None; -1: the test being false implies it; 0: neither"""
    if isinstance(test, ast.UnaryOp) and isinstance(test.op, ast.Not):
        return -_non_null_polarity(test.operand, target)
    if unparse(test) == target:
        return 1
    if isinstance(test, ast.Compare) and len(test.ops) == 1:
        l, r = test.left, test.comparators[0]
        sides = [unparse(l), unparse(r)]
        if target in sides and 'None' in sides:
            if isinstance(test.ops[0], (ast.IsNot, ast.NotEq)):
                return 1
            if isinstance(test.ops[0], (ast.Is, ast.Eq)):
                return -1
    if isinstance(test, ast.BoolOp) and isinstance(test.op, ast.And):
        return 1 if any(_non_null_polarity(v, target) == 1 for v in test.values) else 0
    if isinstance(test, ast.BoolOp) and isinstance(test.op, ast.Or):
        return -1 if any(_non_null_polarity(v, target) == -1 for v in test.values) else 0
    return 0


def _unguarded_derefs(ix: Index, m, fields: dict):
    """[(function, node, class, field)] where `<x>.<field>.<something>` is evaluated for a parameter x annotated with
    the class, outside a test that the field is not None / true"""
    from ..core import ancestors
    out = []
    by_name = {}
    for (k, pn), why in fields.items():
        by_name.setdefault(pn, []).append(k)
    for f in m.all_funcs:
        ptypes = {}
        for p in f.params:
            k = ix.annotation_class(f.module, f.parent, p.annotation) if p.annotation is not None else None
            if k is not None:
                ptypes[p.arg] = k
        if not ptypes:
            continue
        for n in walk_own(f.node):
            if not (isinstance(n, ast.Attribute) and isinstance(n.value, ast.Attribute) and isinstance(n.value.value, ast.Name)):
                continue
            x, field = n.value.value.id, n.value.attr
            k = ptypes.get(x)
            if k is None or field not in by_name:
                continue
            if not any(kk in ix.mro(k) for kk in by_name[field]):
                continue
            target = unparse(n.value)
            guarded = False
            prev = n
            for a in ancestors(n):
                if a is f.node:
                    break
                if isinstance(a, (ast.If, ast.IfExp)):
                    in_body = (prev in a.body) if isinstance(a, ast.If) else (prev is a.body)
                    in_else = (prev in a.orelse) if isinstance(a, ast.If) else (prev is a.orelse)
                    pol = _non_null_polarity(a.test, target)
                    if (pol == 1 and in_body) or (pol == -1 and in_else):
                        guarded = True
                if isinstance(a, ast.BoolOp) and isinstance(a.op, ast.And):
                    idx = a.values.index(prev) if prev in a.values else -1
                    if any(_non_null_polarity(v, target) == 1 for v in a.values[:max(idx, 0)]):
                        guarded = True
                if isinstance(a, ast.BoolOp) and isinstance(a.op, ast.Or):
                    idx = a.values.index(prev) if prev in a.values else -1
                    if any(_non_null_polarity(v, target) == -1 for v in a.values[:max(idx, 0)]):
                        guarded = True
                prev = a
            if not guarded:
                # an earlier `if <field> is None: return / raise` in the function body
                for stmt in f.node.body:
                    if stmt.lineno >= n.lineno:
                        break
                    if isinstance(stmt, ast.If) and _non_null_polarity(stmt.test, target) == -1 \
                            and stmt.body and isinstance(stmt.body[-1], (ast.Return, ast.Raise)):
                        guarded = True
            if not guarded:
                out.append((f, n, k, field))
    return out


def clause_g(c: Check):
    """NULL: a suite that cannot be read is INVALID_SUITE (exit 3) - the report of the read error must not itself
    fail. A field of a suite read error that may be None (annotated Optional, given None, or taken from a table that
    holds None - `first_referenced_from` of a double inclusion is None when the root suite is reached again) is not
    dereferenced in `exactly_lib.test_suite` outside a test that it is not None: the AttributeError would replace the
    INVALID_SUITE report by a traceback and exit code 1"""
    ix = c.ix
    exm = ix.module('exactly_lib.test_suite.file_reading.exception')
    fields = _maybe_none_fields(ix, [exm])
    c.floor('C16-g', 'fields of suite read errors that may be None', len(fields), 1)
    n_mod = 0
    for name in ix.all_module_names():
        if not name.startswith('exactly_lib.test_suite'):
            continue
        if not any(pn in ix.text(name) for (_, pn) in fields):
            continue
        n_mod += 1
        m = ix.module(name)
        for f, n, k, field in _unguarded_derefs(ix, m, fields):
            why = [w for (kk, pn), w in fields.items() if pn == field][0]
            c.bad('C16-g', 'unguarded-dereference/%s/%s.%s' % (f.key, k.name, field),
                  '%s is evaluated although %s.%s may be None (%s): reporting the error raises AttributeError - a '
                  'traceback and exit code 1 instead of INVALID_SUITE / 3' % (unparse(n)[:60], k.name, field, why),
                  '%s:%d' % (m.relpath, n.lineno))
    for (k, pn), why in sorted(fields.items(), key=lambda kv: (kv[0][0].key, kv[0][1])):
        c.ok('C16-g', 'may-be-none/%s.%s' % (k.name, pn), detail=why)
    # positive control
    import os
    from ..report import VERIF_ROOT
    fx = Index(os.path.join(VERIF_ROOT, 'fixtures', 'nullness'))
    fm = fx.module('exactly_lib.test_suite.fixture_errors')
    ff = _maybe_none_fields(fx, [fm])
    got = _unguarded_derefs(fx, fm, ff)
    want = sum(1 for line in fm.src.splitlines() if '# EXPECT deref' in line)
    names = sorted(pn for (_, pn) in ff)
    if names != ['first_seen_in', 'maybe'] or len(got) != want:
        raise AnalysisError('C16-g: positive control failed: may-be-None fields %s, %d unguarded dereferences reported, '
                            'expected %d' % (names, len(got), want))
