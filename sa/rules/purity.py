"""EFF "application does not change the primitive": mutation summaries over resolved calls.

A primitive (string transformer, matcher) is constructed once and applied many times (to every file of a directory,
every line, every case of a loop). If an application method changes state that is stored in the object - directly, or
by handing a stored object to something that changes it - the result of one application depends on the applications
before it.

  summary(f)        = set of parameter names of f that f may mutate:
                        param.append/extend/insert/add/update/remove/pop/clear/sort/...(),  param[...] = ..,
                        param.attr = .., del param[..], augmented assignment on these,
                        or param passed to a mutated parameter of a resolved callee (incl. constructors, see below)
  summary(K.__init__) additionally: parameter p stored as `self.a = p` where attribute a is mutated by some method of K
  self-mutation(m)  = attributes a of self that method m mutates (same forms with `self.a` as the target) or passes to
                      a mutated parameter
"""
import ast
from typing import Dict, Optional, Set, Tuple, List

from ..core import Index, FuncDef, ClassDef, unparse, walk_own

MUTATORS = {'append', 'extend', 'insert', 'add', 'update', 'remove', 'pop', 'popitem', 'clear', 'sort', 'reverse',
            'setdefault', 'discard', 'appendleft'}


def _root_name(node) -> Optional[Tuple[str, Tuple[str, ...]]]:
    """(root name, attribute path) of `name.a.b`"""
    path = []
    while isinstance(node, ast.Attribute):
        path.append(node.attr)
        node = node.value
    if isinstance(node, ast.Name):
        return node.id, tuple(reversed(path))
    return None


class Purity:
    def __init__(self, ix: Index):
        self.ix = ix
        self._summary: Dict[FuncDef, Set[str]] = {}
        self._in_progress: Set[FuncDef] = set()
        self._attr_mut: Dict[ClassDef, Set[str]] = {}
        self._self_in_progress: Set[FuncDef] = set()

    @staticmethod
    def _is_value_keyed_memo(f: FuncDef, stmt) -> bool:
        """the statement sits under `if <local computed in this call> != self.<attr>:` - the stored value is
        replaced exactly when the freshly computed key differs, i.e. a memo keyed by its input (a pure function of the
        arguments as far as callers can tell)"""
        from ..core import ancestors
        if not f.self_name:
            return False
        for a in ancestors(stmt):
            if a is f.node:
                break
            if isinstance(a, ast.If) and isinstance(a.test, ast.Compare) and len(a.test.ops) == 1 \
                    and isinstance(a.test.ops[0], ast.NotEq) and stmt in ast.walk(ast.Module(body=a.body, type_ignores=[])):
                sides = [a.test.left, a.test.comparators[0]]
                selfs = [x for x in sides if isinstance(x, ast.Attribute) and isinstance(x.value, ast.Name)
                         and x.value.id == f.self_name]
                locs = [x for x in sides if isinstance(x, ast.Name)]
                if len(selfs) == 1 and len(locs) == 1:
                    bs = f.local_bindings().get(locs[0].id, [])
                    if len(bs) == 1 and bs[0][0] == 'assign' and isinstance(bs[0][1], ast.Call):
                        return True
        return False

    def _methods_named(self, name: str) -> List[FuncDef]:
        idx = self.__dict__.get('_by_method_name')
        if idx is None:
            idx = {}
            for mn in self.ix.all_module_names():
                t = self.ix.text(mn)
                if 'def ' not in t:
                    continue
                # only modules that are parsed anyway would be cheap; the index is built once per process
                for k in self.ix.module(mn).all_classes:
                    for m_name, m_ in k.methods.items():
                        idx.setdefault(m_name, []).append(m_)
            self.__dict__['_by_method_name'] = idx
        return idx.get(name, [])

    def _changes_own_object(self, m: FuncDef) -> bool:
        if not m.self_name or m in self._self_in_progress:
            return False
        self._self_in_progress.add(m)
        try:
            return any(root == m.self_name and path for root, path in self._mutations(m))
        finally:
            self._self_in_progress.discard(m)

    # --- what a function body mutates, as (root name, attr path) pairs
    def _call_returns_receiver_state(self, f: FuncDef):
        """predicate on calls in f: the callee is a method every return of which is (an element of) an attribute of
        its receiver - `table.lookup(name)` gives an object that *is* part of the table"""
        def pred(call: ast.Call) -> bool:
            try:
                d = self.ix.callee(f.module, f, call)
            except Exception:
                d = None
            if not isinstance(d, FuncDef) or not d.self_name:
                return False
            rets = [n.value for n in walk_own(d.node) if isinstance(n, ast.Return) and n.value is not None]
            if not rets:
                return False
            for r in rets:
                while isinstance(r, ast.Subscript) or (isinstance(r, ast.Call) and isinstance(r.func, ast.Attribute)
                                                      and r.func.attr == 'get'):
                    r = r.value if isinstance(r, ast.Subscript) else r.func.value
                rn = _root_name(r)
                if not (rn and rn[0] == d.self_name and rn[1]):
                    return False
            return True
        return pred

    @staticmethod
    def _aliases(f: FuncDef, returns_state=None) -> Dict[str, Tuple[str, Tuple[str, ...]]]:
        """local names bound once to (part of) the state of another name: `c = self._cache`, `c = self._cache[k]`,
        `c = self.__dict__.setdefault(..)` / `.get(..)` - changing the alias changes what it is taken from"""
        out = {}
        params = {p.arg for p in f.params}
        for name, bs in f.local_bindings().items():
            plain = [b for b in bs if b[0] != 'augassign']
            if name in params or len(plain) != 1 or plain[0][0] != 'assign' or plain[0][1] is None:
                continue
            v = plain[0][1]
            part = False
            while True:
                if isinstance(v, ast.Subscript):
                    part = True
                    v = v.value
                elif isinstance(v, ast.Call) and isinstance(v.func, ast.Attribute) and v.func.attr in ('setdefault', 'get'):
                    v = v.func.value
                elif isinstance(v, ast.Call) and isinstance(v.func, ast.Attribute) and returns_state is not None \
                        and returns_state(v):
                    part = True
                    v = v.func.value
                else:
                    break
            r = _root_name(v)
            if r and (r[1] or part) and r[0] != name:
                out[name] = r
        return out

    def _mutations(self, f: FuncDef, ignore_paramless: bool = False) -> Set[Tuple[str, Tuple[str, ...]]]:
        """ignore_paramless: what a method without parameters (other than self) stores is a function of the object
        alone (lazy initialisation) and is not reported"""
        if ignore_paramless and f.self_name and len(f.params) == 1:
            return set()
        aliases = self._aliases(f, self._call_returns_receiver_state(f))
        found = self._mutations_(f, ignore_paramless)
        out = set()
        for root, path in found:
            if root in aliases:
                ar, ap = aliases[root]
                out.add((ar, ap + path))
            out.add((root, path))
        return out

    def _mutations_(self, f: FuncDef, ignore_paramless: bool) -> Set[Tuple[str, Tuple[str, ...]]]:
        out = set()
        rebinds = set()
        self.__dict__.setdefault('_rebinds', {})[f] = rebinds
        for n in walk_own(f.node):
            if isinstance(n, (ast.Assign, ast.AugAssign, ast.AnnAssign)) and self._is_value_keyed_memo(f, n):
                continue
            targets = []
            if isinstance(n, ast.Assign):
                targets = n.targets
            elif isinstance(n, (ast.AugAssign, ast.AnnAssign)):
                targets = [n.target]
            elif isinstance(n, ast.Delete):
                targets = n.targets
            for t in targets:
                if isinstance(t, ast.Subscript):
                    r = _root_name(t.value)
                    if r:
                        out.add(r)
                elif isinstance(t, ast.Attribute):
                    # assignment to x.a changes x (recorded at path x.a so that `self.a = ..` names the attribute)
                    r = _root_name(t.value)
                    if r and self.__dict__.get('_skip_rebinds', False) and r[0] == f.self_name and not r[1]:
                        pass   # self.a = v: the object that a named is left as it was
                    elif r:
                        out.add((r[0], r[1] + (t.attr,)))
                        rebinds.add((r[0], r[1] + (t.attr,)))
                elif isinstance(t, ast.Name) and isinstance(n, ast.AugAssign):
                    # `alias += [..]` extends the aliased list in place (for a number or a string it only rebinds
                    # the local name: judged only when the right-hand side shows that the object is a list)
                    if isinstance(n.op, ast.Add) and isinstance(n.value, (ast.List, ast.ListComp)) \
                            or (isinstance(n.value, ast.Call) and isinstance(n.value.func, ast.Name) and n.value.func.id == 'list'):
                        out.add((t.id, ()))
            if isinstance(n, ast.Call):
                if isinstance(n.func, ast.Attribute) and n.func.attr in MUTATORS:
                    r = _root_name(n.func.value)
                    if r:
                        out.add(r)
                # arguments handed to mutated parameters of resolved callees
                callee = None
                try:
                    callee = self.ix.callee(f.module, f, n)
                except Exception:
                    callee = None
                if callee is None and isinstance(n.func, ast.Attribute) and n.func.attr not in MUTATORS:
                    # receiver of unknown class: when every method of that name in the repository changes its own
                    # object, the receiver is changed
                    cands = self._methods_named(n.func.attr)
                    if cands and len(cands) <= 3 and all(self._changes_own_object(m_) for m_ in cands):
                        r = _root_name(n.func.value)
                        if r:
                            out.add(r)
                fd = callee
                is_ctor = False
                if isinstance(callee, ClassDef):
                    fd = self.ix.class_member(callee, '__init__')
                    is_ctor = True
                if isinstance(fd, FuncDef) and fd is not f and not is_ctor and f.self_name \
                        and isinstance(n.func, ast.Attribute) and isinstance(n.func.value, ast.Name) \
                        and n.func.value.id == f.self_name and fd.self_name and fd not in self._self_in_progress:
                    # a helper method called on self: what it changes in self is changed by this method too
                    self._self_in_progress.add(fd)
                    for root, path in self._mutations(fd, ignore_paramless):
                        if root == fd.self_name and path:
                            out.add((f.self_name, path))
                    self._self_in_progress.discard(fd)
                if isinstance(fd, FuncDef) and fd is not f:
                    mutated = self.summary(fd)
                    if mutated:
                        pos = fd.positional_params()
                        off = 1 if (fd.cls is not None and not fd.is_static and (is_ctor or isinstance(n.func, ast.Attribute))) else 0
                        for i, a in enumerate(n.args):
                            j = i + off
                            if j < len(pos) and pos[j].arg in mutated:
                                r = _root_name(a)
                                if r:
                                    out.add(r)
                        for kw in n.keywords:
                            if kw.arg in mutated:
                                r = _root_name(kw.value)
                                if r:
                                    out.add(r)
        return out

    def _mutations_in_place(self, m: FuncDef):
        """mutations of m that change an object in place - not `x.a = value`, which only makes x.a name another
        object (the object that was stored there before is left as it was); includes what is handed to a callee that
        changes its parameter"""
        old = self.__dict__.get('_skip_rebinds', False)
        self._skip_rebinds = True
        try:
            return self._mutations(m)
        finally:
            self._skip_rebinds = old

    def attrs_mutated_by_methods(self, k: ClassDef) -> Set[str]:
        if k in self._attr_mut:
            return self._attr_mut[k]
        self._attr_mut[k] = set()
        res = set()
        for name, m in k.methods.items():
            if name == '__init__' or not m.self_name:
                continue
            for root, path in self._mutations_in_place(m):
                if root == m.self_name and path:
                    res.add(path[0])
        self._attr_mut[k] = res
        return res

    def summary(self, f: FuncDef) -> Set[str]:
        if f in self._summary:
            return self._summary[f]
        if f in self._in_progress:
            return set()
        self._in_progress.add(f)
        params = {p.arg for p in f.params}
        res = set()
        for root, path in self._mutations(f):
            if root in params and root != f.self_name:
                res.add(root)
        if f.name == '__init__' and f.cls is not None and f.self_name:
            mutated_attrs = self.attrs_mutated_by_methods(f.cls)
            for n in walk_own(f.node):
                if isinstance(n, ast.Assign) and len(n.targets) == 1 and isinstance(n.targets[0], ast.Attribute) \
                        and isinstance(n.targets[0].value, ast.Name) and n.targets[0].value.id == f.self_name \
                        and isinstance(n.value, ast.Name) and n.value.id in params \
                        and n.targets[0].attr in mutated_attrs:
                    res.add(n.value.id)
        self._in_progress.discard(f)
        self._summary[f] = res
        return res

    def self_mutations(self, m: FuncDef, ignore_paramless: bool = False) -> List[str]:
        """attributes of self that method m changes or hands to something that changes it"""
        out = []
        if not m.self_name:
            return out
        for root, path in sorted(self._mutations(m, ignore_paramless)):
            if root == m.self_name and path:
                out.append(path[0])
        return sorted(set(out))


def unkeyed_memos(f: FuncDef):
    """[(attribute, assignment node)]: `self.a = <something computed from a parameter of f>` under a test of
    `self.a` itself (`if self.a is None:` / `if not self.a:`): the value computed for the arguments of the *first*
    call is given for every later call, whatever its arguments"""
    out = []
    if not f.self_name:
        return out
    params = {p.arg for p in f.params if p.arg != f.self_name}
    if not params:
        return out
    # locals derived from parameters (one step of propagation is enough for the idiom)
    derived = set(params)
    for _ in range(3):
        for name, bs in f.local_bindings().items():
            for b in bs:
                if b[0] in ('assign', 'annassign') and b[1] is not None \
                        and any(isinstance(x, ast.Name) and x.id in derived for x in ast.walk(b[1])):
                    derived.add(name)
    from ..core import ancestors
    for n in walk_own(f.node):
        if not isinstance(n, ast.Assign):
            continue
        for t in n.targets:
            if not (isinstance(t, ast.Attribute) and isinstance(t.value, ast.Name) and t.value.id == f.self_name):
                continue
            if not any(isinstance(x, ast.Name) and x.id in derived for x in ast.walk(n.value)):
                continue
            for a in ancestors(n):
                if a is f.node:
                    break
                if isinstance(a, ast.If):
                    # the test says "not computed yet": self.a is None / not self.a (in the body),
                    # self.a is not None / self.a (in the else branch)
                    target = '%s.%s' % (f.self_name, t.attr)
                    test, positive = a.test, True
                    while isinstance(test, ast.UnaryOp) and isinstance(test.op, ast.Not):
                        test, positive = test.operand, not positive
                    unset = None
                    if unparse(test) == target:
                        unset = not positive
                    elif isinstance(test, ast.Compare) and len(test.ops) == 1 and unparse(test.left) == target \
                            and unparse(test.comparators[0]) == 'None':
                        if isinstance(test.ops[0], (ast.Is, ast.Eq)):
                            unset = positive
                        elif isinstance(test.ops[0], (ast.IsNot, ast.NotEq)):
                            unset = not positive
                    if unset is None:
                        continue
                    in_body = any(n is x for s_ in a.body for x in ast.walk(s_))
                    if in_body == unset:
                        out.append((t.attr, n))
                        break
    return out
