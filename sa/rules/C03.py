"""C03 Validation precedes execution: an invalid test case has no effects (DESIGN.md section 5, clauses a-g)."""
import ast
import re
from typing import List, Optional, Set, Dict

from ..core import Index, FuncDef, ClassDef, External, ModuleRef, AnalysisError, unparse, walk_own, dotted_name, parent
from ..fold import Folder, Record, EnumMember, Ref, is_unknown
from ..absint import Interp, Hooks, State, K, Sym, Obj, Exc, NONE, Event, ListVal
from ..report import Check
from .. import util
from . import effects
from .C01 import get_model, step_kinds
from .common import ForkHooks, labels_of, check_first_error_wins, run_factory

PU = 'exactly_lib.processing.processing_utils'
TCP = 'exactly_lib.processing.test_case_processing'
EXECUTOR_MOD = 'exactly_lib.execution.partial_execution.impl.executor'
SDS = 'exactly_lib.tcfs.sds'


def check(c: Check):
    c.explanation = (
        'Trace model of the executor (every validation step of every phase precedes sandbox creation and every main '
        'step; a failing validation ends without sandbox), path analysis of the processor (whole file read, '
        'preprocessed, parsed and transformed before the executor; access errors end before execution), who-may-call '
        'rules for sandbox construction, execution entry points and process start primitives, containment of the '
        '`symbol` command, direct-effect analysis of validators / parsers / symbol-usage getters, error-discipline of '
        'optional-error results and the wiring of validation in the four phase adapters. Decides clauses a-g of '
        'DESIGN.md C03; does not decide that each validator detects each defect class.')
    clause_a(c)
    clause_b(c)
    clause_c(c)
    clause_d(c)
    clause_e(c)
    clause_f(c)
    clause_g(c)
    clause_h(c)
    clause_i(c)
    clause_j(c)
    from .common import sweep_records
    sweep_records(c, 'C03-rec', ['exactly_lib.test_case'], floor=10)
    clause_k(c)
    from .common import check_no_use_of_absent_value
    from .common import check_nothing_is_swallowed
    check_nothing_is_swallowed(c, 'C03-m', ['exactly_lib.impls', 'exactly_lib.type_val_deps', 'exactly_lib.test_case',
                                            'exactly_lib.symbol', 'exactly_lib.execution', 'exactly_lib.tcfs'], 500,
                               'a validator that cannot examine what it validates must not report success')
    check_no_use_of_absent_value(c, 'C03-l', ['exactly_lib.impls', 'exactly_lib.type_val_deps', 'exactly_lib.test_case',
                                             'exactly_lib.symbol', 'exactly_lib.execution'], 500,
                                 'an optional validator that is skipped when present validates nothing, silently')


# ---------------------------------------------------------------- a
def clause_a(c: Check):
    kind_of = step_kinds(c)
    m = get_model(c)
    distinct = {}
    for t in m.traces:
        distinct.setdefault(t.short(), t)
    VALIDATION = {'PARSE', 'SYMBOLS', 'PRE_SDS'}
    n = 0
    for t in distinct.values():
        tid = ','.join(repr(s) for s in t.steps if s.kind == 'step' and s.raised) or (
            'no-failure' + ('' if any(s.kind == 'step' and s.phase == 'ASSERT' and kind_of[s.step] == 'MAIN'
                                      for s in t.steps) else ':act-only'))
        sandbox_idx = [i for i, s in enumerate(t.steps) if s.kind == 'marker' and s.name in ('SANDBOX', 'CHDIR', 'SANDBOX_ROOT')]
        first_effect = min(sandbox_idx) if sandbox_idx else None
        exec_idx = [i for i, s in enumerate(t.steps) if s.kind == 'step' and kind_of[s.step] not in VALIDATION]
        val_idx = [i for i, s in enumerate(t.steps) if s.kind == 'step' and kind_of[s.step] in VALIDATION]
        n += 1
        late = [repr(t.steps[i]) for i in val_idx
                if (first_effect is not None and i > first_effect) or (exec_idx and i > min(exec_idx))]
        c.expect(not late, 'C03-a', 'execute/validation-first/' + tid,
                 'validation steps %s run after the sandbox was created or a step was executed' % late, EXECUTOR_MOD,
                 extra={'trace': t.short()})
        early = [repr(t.steps[i]) for i in exec_idx if first_effect is None or i < first_effect]
        c.expect(not early, 'C03-a', 'execute/no-execution-before-sandbox/' + tid,
                 'steps %s are executed before/without the sandbox' % early, EXECUTOR_MOD, extra={'trace': t.short()})
        fr = t.first_raised()
        if fr is not None and kind_of[fr.step] in VALIDATION:
            c.expect(first_effect is None and not exec_idx, 'C03-a', 'execute/invalid-case-has-no-effects/' + tid,
                     'validation step %r failed but the sandbox is created or steps are executed' % fr, EXECUTOR_MOD,
                     extra={'trace': t.short()})
        if first_effect is not None:
            # a complete validation precedes the sandbox: all 5 phases x (symbols, pre-sds) + act parse
            before = {(s.phase, kind_of[s.step]) for s in t.steps[:first_effect] if s.kind == 'step'}
            want = {(p, k) for p in ('SETUP', 'ACT', 'BEFORE_ASSERT', 'ASSERT', 'CLEANUP') for k in ('SYMBOLS', 'PRE_SDS')}
            want.add(('ACT', 'PARSE'))
            c.expect(want <= before, 'C03-a', 'execute/complete-validation-before-sandbox/' + tid,
                     'the sandbox is created although these validation steps have not run: %s' % sorted(want - before),
                     EXECUTOR_MOD, extra={'trace': t.short()})
    c.floor('C03-a', 'distinct traces', n, 30)


# ---------------------------------------------------------------- b
def clause_b(c: Check):
    ix, fo = c.ix, c.fo
    fd = ix.func(PU + ':ProcessorFromAccessorAndExecutor.apply')
    acc_err = ix.cls(TCP + ':AccessorError')
    EXC = External('builtins.Exception')
    status = fo.enum_members(ix.cls(TCP + ':Status'))

    def recv_attr(n):
        return n.func.value.attr if isinstance(n.func, ast.Attribute) and isinstance(n.func.value, ast.Attribute) else None

    hooks = ForkHooks(ix)
    hooks.fork_on(lambda d, n, cv: recv_attr(n) == '_accessor', [
        ('acc-error', ('raise', acc_err)), ('acc-exception', ('raise', EXC)),
        ('doc', lambda: Sym('document', nullness=False, origin=('doc',)))])
    hooks.fork_on(lambda d, n, cv: recv_attr(n) == '_executor', [
        ('exe-exception', ('raise', EXC)), ('result', lambda: Sym('full_result', nullness=False, origin=('res',)))])
    hooks.inline_set = set()

    class H(type(hooks)):
        pass

    paths = util.func_paths(ix, fo, fd, hooks)
    seen = set()
    for p in paths:
        labs = labels_of(p)
        tag = '-'.join(labs)
        seen.add(tag)
        key = 'ProcessorFromAccessorAndExecutor.apply/' + tag
        if p.kind != 'return':
            c.bad('C03-b', key, 'exception escapes the processor (%s)' % util.describe(p.val), fd.loc())
            continue
        con = util.constructed(ix, p.val)
        st = con[3].get('status') if con and con[0].endswith(':Result') else None
        stname = st.v.name if isinstance(st, K) and isinstance(st.v, EnumMember) else None
        rk = util.origin_call_key(p.val) or ''
        if labs[0] != 'doc':
            c.expect(len(labs) == 1, 'C03-b', key + '/no-execution',
                     'the executor runs although the test case could not be read/parsed', fd.loc())
            if labs[0] == 'acc-error':
                c.expect(stname == 'ACCESS_ERROR', 'C03-b', key + '/result',
                         'an access error is reported as %s' % (stname or util.describe(p.val)), fd.loc())
            else:
                c.expect(rk.endswith(':new_internal_error'), 'C03-b', key + '/result',
                         'an unexpected exception while reading is reported as %s' % util.describe(p.val), fd.loc())
        else:
            c.expect(len(labs) == 2, 'C03-b', key + '/executes-once', 'executor applied %d times' % (len(labs) - 1),
                     fd.loc())
            # the executor gets the accessor's document
            ev = [e for e in p.trace if e.kind == 'call' and e.data.get('label') in ('result', 'exe-exception')]
            ok = bool(ev) and any(getattr(util.root_sym(a), 'label', None) == 'doc' for a in ev[0].data['args'])
            c.expect(ok, 'C03-b', key + '/executes-parsed-document',
                     'the executor is not given the document the accessor returned', fd.loc())
            if labs[1] == 'result':
                c.expect(rk.endswith(':new_executed'), 'C03-b', key + '/result',
                         'execution result is reported as %s' % util.describe(p.val), fd.loc())
            else:
                c.expect(rk.endswith(':new_internal_error'), 'C03-b', key + '/result',
                         'an exception of the executor is reported as %s' % util.describe(p.val), fd.loc())
    c.require(seen == {'acc-error', 'acc-exception', 'doc-result', 'doc-exe-exception'},
              'C03-b: paths of the processor not recognised: %s' % sorted(seen))
    # new_executed / new_internal_error build the status they name
    for fn, want in (('new_executed', 'EXECUTED'), ('new_internal_error', 'INTERNAL_ERROR'),
                     ('new_access_error', 'ACCESS_ERROR')):
        f = ix.func(TCP + ':' + fn)
        ok = False
        for call, d in util.calls_in(ix, f):
            if isinstance(d, ClassDef) and d.name == 'Result':
                a = util.ctor_call_args(ix, d, call) or {}
                v = fo.fold(f.module, f, a.get('status'))
                ok = v == status[want]
        c.expect(ok, 'C03-b', fn, '%s does not build a result with status %s' % (fn, want), f.loc())

    # AccessorFromParts.apply: reader -> preprocessor -> parser -> transformer, data dependent, typed errors
    af = ix.func(PU + ':AccessorFromParts.apply')
    pe = ix.cls(TCP + ':ProcessError')
    aet = fo.enum_members(ix.cls(TCP + ':AccessErrorType'))
    STAGES = [('_source_reader', 'FILE_ACCESS_ERROR'), ('_pre_processor', 'PRE_PROCESS_ERROR'),
              ('_parser', 'SYNTAX_ERROR')]

    def stage_of(cv):
        # the callee value is a bound method of self.<attr>
        from ..absint import BoundMethod
        if isinstance(cv, BoundMethod):
            base, chain = util.attr_chain(cv.recv)
            if chain:
                return chain[-1]
        return None

    hooks = ForkHooks(ix)
    for attr, _ in STAGES:
        hooks.fork_on(lambda d, n, cv, attr=attr: stage_of(cv) == attr, [
            (attr + ':error', ('raise', pe)),
            (attr + ':ok', lambda attr=attr: Sym('out' + attr, nullness=False, origin=('stage', attr)))])
    hooks.fork_on(lambda d, n, cv: stage_of(cv) == '_transformer', [
        ('_transformer:ok', lambda: Sym('transformed', nullness=False, origin=('stage', '_transformer')))])
    cls = ix.cls(PU + ':AccessorFromParts')
    hooks.inline_set = {ix.class_member(cls, '_apply')}
    paths = util.func_paths(ix, fo, af, hooks)
    seen = set()
    for p in paths:
        labs = labels_of(p)
        seen.add(tuple(labs))
        key = 'AccessorFromParts.apply/' + '>'.join(labs)
        order_ok = [l.split(':')[0] for l in labs] == [a for a, _ in STAGES][:len(labs)] + (
            ['_transformer'] if len(labs) == 4 else [])
        c.expect(order_ok, 'C03-b', key + '/order', 'stages run in the order %s' % labs, af.loc())
        evs = [e for e in p.trace if e.kind == 'call' and 'label' in e.data]
        # data dependence: each stage consumes the previous stage's output
        for i in range(1, len(evs)):
            prev_attr = evs[i - 1].data['label'].split(':')[0]
            vals = list(evs[i].data['args']) + list(evs[i].data['kwargs'].values())
            flat = []
            for v in vals:
                flat.extend(v.items if isinstance(v, ListVal) else [v])
            ok = any(isinstance(v, Sym) and util.root_sym(v).origin == ('stage', prev_attr) for v in flat)
            c.expect(ok, 'C03-b', '%s/consumes-output-of-%s' % (key, prev_attr),
                     'stage %s does not consume the output of %s' % (evs[i].data['label'], prev_attr), af.loc())
        if labs and labs[-1].endswith(':error'):
            attr = labs[-1].split(':')[0]
            want = dict(STAGES)[attr]
            ok = p.kind == 'raise' and isinstance(p.val, Exc) and p.val.cls == acc_err and p.val.args \
                 and isinstance(p.val.args[0], K) and p.val.args[0].v == aet[want]
            c.expect(bool(ok), 'C03-b', key + '/error-type',
                     'a failure of %s is not raised as AccessorError(%s) (%s)' % (attr, want, util.describe(p.val)),
                     af.loc())
        else:
            ok = p.kind == 'return' and isinstance(p.val, Sym) and util.root_sym(p.val).origin == ('stage', '_transformer')
            c.expect(bool(ok), 'C03-b', key + '/returns-transformed',
                     'the accessor does not return the transformed document (%s)' % util.describe(p.val), af.loc())
    c.require(len(seen) == 4, 'C03-b: paths of AccessorFromParts.apply not recognised: %s' % sorted(seen))


# ---------------------------------------------------------------- c
ALLOWED_PROCESS_START = {
    'exactly_lib.util.process_execution.process_executor:ProcessExecutor.execute':
        'the one process-start site of test-case execution (C19)',
    'exactly_lib.processing.preprocessor:PreprocessorViaExternalProgram.apply':
        'the --preprocessor program: runs before a test case exists (reported as informational)',
}


def process_start_sites(ix: Index) -> List[util.Site]:
    out = []
    pat = re.compile(r'\b(subprocess|os|pty|multiprocessing)\b')
    for name in ix.all_module_names():
        t = ix.text(name)
        if not pat.search(t):
            continue
        if not re.search(r'^\s*(import|from)\s+(subprocess|os|pty|multiprocessing)\b', t, re.M):
            continue
        m = ix.module(name)
        for n in ast.walk(m.tree):
            if isinstance(n, (ast.Name, ast.Attribute)) and not isinstance(parent(n), (ast.Import, ast.ImportFrom)):
                if isinstance(parent(n), ast.Attribute) and parent(n).value is n:
                    continue  # inner part of a longer dotted name
                f = m.enclosing_func(n)
                d = ix.resolve_static(m, f, n)
                if isinstance(d, External) and effects.is_process_start(d.dotted):
                    if d.dotted in ('subprocess.TimeoutExpired', 'subprocess.DEVNULL', 'subprocess.PIPE',
                                    'subprocess.STDOUT', 'subprocess.SubprocessError',
                                    'subprocess.CalledProcessError'):
                        continue
                    s = util.Site(m, f, n)
                    s.dotted = d.dotted
                    out.append(s)
    return out


def clause_c(c: Check):
    ix = c.ix
    rules = [
        (ix.func('exactly_lib.execution.partial_execution.execution:execute'),
         {'exactly_lib.execution.full_execution.execution:execute'}, 'partial execution'),
        (ix.func('exactly_lib.execution.full_execution.execution:execute'),
         {'exactly_lib.processing.processors:_Executor.apply'}, 'full execution'),
        (ix.func(EXECUTOR_MOD + ':execute'),
         {'exactly_lib.execution.partial_execution.execution:execute'}, 'the partial executor'),
        (ix.func(SDS + ':construct_at'),
         {EXECUTOR_MOD + ':_PartialExecutor._construct_and_set_sds', SDS + ':construct_at_tmp_root'},
         'sandbox construction'),
        (ix.func(SDS + ':construct_at_tmp_root'), set(), 'sandbox construction'),
        (ix.cls(EXECUTOR_MOD + ':_PartialExecutor'), {EXECUTOR_MOD + ':execute'}, 'the partial executor class'),
    ]
    for target, allowed, what in rules:
        sites = [s for s in util.references_to(ix, target) if not isinstance(parent(s.node), (ast.Import, ast.ImportFrom))]
        for s in sites:
            c.expect(s.where in allowed, 'C03-c', 'who-may-call/%s@%s' % (target.key.split(':')[-1], s.where),
                     '%s (%s) is referenced from %s; only %s may' % (what, target.key, s.where, sorted(allowed) or 'nobody'),
                     s.loc)
        if allowed:
            c.floor('C03-c', 'references to ' + target.key, len(sites), 1)
    sites = process_start_sites(ix)
    for s in sites:
        f = s.func
        while f is not None and f.parent is not None:
            f = f.parent
        where = f.key if f else s.where
        c.expect(where in ALLOWED_PROCESS_START, 'C03-c', 'process-start/%s@%s' % (s.dotted, where),
                 'an OS process can be started (%s) in %s, outside the single process executor' % (s.dotted, where),
                 s.loc)
    c.floor('C03-c', 'process start sites', len(sites), 2)


# ---------------------------------------------------------------- d
def clause_d(c: Check):
    ix = c.ix
    forbidden = {
        'exactly_lib.execution.full_execution.execution:execute',
        'exactly_lib.execution.partial_execution.execution:execute',
        EXECUTOR_MOD + ':execute', EXECUTOR_MOD + ':_PartialExecutor',
        SDS + ':construct_at', SDS + ':construct_at_tmp_root',
        'exactly_lib.util.process_execution.process_executor:ProcessExecutor',
        'exactly_lib.processing.processors:new_processor_that_should_not_pollute_current_process',
        'exactly_lib.processing.processors:new_processor_that_is_allowed_to_pollute_current_process',
        'exactly_lib.processing.processors:new_executor_that_may_pollute_current_processes',
        'exactly_lib.processing.processors:new_executor_that_may_pollute_current_processes2',
        'exactly_lib.processing.processors:_Executor',
        'exactly_lib.processing.processing_utils:ProcessorFromAccessorAndExecutor',
        'exactly_lib.test_suite.processing:Processor',
    }
    forbidden_modules = ('exactly_lib.test_case.os_services', 'exactly_lib.impls.os_services',
                         'exactly_lib.util.process_execution.process_executor')
    n_mod = 0
    n_refs = 0
    for m in ix.all_modules('exactly_lib.cli.program_modes.symbol'):
        n_mod += 1
        for n in ast.walk(m.tree):
            if isinstance(n, (ast.Name, ast.Attribute)):
                if isinstance(parent(n), ast.Attribute) and parent(n).value is n:
                    continue
                f = m.enclosing_func(n)
                d = ix.resolve_static(m, f, n) if not isinstance(parent(n), (ast.Import, ast.ImportFrom)) else None
                if d is None:
                    continue
                n_refs += 1
                key = getattr(d, 'key', None)
                bad = key in forbidden or (isinstance(d, External) and (
                        effects.is_process_start(d.dotted) or d.dotted in effects.EFFECT_EXTERNALS))
                if isinstance(d, (FuncDef, ClassDef)) and d.module.name.startswith(forbidden_modules):
                    bad = True
                if bad:
                    c.bad('C03-d', 'symbol-command/%s->%s' % (f.key if f else m.name, key),
                          'the `symbol` command refers to %s, which executes test-case code' % key,
                          '%s:%d' % (m.relpath, n.lineno))
            elif isinstance(n, ast.ImportFrom) and n.module and n.module.startswith(forbidden_modules):
                c.bad('C03-d', 'symbol-command/import/%s' % n.module, 'the `symbol` command imports %s' % n.module,
                      '%s:%d' % (m.relpath, n.lineno))
    c.floor('C03-d', 'modules of the symbol command', n_mod, 8)
    c.floor('C03-d', 'resolved references in the symbol command', n_refs, 200)
    c.ok('C03-d', 'symbol-command/contained', '%d modules, %d resolved references, none executes' % (n_mod, n_refs))
    # its route into the executor package: only conf phase + parse/validate symbols
    allowed_exec = {'exactly_lib.execution.full_execution.execution:execute_configuration_phase',
                    'exactly_lib.execution.partial_execution.execution:parse_atc_and_validate_symbols'}
    for m in ix.all_modules('exactly_lib.cli.program_modes.symbol'):
        for n in ast.walk(m.tree):
            if isinstance(n, ast.Call):
                f = m.enclosing_func(n)
                d = ix.callee(m, f, n)
                if isinstance(d, FuncDef) and d.module.name.startswith('exactly_lib.execution.') \
                        and d.module.name.endswith('.execution'):
                    c.expect(d.key in allowed_exec, 'C03-d', 'symbol-command/executor-entry/' + d.key,
                             'the `symbol` command calls %s' % d.key, '%s:%d' % (m.relpath, n.lineno))


# ---------------------------------------------------------------- e
ROLE_METHOD_NAMES = {'validate_pre_sds', 'validate_pre_sds_if_applicable', 'symbol_usages', 'references', 'validator',
                     'validate_symbols'}
ROLE_PREFIXES = ('exactly_lib.impls.', 'exactly_lib.type_val_deps.', 'exactly_lib.symbol.',
                 'exactly_lib.section_document.', 'exactly_lib.processing.parse.', 'exactly_lib.test_case.')
PARSE_PREFIXES = ('exactly_lib.impls.instructions.', 'exactly_lib.impls.types.', 'exactly_lib.impls.actors.',
                  'exactly_lib.section_document.', 'exactly_lib.processing.parse.')
# file inclusion reads the included file while parsing: reading is not an effect primitive, listed for clarity
EFFECTFUL_REPO_APIS = ('exactly_lib.impls.file_creation', 'exactly_lib.impls.os_services',
                       'exactly_lib.util.process_execution.process_executor')


def role_functions(ix: Index) -> List[FuncDef]:
    out = []
    for name in ix.all_module_names():
        if not name.startswith(ROLE_PREFIXES):
            continue
        t = ix.text(name)
        is_parse_mod = name.startswith(PARSE_PREFIXES)
        if not (any(w in t for w in ROLE_METHOD_NAMES) or (is_parse_mod and 'def parse' in t)):
            continue
        m = ix.module(name)
        for f in m.all_funcs:
            if f.parent is not None:
                continue
            if f.name in ROLE_METHOD_NAMES and f.cls is not None:
                out.append(f)
            elif is_parse_mod and (f.name.startswith('parse') or f.name.startswith('_parse')):
                out.append(f)
    return out


def clause_e(c: Check):
    ix = c.ix
    roles = role_functions(ix)
    c.floor('C03-e', 'validator / parser / symbol-usage functions', len(roles), 400)
    eff_cache: Dict[str, Optional[str]] = {}

    def effect_of(f: FuncDef, depth: int, stack: Set[str]) -> Optional[str]:
        """description of an effect reached from f through resolved calls (depth-bounded), or None"""
        if f.key in eff_cache:
            return eff_cache[f.key]
        if f.key in stack:
            return None
        d = effects.direct_effects(ix, f)
        if d:
            r = '%s at %s:%d' % (d[0][1], f.module.relpath, d[0][0].lineno)
            eff_cache[f.key] = r
            return r
        r = None
        if depth > 0:
            stack = stack | {f.key}
            for n in ast.walk(f.node):
                if not isinstance(n, ast.Call):
                    continue
                ef = f.module.enclosing_func(n) or f
                cd = ix.callee(f.module, ef, n)
                if isinstance(cd, ClassDef):
                    cd = util.ctor_of(ix, cd)
                if isinstance(cd, FuncDef) and not util.is_abstract_body(cd):
                    sub = effect_of(cd, depth - 1, stack)
                    if sub is not None:
                        r = 'via %s: %s' % (cd.key, sub)
                        break
        if depth >= 2:
            eff_cache[f.key] = r
        return r

    n_bad = 0
    for f in roles:
        r = effect_of(f, 2 if c.tier == 'quick' else 3, set())
        if r is not None:
            n_bad += 1
            c.bad('C03-e', 'effect-in/%s' % f.key,
                  'a %s has a file-system / process effect before execution: %s' % (
                      'parser' if f.name.lstrip('_').startswith('parse') else 'validation-time function', r), f.loc())
    c.ok('C03-e', 'role-functions/effect-free',
         '%d functions in role, none reaches an effect primitive through resolved calls' % len(roles))
    c.count(len(roles))
    # positive control: the primitive table recognises the repository's own effect sites
    fc = ix.module('exactly_lib.impls.file_creation')
    n_fc = sum(len(effects.direct_effects(ix, f)) for f in fc.all_funcs)
    pe = ix.func('exactly_lib.util.process_execution.process_executor:ProcessExecutor.execute')
    if n_fc < 2 or not effects.direct_effects(ix, pe):
        raise AnalysisError('C03-e: positive control failed: effect primitives of file_creation / ProcessExecutor '
                            'not recognised (%d)' % n_fc)
    c.ok('C03-e', 'positive-control/effect-table', 'file_creation: %d effect sites recognised' % n_fc)


# ---------------------------------------------------------------- f
ERR_MODULES = [
    'exactly_lib.execution.impl.symbol_validation',
    'exactly_lib.execution.partial_execution.impl.symbol_validation',
    'exactly_lib.type_val_deps.dep_variants.sdv.sdv_validation',
    'exactly_lib.type_val_deps.dep_variants.ddv.ddv_validators',
    'exactly_lib.type_val_deps.dep_variants.ddv.ddv_validation',
    'exactly_lib.impls.svh_validators',
    'exactly_lib.type_val_deps.sym_ref.w_str_rend_restrictions.reference_restrictions',
    'exactly_lib.type_val_deps.sym_ref.w_str_rend_restrictions.value_restrictions',
    'exactly_lib.impls.instructions.setup.utils.instruction_from_parts',
    'exactly_lib.impls.instructions.before_assert.utils.instruction_from_parts',
    'exactly_lib.impls.instructions.assert_.utils.instruction_from_parts',
    'exactly_lib.impls.instructions.cleanup.utils.instruction_from_parts',
    'exactly_lib.impls.instructions.multi_phase.utils.instruction_part_utils',
]
ERR_RETURN_RE = re.compile(r'Optional\[(TextRenderer|Failure|PartialInstructionControlledFailureInfo|'
                           r'ErrorMessageWithFixTip|PhaseStepFailure)\]|SuccessOrValidationErrorOrHardError|'
                           r'SuccessOrHardError|PassOrFailOrHardError|PartialInstructionControlledFailureInfo')


def dropped_results(ix: Index, m) -> List[tuple]:
    out = []
    n_calls = 0
    for n in ast.walk(m.tree):
        if not isinstance(n, ast.Call):
            continue
        f = m.enclosing_func(n)
        if f is None:
            continue
        d = ix.callee(m, f, n)
        if not (isinstance(d, FuncDef) and d.node.returns is not None and ERR_RETURN_RE.search(unparse(d.node.returns))):
            continue
        n_calls += 1
        p = parent(n)
        if isinstance(p, ast.Expr):
            out.append((n, f, d, 'result is discarded'))
        elif isinstance(p, ast.Assign) and len(p.targets) == 1 and isinstance(p.targets[0], ast.Name):
            name = p.targets[0].id
            used = False
            for x in ast.walk(f.node):
                if isinstance(x, ast.Name) and x.id == name and isinstance(x.ctx, ast.Load) \
                        and (x.lineno, x.col_offset) > (p.lineno, p.col_offset):
                    used = True
            if not used:
                # a loop may read it on the next iteration before the assignment line
                used = any(isinstance(x, ast.Name) and x.id == name and isinstance(x.ctx, ast.Load)
                           for x in ast.walk(f.node)) and any(isinstance(a, (ast.For, ast.While))
                                                              for a in util.ancestors(p))
            if not used:
                out.append((n, f, d, 'result is assigned to %s and never looked at' % name))
    return out, n_calls


def clause_f(c: Check):
    ix = c.ix
    total = 0
    for modname in ERR_MODULES:
        m = ix.module(modname)
        drops, n_calls = dropped_results(ix, m)
        total += n_calls
        for n, f, d, why in drops:
            c.bad('C03-f', 'dropped/%s->%s' % (f.key, d.key.split(':')[-1]),
                  'a validation result is dropped: %s (%s returns %s)' % (why, d.key, unparse(d.node.returns)),
                  '%s:%d' % (m.relpath, n.lineno))
        c.ok('C03-f', 'err-discipline/' + modname, '%d error-returning calls, none dropped' % n_calls)
    c.floor('C03-f', 'calls of optional-error functions in the validation layers', total, 25)
    # FOLD shapes: first error wins
    SV = 'exactly_lib.type_val_deps.dep_variants.sdv.sdv_validation'
    DV = 'exactly_lib.type_val_deps.dep_variants.ddv.ddv_validators'
    for path, meth in ((SV + ':AndSdvValidator', 'validate_pre_sds_if_applicable'),
                       (SV + ':AndSdvValidator', 'validate_post_sds_if_applicable'),
                       (DV + ':AndValidator', 'validate_pre_sds_if_applicable'),
                       (DV + ':AndValidator', 'validate_post_sds_if_applicable')):
        f = ix.class_member(ix.cls(path), meth)
        check_first_error_wins(c, 'C03-f', f, lambda d, n, cv, meth=meth: isinstance(n.func, ast.Attribute)
                                                                         and n.func.attr == meth)
        # the combined validator applies the same step to its parts
    vs = ix.func('exactly_lib.execution.impl.symbol_validation:validate_symbol_usages')
    vu = ix.func('exactly_lib.execution.impl.symbol_validation:validate_symbol_usage')
    check_first_error_wins(c, 'C03-f', vs, lambda d, n, cv: d == vu)
    # all_of never loses a validator
    for modp in (SV, DV):
        f = ix.func(modp + ':all_of')
        pn = f.positional_params()[0].arg
        rets = util.returned_values(f)
        kinds = []
        for r in rets:
            if isinstance(r, ast.Subscript) and isinstance(r.value, ast.Name) and r.value.id == pn:
                kinds.append('single')
            elif isinstance(r, ast.Call) and len(r.args) == 1 and isinstance(r.args[0], ast.Name) and r.args[0].id == pn:
                kinds.append('all')
            elif isinstance(r, ast.Call) and not r.args:
                kinds.append('empty')
            else:
                kinds.append('?' + unparse(r))
        c.expect(sorted(kinds) == ['all', 'empty', 'single'], 'C03-f', modp.split('.')[-1] + '.all_of',
                 'all_of returns %s' % kinds, f.loc())
    # PreOrPostSdsSvhValidationErrorValidator._translate: message -> validation error, None -> success
    tr = ix.func('exactly_lib.impls.svh_validators:PreOrPostSdsSvhValidationErrorValidator._translate')

    class H(Hooks):
        def inline(self, fd, st):
            return fd.module.name == 'exactly_lib.test_case.result.svh'

    for label, arg, want in (('message', K('MSG'), False), ('none', NONE, True)):
        outs = set()
        for p in util.func_paths(ix, c.fo, tr, H(), args={tr.positional_params()[0].arg: arg}):
            if p.kind == 'return' and isinstance(p.val, K) and isinstance(p.val.v, Record):
                outs.add(c.fo.record_attr(p.val.v, 'is_success'))
            else:
                outs.add('?' + util.describe(p.val))
        c.expect(outs == {want}, 'C03-f', '_translate/' + label,
                 'validator result %s is translated to is_success=%s' % (label, outs), tr.loc())


# ---------------------------------------------------------------- g
ADAPTERS = {
    'setup': ('SetupPhaseInstructionFromParts', 'apply_as_non_assertion'),
    'before_assert': ('BeforeAssertPhaseInstructionFromParts', 'apply_as_non_assertion'),
    'assert_': ('AssertPhaseInstructionFromParts', 'apply_as_assertion'),
    'cleanup': ('CleanupPhaseInstructionFromParts', 'apply_as_non_assertion'),
}


def clause_g(c: Check):
    ix, fo = c.ix, c.fo
    parts_cls = ix.cls('exactly_lib.impls.instructions.multi_phase.utils.instruction_parts:InstructionParts')
    sdv_validator = ix.cls('exactly_lib.type_val_deps.dep_variants.sdv.sdv_validation:SdvValidator')
    for pkg, (cls_name, apply_name) in sorted(ADAPTERS.items()):
        modname = 'exactly_lib.impls.instructions.%s.utils.instruction_from_parts' % pkg
        cls = ix.cls(modname + ':' + cls_name)
        init = ix.class_member(cls, '__init__')
        parts_param = init.positional_params()[1].arg

        class H(Hooks):
            def inline(self, fd, st):
                if fd.module.name in ('exactly_lib.impls.svh_validators', 'exactly_lib.test_case.result.svh',
                                      'exactly_lib.test_case.result.sh', 'exactly_lib.test_case.result.pfh',
                                      'exactly_lib.impls.instructions.cleanup.utils.validation'):
                    return not util.is_abstract_body(fd)
                f = fd
                while f is not None:
                    if f.cls is not None:
                        return f.cls == cls
                    f = f.parent
                return False

            def inline_class(self, cd, st):
                return cd.module.name in ('exactly_lib.impls.svh_validators',
                                          'exactly_lib.impls.instructions.cleanup.utils.validation')

        def is_parts_validation(step):
            def pred(d, n, cv):
                return isinstance(d, FuncDef) and d.name == step and d.cls == sdv_validator
            return pred

        def fresh(step, with_exec=True):
            hooks = H()
            fh = ForkHooks(ix)
            fh.fork_on(is_parts_validation(step), [('valid', lambda: NONE), ('invalid', lambda: K('MSG'))])
            fh.inline = hooks.inline
            fh.inline_class = hooks.inline_class
            return fh

        # ---- symbol_usages
        su = ix.class_member(cls, 'symbol_usages')
        from ..fold import single_return_expr
        r = single_return_expr(su)
        ok = isinstance(r, ast.Attribute) and r.attr == 'symbol_usages' and isinstance(r.value, ast.Attribute)
        c.expect(ok, 'C03-g', pkg + '/symbol_usages', 'symbol_usages() does not return the parts\' symbol usages',
                 su.loc())
        # ---- validate_pre_sds
        vp = ix.class_member(cls, 'validate_pre_sds')
        it = Interp(ix, fo, fresh('validate_pre_sds_if_applicable'))
        parts = Sym('parts', cls=parts_cls, nullness=False, origin=('parts',))
        objs = it.instantiate(cls, State(), {parts_param: parts})
        c.require(len(objs) == 1, 'C03-g: adapter constructor forks')
        obj, st0 = objs[0]
        st0.trace = []
        seen = set()
        for p in it.run_function(vp, st=st0, recv=obj):
            labs = labels_of(p)
            c.require(len(labs) == 1, 'C03-g: %s.validate_pre_sds consults the validator %d times' % (pkg, len(labs)))
            seen.add(labs[0])
            v = p.val.v if p.kind == 'return' and isinstance(p.val, K) and isinstance(p.val.v, Record) else None
            succ = fo.record_attr(v, 'is_success') if v is not None else None
            verr = fo.record_attr(v, 'is_validation_error') if v is not None else None
            if labs[0] == 'valid':
                c.expect(succ is True, 'C03-g', pkg + '/validate_pre_sds/valid',
                         'a valid instruction is reported as %s' % util.describe(p.val), vp.loc())
            else:
                c.expect(succ is False and verr is True, 'C03-g', pkg + '/validate_pre_sds/invalid',
                         'a pre-sds validation error of the parts\' validator is reported as %s' % util.describe(p.val),
                         vp.loc())
        c.require(seen == {'valid', 'invalid'}, 'C03-g: %s.validate_pre_sds paths: %s' % (pkg, seen))
        # ---- main
        mn = ix.class_member(cls, 'main')
        it = Interp(ix, fo, fresh('validate_post_sds_if_applicable'))
        objs = it.instantiate(cls, State(), {parts_param: Sym('parts', cls=parts_cls, nullness=False,
                                                              origin=('parts',))})
        obj, st0 = objs[0]
        st0.trace = []
        seen = set()
        for p in it.run_function(mn, st=st0, recv=obj):
            labs = labels_of(p)
            c.require(len(labs) == 1, 'C03-g: %s.main consults the validator %d times' % (pkg, len(labs)))
            seen.add(labs[0])
            applies = [e for e in p.calls() if isinstance(e.node.func, ast.Attribute)
                       and e.node.func.attr.startswith('apply_as_')]
            if labs[0] == 'invalid':
                v = p.val.v if p.kind == 'return' and isinstance(p.val, K) and isinstance(p.val.v, Record) else None
                failed = False
                if v is not None:
                    s = fo.record_attr(v, 'is_success')
                    if is_unknown(s):
                        stt = fo.record_attr(v, 'status')
                        failed = isinstance(stt, EnumMember) and stt.name == 'HARD_ERROR'
                        if is_unknown(stt):
                            # multi statement property: evaluate abstractly
                            got = it.get_attr(p.val, 'status', State())
                            failed = all(isinstance(x[1], K) and getattr(x[1].v, 'name', None) == 'HARD_ERROR'
                                         for x in got) if got else False
                    else:
                        failed = s is False
                c.expect(failed and not applies, 'C03-g', pkg + '/main/invalid',
                         'post-sds validation failed but main %s and returns %s' % (
                             'executes the instruction' if applies else 'does not execute', util.describe(p.val)),
                         mn.loc())
            else:
                names = [e.node.func.attr for e in applies]
                c.expect(names == [apply_name], 'C03-g', pkg + '/main/valid',
                         'main applies the executor via %s (expected [%s])' % (names, apply_name), mn.loc())
                if names == [apply_name]:
                    ret_ok = p.kind == 'return' and isinstance(p.val, Sym) and util.root_sym(p.val).origin \
                             and util.root_sym(p.val).origin[0] == 'call' \
                             and util.root_sym(p.val).origin[5] == p.trace.index(applies[0])
                    c.expect(bool(ret_ok), 'C03-g', pkg + '/main/returns-executor-result',
                             'main does not return the executor\'s result (%s)' % util.describe(p.val), mn.loc())
        c.require(seen == {'valid', 'invalid'}, 'C03-g: %s.main paths: %s' % (pkg, seen))
        # ---- Parser of the package wraps the parts parser and builds this class
        ps = ix.cls(modname + ':Parser')
        pm = ix.class_member(ps, 'parse')
        rets = util.returned_values(pm)
        ok = len(rets) == 1 and isinstance(rets[0], ast.Call) and ix.callee(pm.module, pm, rets[0]) == cls
        c.expect(ok, 'C03-g', pkg + '/Parser.parse', 'Parser.parse does not build %s' % cls_name, pm.loc())


# ---------------------------------------------------------------- h
def clause_h(c: Check):
    """which step validates what: everything that does not depend on the sandbox is validated before execution"""
    ix, fo = c.ix, c.fo
    PR = 'exactly_lib.tcfs.path_relativity'
    dsp = fo.enum_members(ix.cls(PR + ':DirectoryStructurePartition'))
    c.require(set(dsp) == {'HDS', 'NON_HDS'}, 'C03-h: DirectoryStructurePartition members changed: %s' % sorted(dsp))
    # h1: PathDdv.exists_pre_sds
    f = ix.func('exactly_lib.type_val_deps.types.path.path_ddv:PathDdv.exists_pre_sds')
    hooks = ForkHooks(ix)
    hooks.fork_on(lambda d, n, cv: isinstance(n.func, ast.Attribute) and n.func.attr == 'resolving_dependency', [
        ('none', lambda: NONE), ('HDS', lambda: K(dsp['HDS'])), ('NON_HDS', lambda: K(dsp['NON_HDS']))])
    want = {'none': True, 'HDS': True, 'NON_HDS': False}
    seen = set()
    for p in util.func_paths(ix, fo, f, hooks):
        labs = labels_of(p)
        c.require(len(labs) == 1, 'C03-h: PathDdv.exists_pre_sds asks for the dependency %d times' % len(labs))
        seen.add(labs[0])
        got = p.val.v if p.kind == 'return' and isinstance(p.val, K) else util.describe(p.val)
        c.expect(got is want[labs[0]], 'C03-h', 'PathDdv.exists_pre_sds/' + labs[0],
                 'a path whose resolving dependency is %s is %svalidated before execution' % (
                     labs[0], '' if got is True else 'not '), f.loc())
    c.require(seen == set(want), 'C03-h: PathDdv.exists_pre_sds outcomes: %s' % seen)
    # h2: generic values
    g = ix.func('exactly_lib.type_val_deps.dep_variants.ddv.dir_dependent_value:WithDirDependenciesReporting.exists_pre_sds')
    sets = {'empty': frozenset(), 'HDS': frozenset([dsp['HDS']]), 'NON_HDS': frozenset([dsp['NON_HDS']]),
            'both': frozenset(dsp.values())}
    hooks = ForkHooks(ix)
    hooks.fork_on(lambda d, n, cv: isinstance(n.func, ast.Attribute) and n.func.attr == 'resolving_dependencies',
                  [(k, (lambda v=v: K(v))) for k, v in sets.items()])
    want = {'empty': True, 'HDS': True, 'NON_HDS': False, 'both': False}
    for p in util.func_paths(ix, fo, g, hooks):
        labs = labels_of(p)
        c.require(len(labs) == 1, 'C03-h: exists_pre_sds asks for the dependencies %d times' % len(labs))
        got = p.val.v if p.kind == 'return' and isinstance(p.val, K) else util.describe(p.val)
        c.expect(got is want[labs[0]], 'C03-h', 'WithDirDependenciesReporting.exists_pre_sds/' + labs[0],
                 'a value with dependencies {%s} is %svalidated before execution' % (
                     labs[0], '' if got is True else 'not '), g.loc())
    # h3: dependency table
    tab = fo.fold_path(PR + ':RESOLVING_DEPENDENCY_OF')
    rot = fo.enum_members(ix.cls(PR + ':RelOptionType'))
    c.require(isinstance(tab, dict), 'C03-h: RESOLVING_DEPENDENCY_OF not folded')
    for name, m in sorted(rot.items()):
        v = tab.get(m)
        want_v = 'HDS' if name.startswith('REL_HDS') else 'NON_HDS'
        c.expect(isinstance(v, EnumMember) and v.name == want_v, 'C03-h', 'RESOLVING_DEPENDENCY_OF/' + name,
                 'relativity %s is classified as %s (expected %s)' % (name, v, want_v), PR)
    # h4: the path validators validate in exactly one of the two steps, selected by exists_pre_sds
    PV = 'exactly_lib.impls.types.path.path_validator'
    for cls_name in ('PathSdvValidatorBase', 'PathDdvValidatorBase'):
        cls = ix.cls(PV + ':' + cls_name)
        for meth, want_when in (('validate_pre_sds_if_applicable', True), ('validate_post_sds_if_applicable', False)):
            f = ix.class_member(cls, meth)
            hooks = ForkHooks(ix)
            hooks.fork_on(lambda d, n, cv: isinstance(n.func, ast.Attribute) and n.func.attr == 'exists_pre_sds',
                          [('pre', lambda: K(True)), ('post', lambda: K(False))])
            seen = set()
            for p in util.func_paths(ix, fo, f, hooks):
                labs = labels_of(p)
                c.require(len(labs) == 1, 'C03-h: %s.%s tests exists_pre_sds %d times' % (cls_name, meth, len(labs)))
                seen.add(labs[0])
                validates = [e for e in p.calls() if isinstance(e.node.func, ast.Attribute)
                             and e.node.func.attr == '_validate_path']
                should = (labs[0] == 'pre') == want_when
                if should:
                    ok = len(validates) == 1 and p.kind == 'return' and isinstance(p.val, Sym) \
                         and util.root_sym(p.val).origin and util.root_sym(p.val).origin[0] == 'call' \
                         and util.root_sym(p.val).origin[5] == p.trace.index(validates[0])
                    arg = validates[0].data['args'][0] if validates else None
                    k = util.origin_call_key(util.root_sym(arg)) or ''
                    ok = ok and k.endswith('value_pre_sds__d' if want_when else 'value_post_sds__d')
                    c.expect(bool(ok), 'C03-h', '%s.%s/%s' % (cls_name, meth, labs[0]),
                             'a path that exists %s the sandbox is not validated (and the result returned) in this '
                             'step' % ('before' if want_when else 'only in'), f.loc())
                else:
                    ok = not validates and p.kind == 'return' and isinstance(p.val, K) and p.val.v is None
                    c.expect(ok, 'C03-h', '%s.%s/%s' % (cls_name, meth, labs[0]),
                             'the step validates a path that belongs to the other step', f.loc())
            c.require(seen == {'pre', 'post'}, 'C03-h: %s.%s outcomes %s' % (cls_name, meth, seen))


# ---------------------------------------------------------------- i
def clause_i(c: Check):
    """symbol validation looks at every symbol usage of every instruction"""
    ix, fo = c.ix, c.fo
    SV = 'exactly_lib.execution.partial_execution.impl.symbol_validation'
    f = ix.func(SV + ':ValidateSymbolsExecutor.apply')
    vsu = ix.func('exactly_lib.execution.impl.symbol_validation:validate_symbol_usages')
    user = f.positional_params()[1].arg
    paths = util.func_paths(ix, fo, f, Hooks())
    for p in paths:
        calls = [e for e in p.calls() if e.data['callee'] == vsu]
        ok = len(calls) == 1
        why = 'validate_symbol_usages is called %d times' % len(calls)
        if ok:
            a = calls[0].data['args'][0] if calls[0].data['args'] else calls[0].data['kwargs'].get('symbol_usages')
            v = util.root_sym(a)
            # list(x) / tuple(x) keep every element
            while isinstance(v, Sym) and util.origin_call_key(v) in ('builtins.list', 'builtins.tuple') and v.origin[2]:
                v = util.root_sym(v.origin[2][0])
            k = util.origin_call_key(v) or ''
            recv_ok = False
            if isinstance(v, Sym) and v.origin and v.origin[0] == 'call' and k.endswith('.symbol_usages'):
                recv_ok = True
            ok = recv_ok
            why = 'the usages given to validate_symbol_usages are %s, not all of %s.symbol_usages()' % (
                util.describe(a), user)
            tbl = calls[0].data['args'][1] if len(calls[0].data['args']) > 1 else None
            base, chain = util.attr_chain(tbl)
            ok = ok and bool(chain)
            # and its result is what apply returns
            ret_ok = p.kind == 'return' and isinstance(p.val, Sym) and util.root_sym(p.val).origin \
                     and util.root_sym(p.val).origin[0] == 'call' and util.root_sym(p.val).origin[1] == vsu.key
            if ok and not ret_ok:
                ok, why = False, 'the result of validate_symbol_usages is not returned'
        c.expect(ok, 'C03-i', 'ValidateSymbolsExecutor.apply/validates-all-usages', why, f.loc())
    # validate_symbol_usage dispatches both kinds of usage and refuses anything else
    vu = ix.func('exactly_lib.execution.impl.symbol_validation:validate_symbol_usage')
    ref = ix.cls('exactly_lib.symbol.sdv_structure:SymbolReference')
    dfn = ix.cls('exactly_lib.symbol.sdv_structure:SymbolDefinition')
    for cls, target in ((ref, '_validate_symbol_reference'), (dfn, '_validate_symbol_definition')):
        it = Interp(ix, fo, Hooks())
        st = State()
        usage = it.new_obj(cls)
        outs = set()
        for p in it.run_function(vu, args={vu.positional_params()[0].arg: usage}, st=st):
            k = util.origin_call_key(util.root_sym(p.val)) if p.kind == 'return' else 'raises'
            outs.add(k)
        c.expect(outs == {'exactly_lib.execution.impl.symbol_validation:' + target}, 'C03-i',
                 'validate_symbol_usage/' + cls.name, 'a %s is handled by %s' % (cls.name, outs), vu.loc())


# ---------------------------------------------------------------- j
def clause_j(c: Check):
    """act-phase syntax: the command-line actor examines the act source to its end - whatever follows the program
    (a second command line) is a syntax error found at parse time, before anything executes, never silently ignored.
    Typestate of the remainder check: it returns normally only when the end of the source has been established, or
    by handing the rest to itself after consuming a blank line."""
    ix, fo = c.ix, c.fo
    AP = 'exactly_lib.impls.actors.program.parse'
    rem = ix.func(AP + ':_syntax_error_if_not_at_eof')
    apply_ = ix.func(AP + ':Parser.apply')

    class H(Hooks):
        loop_bound = 2

        def inline(self, fd, st):
            return False

    n_ret = 0
    kinds = set()
    for p in util.func_paths(ix, fo, rem, H()):
        if p.kind != 'return':
            kinds.add('raises')
            continue
        n_ret += 1
        at_eof = None
        consumed = False
        delegated = False
        for e in p.trace:
            if e.kind == 'guard':
                test, truth = e.data
                if isinstance(test, ast.Attribute) and test.attr == 'is_at_eof':
                    at_eof = truth
                    delegated = False
            elif e.kind == 'call':
                if isinstance(e.node.func, ast.Attribute) and e.node.func.attr in ('consume_current_line', 'consume'):
                    consumed = True
                    at_eof = None
                    delegated = False
                elif e.data.get('callee') == rem:
                    delegated = consumed
        ok = at_eof is True or delegated
        kinds.add('at-eof' if at_eof is True else ('delegates' if delegated else 'other'))
        c.expect(ok, 'C03-j', 'act-source/examined-to-its-end',
                 'the check of what follows the program in [act] returns although the end of the source is not '
                 'established (a second command line is silently ignored and the first one executed)', rem.loc())
    c.floor('C03-j', 'returning paths of the remainder check', n_ret, 1)
    c.expect('raises' in kinds, 'C03-j', 'act-source/superfluous-is-an-error',
             'nothing after the program is ever reported as an error', rem.loc())
    # apply: parse the program, then check the remainder of the same source, then build the object
    ok = False
    for p in util.func_paths(ix, fo, apply_, H()):
        if p.kind != 'return':
            continue
        calls = p.calls()
        pi = [i for i, e in enumerate(calls) if isinstance(e.node.func, ast.Attribute) and e.node.func.attr == '_parse_program']
        ri = [i for i, e in enumerate(calls) if e.data.get('callee') == rem]
        ok = len(pi) == 1 and len(ri) == 1 and pi[0] < ri[0] \
             and calls[pi[0]].data['args'] and calls[ri[0]].data['args'] \
             and util.root_sym(calls[pi[0]].data['args'][0]) is util.root_sym(calls[ri[0]].data['args'][0])
    c.expect(ok, 'C03-j', 'act-source/remainder-checked-after-parse',
             'the command-line actor does not check the rest of the act source after parsing the program', apply_.loc())


# ---------------------------------------------------------------- k
def clause_k(c: Check):
    """validation has two rounds (before and after the sandbox exists) over the SAME validator objects, which live
    from parsing to execution: a collection of validators / parts that an object keeps and traverses in its methods is
    not a one-shot iterator (a generator expression, map, filter ...) - the first round would use it up and the second
    round would validate nothing, silently"""
    from .C14 import _one_shot_stores
    ix = c.ix
    n_mod = 0
    found = 0
    for name in ix.all_module_names():
        if not any(name.startswith(p) for p in ('exactly_lib.impls.', 'exactly_lib.type_val_deps.', 'exactly_lib.test_case.',
                                                'exactly_lib.symbol.')):
            continue
        m = ix.module(name)
        n_mod += 1
        for f, x, what in _one_shot_stores(ix, m):
            found += 1
            c.bad('C03-k', 'one-shot-iterator-kept/%s/%s' % (f.key if f else name, unparse(x.targets[0])),
                  '%s is assigned %s: it can be traversed once, but the object is used in both validation rounds (and at '
                  'execution) - the second traversal finds nothing, so what it should have validated is not validated' % (
                      unparse(x.targets[0]), what), '%s:%d' % (m.relpath, x.lineno))
    c.floor('C03-k', 'modules scanned for one-shot iterators kept by validators', n_mod, 500)
    if not found:
        c.ok('C03-k', 'no-one-shot-iterator-kept', detail='%d modules' % n_mod)
