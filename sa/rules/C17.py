"""C17 Cases are independent; suite contents apply alike standalone and in a suite run (DESIGN.md section 5)."""
import ast
from typing import List, Optional, Tuple

from ..core import Index, FuncDef, ClassDef, External, ModuleRef, AnalysisError, unparse, walk_own, dotted_name, parent
from ..fold import Folder, Record, EnumMember, Ref, is_unknown, single_return_expr
from ..absint import Interp, Hooks, State, K, Sym, Obj, Exc, NONE, ListVal
from ..report import Check
from .. import util
from .common import ForkHooks, labels_of, suite_reading_method, check_no_shared_class_state

P = 'exactly_lib.processing.processors'
EXECUTOR_MOD = 'exactly_lib.execution.partial_execution.impl.executor'
SFR = 'exactly_lib.test_suite.file_reading.suite_file_reading'
SHR = 'exactly_lib.test_suite.file_reading.suite_hierarchy_reading'
AR = 'exactly_lib.processing.standalone.accessor_resolver'


def check(c: Check):
    c.explanation = (
        'Freshness chains (every mutable per-case value - symbol tables, environment dicts - is copied at least once '
        'on its way from the shared configuration to the place instructions mutate it, and the copy is made per '
        'case), no module-level state written by execution code, composition analysis of the suite-contents '
        'transformer (suite before case in every phase except cleanup; on every path of the concatenation both '
        'operands are kept unless the path condition says one is empty), who-may-call and decision table of the '
        'handling-setup resolution shared by standalone and suite runs, and plumbing of the per-suite handling '
        'setup. Decides clauses a-e of DESIGN.md C17; cwd restoration per case is C04-a.')
    clause_a(c)
    clause_c(c)
    clause_d(c)
    clause_e(c)
    if c.tier == 'thorough':
        clause_f(c)
    clause_g(c)
    clause_h(c)


# ---------------------------------------------------------------- a
def classify_copy(ix: Index, m, f, node) -> str:
    """COPY: the expression makes a new container from its operand; PASS: hands the operand on; OTHER"""
    if node is None:
        return 'ABSENT'
    if isinstance(node, ast.Call):
        d = ix.callee(m, f, node)
        if isinstance(node.func, ast.Attribute) and node.func.attr == 'copy' and not node.args:
            return 'COPY'
        if isinstance(d, External) and d.dotted in ('builtins.dict', 'builtins.list', 'copy.copy', 'copy.deepcopy'):
            return 'COPY'
        if isinstance(d, FuncDef) and d.key == 'exactly_lib.util.functional:map_optional' and len(node.args) == 2:
            a0 = ix.resolve_static(m, f, node.args[0])
            if isinstance(a0, External) and a0.dotted in ('builtins.dict', 'copy.copy'):
                return 'COPY'
        if isinstance(d, ClassDef) and d.name == 'SymbolTable':
            return 'COPY'
        return 'OTHER'
    if isinstance(node, (ast.Name, ast.Attribute)):
        return 'PASS'
    return 'OTHER'


def _constructs(ix, d, depth: int) -> bool:
    """d is a class, or a function every return of which is the call of a class / of such a function (depth <= 3):
    each call gives a newly constructed object"""
    from ..core import ClassDef, FuncDef
    if isinstance(d, ClassDef):
        return True
    if not isinstance(d, FuncDef) or depth > 3 or d.is_generator or d.decorators:
        return False
    rets = util.returned_values(d)
    if not rets:
        return False
    for v in rets:
        v = util.resolve_temp(d, v)
        if not isinstance(v, ast.Call) or not _constructs(ix, ix.callee(d.module, d, v), depth + 1):
            return False
    return True


def clause_a(c: Check):
    ix = c.ix
    ec = ix.cls('exactly_lib.execution.configuration:ExecutionConfiguration')
    upd = ix.func(P + ':_Executor._exe_conf_that_may_be_updated')
    hop1 = {}
    for call, d in util.calls_in(ix, upd):
        if d == ec:
            b = util.ctor_call_args(ix, ec, call) or {}
            for k in ('environ', 'predefined_symbols'):
                hop1[k] = (classify_copy(ix, upd.module, upd, b.get(k)), unparse(b.get(k)) if b.get(k) is not None else None)
    c.require(set(hop1) == {'environ', 'predefined_symbols'}, 'C17-a: ExecutionConfiguration construction in '
                                                              '_exe_conf_that_may_be_updated not recognised')
    # the per-case configuration is made inside apply (per case), from the shared one
    ap = ix.func(P + ':_Executor.apply')
    full = ix.func('exactly_lib.execution.full_execution.execution:execute')
    ok = False
    for call, d in util.calls_in(ix, ap):
        if d == full:
            b = util.bound_call_args(full, call, False) or {}
            a = b.get('conf')
            ok = isinstance(a, ast.Call) and ix.callee(ap.module, ap, a) == upd
    c.expect(ok, 'C17-a', '_Executor.apply/per-case-configuration',
             'the execution configuration handed to full execution is not rebuilt per case by '
             '_exe_conf_that_may_be_updated()', ap.loc())
    # the configuration builder ([conf] settings: status, actor, home directories, timeout) is mutable and is made
    # anew for every case: the value handed to full execution is constructed during this very call of apply - by a
    # function every return of which constructs its result - not taken from state kept in the executor
    from ..absint import Interp, Hooks, State, Sym

    class HA(Hooks):
        def inline(self, fd, st):
            return fd.cls is ap.cls and fd is not ap and fd is not upd

    it = Interp(ix, c.fo, HA())
    n_calls = 0
    for p in it.run_function(ap, {}):
        for e in p.calls():
            if e.data.get('callee') != full:
                continue
            n_calls += 1
            names = [q.arg for q in full.positional_params()]
            given = dict(zip(names, e.data['args']))
            given.update(e.data['kwargs'])
            v = given.get('configuration_builder')
            o = v.origin if isinstance(v, Sym) else None
            fresh = False
            how = util.describe(v) if v is not None else 'nothing'
            if o and o[0] == 'call':
                d = ix.try_lookup(o[1]) if ':' in o[1] else None
                fresh = d is not None and _constructs(ix, d, 0)
            c.expect(fresh, 'C17-a', '_Executor.apply/configuration-builder-fresh-per-case',
                     'the configuration builder handed to full execution is %s - not an object constructed for this '
                     'case: what [conf] of one case sets (status, actor, timeout, home directories) is in force for the '
                     'cases after it' % how, ap.loc())
    c.require(n_calls >= 1, 'C17-a: _Executor.apply does not call full execution')
    # second hops
    init = ix.func(EXECUTOR_MOD + ':_PartialExecutor.__init__')
    post = ix.func(EXECUTOR_MOD + ':_PartialExecutor._setup_post_sds_environment')
    sv_init = ix.func('exactly_lib.execution.partial_execution.impl.symbol_validation:SymbolsValidator.__init__')
    iset = ix.cls('exactly_lib.test_case.phases.instruction_settings:InstructionSettings')
    hops2 = {}
    for n in walk_own(post.node):
        if isinstance(n, ast.Assign) and isinstance(n.targets[0], ast.Attribute) \
                and n.targets[0].attr.endswith('post_sds_symbol_table'):
            hops2['symbols/execution'] = (classify_copy(ix, post.module, post, n.value), unparse(n.value), post)
    for n in walk_own(sv_init.node):
        if isinstance(n, ast.Assign) and isinstance(n.targets[0], ast.Attribute) and n.targets[0].attr == '_symbols':
            hops2['symbols/validation'] = (classify_copy(ix, sv_init.module, sv_init, n.value), unparse(n.value), sv_init)
    for call, d in util.calls_in(ix, init):
        if d == iset:
            b = util.ctor_call_args(ix, iset, call) or {}
            a = b.get('environ')
            hops2['environ/instructions'] = (classify_copy(ix, init.module, init, a), unparse(a) if a is not None else None,
                                             init)
        elif isinstance(call.func, ast.Attribute) and call.func.attr == 'mk_setup_settings_handler' and call.args:
            hops2['environ/act'] = (classify_copy(ix, init.module, init, call.args[0]), unparse(call.args[0]), init)
    want = {'symbols/execution', 'symbols/validation', 'environ/instructions', 'environ/act'}
    c.require(set(hops2) == want, 'C17-a: hops not found: %s' % sorted(want - set(hops2)))
    for chain, (cls2, txt2, fd2) in sorted(hops2.items()):
        k = 'predefined_symbols' if chain.startswith('symbols') else 'environ'
        cls1, txt1 = hop1[k]
        kinds = [cls1, cls2]
        c.expect('COPY' in kinds and 'OTHER' not in kinds and 'ABSENT' not in kinds, 'C17-a', 'fresh-per-case/' + chain,
                 'the %s reaching %s is the object shared by all cases of the process: neither `%s` (per case, in '
                 '_Executor) nor `%s` (in %s) copies it' % ('symbol table' if k == 'predefined_symbols' else
                                                            'environment', chain.split('/')[1], txt1, txt2,
                                                            fd2.key.split(':')[-1]), fd2.loc(),
                 detail='%s -> %s' % (cls1, cls2))
    # SymbolTable.copy really copies
    st = ix.cls('exactly_lib.util.symbol_table:SymbolTable')
    cp = ix.class_member(st, 'copy')
    r = single_return_expr(cp)
    ok = isinstance(r, ast.Call) and ix.callee(cp.module, cp, r) == st and r.args and isinstance(r.args[0], ast.Call) \
         and isinstance(ix.callee(cp.module, cp, r.args[0]), External)
    c.expect(ok, 'C17-a', 'SymbolTable.copy', 'SymbolTable.copy() does not build a new table from a copy of the dict',
             cp.loc())
    # the suite route builds one _Executor per suite but the per-case copy is in apply (above); the standalone route
    # too. No module-level state is written by execution code:
    n_mod = 0
    for prefix in ('exactly_lib.execution', 'exactly_lib.impls.instructions', 'exactly_lib.processing',
                   'exactly_lib.test_suite', 'exactly_lib.impls.actors'):
        for name in ix.all_module_names():
            if not (name == prefix or name.startswith(prefix + '.')):
                continue
            t = ix.text(name)
            n_mod += 1
            if 'global ' not in t and 'lru_cache' not in t and 'functools.cache' not in t:
                continue
            m = ix.module(name)
            for n in ast.walk(m.tree):
                if isinstance(n, ast.Global):
                    f = m.enclosing_func(n)
                    c.bad('C17-a', 'module-state/global@' + (f.key if f else name),
                          'module-level state %s is written while executing (carries over between cases)' % n.names,
                          '%s:%d' % (m.relpath, n.lineno))
            for f in m.all_funcs:
                for d in f.decorators:
                    if d.split('.')[-1] in ('lru_cache', 'cache', 'cached_property') and f.cls is None:
                        c.bad('C17-a', 'module-state/cache@' + f.key,
                              'a process-wide cache (%s) keeps values between cases' % d, f.loc())
    c.ok('C17-a', 'module-state/none', '%d execution modules: no global statement, no process-wide cache' % n_mod)
    c.floor('C17-a', 'execution modules scanned', n_mod, 150)
    # ... nor kept in a container bound in a class body (shared by all instances for the life of the process)
    check_no_shared_class_state(c, 'C17-a', ['exactly_lib'], 1500,
                                'what one test case stores there is found by the following cases of the suite')


# ---------------------------------------------------------------- c
PHASES = ['configuration_phase', 'setup_phase', 'act_phase', 'before_assert_phase', 'assert_phase', 'cleanup_phase']


def clause_c(c: Check):
    ix, fo = c.ix, c.fo
    tr = ix.func(SFR + ':_TestCaseInstructionsFromTestSuiteAdder.transform')
    case_param = tr.positional_params()[1].arg
    tc = ix.cls('exactly_lib.test_case.test_case_doc:TestCase')
    app = None
    for kind, *rest in tr.local_bindings().get('append', []):
        if kind == 'def':
            app = rest[0]
    # the suite's phases
    suite_var = None
    for n in walk_own(tr.node):
        if isinstance(n, ast.Assign) and isinstance(n.targets[0], ast.Name) and 'case_phases' in unparse(n.value):
            suite_var = n.targets[0].id
    c.require(suite_var is not None, 'C17-c: the suite\'s case phases variable not found in transform')
    found = 0
    for call, d in util.calls_in(ix, tr):
        if d == tc:
            b = util.ctor_call_args(ix, tc, call) or {}
            for ph in PHASES:
                a = b.get(ph)
                key = 'transform/' + ph
                if not (isinstance(a, ast.Call) and len(a.args) == 2):
                    c.bad('C17-c', key, 'phase %s is built by %s' % (ph, unparse(a) if a is not None else None), tr.loc())
                    continue
                found += 1
                first, second = unparse(a.args[0]), unparse(a.args[1])
                s_expr, c_expr = '%s.%s' % (suite_var, ph), '%s.%s' % (case_param, ph)
                want = (c_expr, s_expr) if ph == 'cleanup_phase' else (s_expr, c_expr)
                c.expect((first, second) == want, 'C17-c', key,
                         'phase %s is composed as (%s, %s); documented: %s' % (
                             ph, first, second, 'case then suite' if ph == 'cleanup_phase' else 'suite then case'),
                         tr.loc())
                callee = ix.callee(tr.module, tr, a)
                c.expect(app is not None and callee == app, 'C17-c', key + '/concatenation',
                         'phase %s is not combined by the concatenation helper' % ph, tr.loc())
    c.floor('C17-c', 'phases composed in transform', found, 6)
    # the concatenation keeps both operands, first then second, on every path
    c.require(app is not None, 'C17-c: helper append not found')
    fst, snd = [p.arg for p in app.positional_params()]
    it = Interp(ix, fo, Hooks())
    paths = it.run_function(app)
    for i, p in enumerate(paths):
        facts = {}
        for test, truth in p.guards:
            facts[unparse(test)] = truth
        key = 'append/path/' + ','.join('%s=%s' % kv for kv in sorted(facts.items())) if facts else 'append/path/unconditional'
        if p.kind != 'return':
            c.bad('C17-c', key, 'concatenation raises', app.loc())
            continue
        order = _operand_order(p.val, fst, snd)
        if order == [fst, snd]:
            c.ok('C17-c', key, 'both operands, in order')
            continue
        v = util.root_sym(p.val)
        returned = None
        if isinstance(v, Sym) and v.origin and v.origin[0] == 'param':
            returned = v.origin[1]
        other = {fst: snd, snd: fst}.get(returned)
        justified = other is not None and facts.get(other + '.elements') is False
        c.expect(justified, 'C17-c', key,
                 'on this path the concatenation returns %s: the contents of %s are lost although nothing says they '
                 'are empty' % (util.describe(p.val), other or 'an operand'), app.loc())
    c.floor('C17-c', 'paths of the concatenation helper', len(paths), 1)
    # the composed transformer applies default then suite adder; the handling setup of a suite uses it
    rs = ix.func(SFR + ':resolve_test_case_handling_setup')
    ok = False
    for call, d in util.calls_in(ix, rs):
        if isinstance(d, ClassDef) and d.name == 'ComposedTestCaseTransformer' and len(call.args) == 2:
            second = call.args[1]
            b = rs.local_bindings().get(unparse(second), [])
            ok = any(x[0] == 'assign' and isinstance(x[1], ast.Call)
                     and getattr(ix.callee(rs.module, rs, x[1]), 'name', None) == '_TestCaseInstructionsFromTestSuiteAdder'
                     and unparse(x[1].args[0]) == rs.positional_params()[0].arg for x in b)
    c.expect(ok, 'C17-c', 'resolve_test_case_handling_setup/adds-suite-contents',
             'the handling setup of a suite does not include the transformer that adds the suite\'s own contents',
             rs.loc())


def _operand_order(v, fst: str, snd: str) -> List[str]:
    """parameters whose .elements flow into the value, in left-to-right order"""
    out = []

    def walk(x, depth=0):
        if depth > 10:
            return
        if isinstance(x, K) and isinstance(x.v, Record):
            for a in x.v.args.values():
                walk(a, depth + 1)
            return
        if isinstance(x, ListVal):
            for a in x.items:
                walk(a, depth + 1)
            return
        if not isinstance(x, Sym):
            return
        r = util.root_sym(x)
        o = r.origin
        if not o:
            return
        if o[0] == 'attr':
            base, chain = util.attr_chain(x)
            if chain == ('elements',) and isinstance(base, Sym) and base.origin and base.origin[0] == 'param':
                out.append(base.origin[1])
            return
        if o[0] == 'call':
            for a in list(o[2]) + list(o[3].values()):
                walk(a, depth + 1)
        elif o[0] == 'op':
            for a in o[2]:
                walk(a, depth + 1)
        elif o[0] in ('index', 'starred', 'comp'):
            walk(o[1], depth + 1)

    walk(v)
    return out


# ---------------------------------------------------------------- d
def clause_d(c: Check):
    ix, fo = c.ix, c.fo
    rs = ix.func(SFR + ':resolve_test_case_handling_setup')
    rf = ix.func(SFR + ':resolve_handling_setup_from_suite_file')
    # who may derive a handling setup from a suite: the hierarchy reader (any method of it - the rule is about the
    # route, not about the name of the method) and the standalone route
    reader_cls = ix.cls(SHR + ':_SingleFileReader')
    allowed = {
        rs.key: lambda s: s.where == rf.key or (s.func is not None and s.func.cls is reader_cls),
        rf.key: lambda s: s.where == AR + ':AccessorResolver._handling_setup',
    }
    floors = {rs.key: 2, rf.key: 1}
    for target in (rs, rf):
        sites = [s for s in util.references_to(ix, target) if not isinstance(parent(s.node), (ast.Import, ast.ImportFrom))]
        for s in sites:
            c.expect(allowed[target.key](s), 'C17-d', 'who-may-call/%s@%s' % (target.name, s.where),
                     '%s is used from %s: suite contents would be derived differently for that route' % (
                         target.name, s.where), s.loc)
        c.floor('C17-d', 'uses of ' + target.name, len(sites), floors[target.key])
    # every suite of a hierarchy is resolved against the DEFAULT handling setup of the reading environment - never
    # against the setup resolved for the enclosing suite (suite contents do not reach the cases of sub-suites)
    n_sites = 0
    for s in util.call_sites_of(ix, rs):
        if s.func is None or s.func.cls is not reader_cls:
            continue
        n_sites += 1
        b = util.bound_call_args(rs, s.node, skip_first=False)
        c.require(b is not None and rs.positional_params()[1].arg in b,
                  'C17-d: the arguments of %s at %s are not understood' % (rs.name, s.loc))
        bad = _not_the_default_setup(ix, s.func, b[rs.positional_params()[1].arg], 0, set())
        c.expect(bad is None, 'C17-d', 'hierarchy-reader/%s/resolved-against-the-default-setup' % s.func.name,
                 'a suite of the hierarchy is resolved against %s, not against the default handling setup of the '
                 'reading environment: the contents of an enclosing suite reach the cases of its sub-suites' % bad,
                 s.loc)
    c.floor('C17-d', 'suite resolutions in the hierarchy reader', n_sites, 1)
    # standalone: the case file is the file NAMED on the command line - symbolic links not followed - as a case listed
    # in a suite is the file named there: `exactly.suite` is looked for beside that name and the home directory is
    # the directory of that name
    tces = ix.cls('exactly_lib.processing.standalone.settings:TestCaseExecutionSettings')
    n_s = 0
    for s_ in util.call_sites_of(ix, tces):
        if not s_.where.startswith('exactly_lib.cli.program_modes.test_case.argument_parsing:'):
            continue
        n_s += 1
        b = util.ctor_call_args(ix, tces, s_.node) or {}
        a = b.get('test_case_file_path')
        a = util.resolve_temp(s_.func, a) if a is not None else None
        d = ix.callee(s_.module, s_.func, a) if isinstance(a, ast.Call) else None
        ok = isinstance(d, External) and d.dotted in ('pathlib.Path', 'pathlib.PurePath') and len(a.args) == 1 \
            and isinstance(a.args[0], ast.Attribute) and not a.keywords
        c.expect(ok, 'C17-d', 'standalone/case-file-is-the-file-named@' + s_.where,
                 'the case file of a standalone run is `%s`, not the path as given on the command line: for a case '
                 'reached through a symbolic link the suite beside it and its home directory differ from those of the '
                 'same case listed in a suite' % (unparse(a) if a is not None else None), s_.loc)
        # ... and the suite given with --suite is the file NAMED there (a suite run uses the names as listed:
        # `home`, `act-home`, `including` in the suite are relative to the location of that name, not of a link target)
        a2 = b.get('run_as_part_of_explicit_suite')
        if a2 is not None:
            bad = _resolved_somewhere(ix, s_.func, a2, 0)
            c.expect(bad is None, 'C17-d', 'standalone/explicit-suite-is-the-file-named@' + s_.where,
                     'the suite file of `--suite` is %s: a suite reached through a symbolic link is read relative to '
                     'the link target standalone, but relative to the link in a suite run' % bad, s_.loc)
    c.floor('C17-d', 'constructions of the standalone settings from the command line', n_s, 1)
    # rf reads the suite and resolves with rs
    ok = False
    for call, d in util.calls_in(ix, rf):
        if d == rs and len(call.args) == 2:
            ok = unparse(call.args[1]) == rf.positional_params()[0].arg
    c.expect(ok, 'C17-d', 'resolve_handling_setup_from_suite_file/plumbing',
             'the standalone route does not resolve the suite with the default handling setup it was given', rf.loc())
    hs = ix.func(AR + ':AccessorResolver._handling_setup')
    # the default suite file is the one beside the case file AS NAMED (no resolution of links on the way)
    if nested_for_default(hs) is not None:
        nf_ = nested_for_default(hs)
        for r in util.returned_values(nf_):
            bad = _resolved_somewhere(ix, nf_, r, 0)
            c.expect(bad is None, 'C17-d', 'standalone/default-suite-beside-the-file-named',
                     'the default suite file of a standalone run is looked for at a path that is %s: for a case reached '
                     'through a symbolic link the `exactly.suite` beside the link is not found' % bad, nf_.loc())
    # a suite that cannot be read is an error of the standalone run too (as it is INVALID_SUITE in a suite run): when
    # reading / resolving the suite fails, `_handling_setup` fails - it never falls back to running without the suite
    spe = ix.try_lookup('exactly_lib.test_suite.file_reading.exception:SuiteParseError')
    c.require(isinstance(spe, ClassDef), 'C17-d: SuiteParseError not found')

    class HS(Hooks):
        def inline(self, fd, st):
            return fd is nested_for_default(hs)

        def may_raise(self, callee_def, node, st):
            return [spe] if callee_def is rf else []

    n_fail = 0
    for p in util.func_paths(ix, fo, hs, HS()):
        if not any(e.kind == 'raised' for e in p.trace):
            continue
        n_fail += 1
        c.expect(p.kind == 'raise', 'C17-d', 'standalone/unreadable-suite-is-an-error',
                 'when the suite (given or found beside the case) cannot be read the standalone run goes on with %s: '
                 'the case is run without the contents of its suite, while the suite run reports INVALID_SUITE' % (
                     util.describe(p.val) if p.kind == 'return' else p.kind), hs.loc())
    c.floor('C17-d', 'paths of _handling_setup on which reading the suite fails', n_fail, 1)
    # decision table of the suite file selection
    nested = None
    for kind, *rest in hs.local_bindings().get('get_suite_file', []):
        if kind == 'def':
            nested = rest[0]

    class H(ForkHooks):
        pass

    for explicit_given in (True, False):
        for default_exists in (True, False):
            hooks = ForkHooks(ix)
            hooks.fork_on(lambda d, n, cv: isinstance(n.func, ast.Attribute) and n.func.attr == 'is_file',
                          [('is_file', lambda default_exists=default_exists: K(default_exists))])
            if nested is not None:
                hooks.inline_set = {nested}
            explicit = Sym('explicit', truth=True, nullness=False, origin=('explicit',)) if explicit_given else NONE
            paths = util.func_paths(ix, fo, hs, hooks, args={hs.positional_params()[2].arg: explicit})
            outs = set()
            for p in paths:
                if p.kind != 'return':
                    outs.add('raises')
                    continue
                k = util.origin_call_key(util.root_sym(p.val))
                if k == rf.key:
                    o = util.root_sym(p.val).origin
                    b = dict(zip([q.arg for q in rf.positional_params()], o[2]))
                    b.update(o[3])
                    sf = b.get('suite_to_read_config_from')
                    r = util.root_sym(sf)
                    if isinstance(r, Sym) and r.origin == ('explicit',):
                        outs.add('explicit suite')
                    else:
                        outs.add('default suite beside the case' if _mentions_default(sf) else '?' + util.describe(sf))
                else:
                    base, chain = util.attr_chain(p.val)
                    outs.add('no suite' if chain[-1:] == ('_default_handling_setup',) else '?' + util.describe(p.val))
            want = 'explicit suite' if explicit_given else ('default suite beside the case' if default_exists else 'no suite')
            c.expect(outs == {want}, 'C17-d', 'suite-selection/explicit=%s/default-exists=%s' % (explicit_given, default_exists),
                     'with%s --suite and %s exactly.suite beside the case the handling setup comes from: %s '
                     '(documented: %s)' % ('' if explicit_given else 'out', 'an' if default_exists else 'no',
                                           sorted(outs), want), hs.loc())


def _not_the_default_setup(ix, f: FuncDef, expr, depth: int, seen: set) -> Optional[str]:
    """None when every value `expr` can stand for in f is the reading environment's default handling setup (an
    attribute path ending in `default_test_case_handling_setup`, or a parameter that receives only such values at
    every call of f inside its class); otherwise a description of the offending value"""
    if depth > 4:
        return 'a value passed through more than 4 calls'
    if isinstance(expr, ast.Attribute):
        return None if expr.attr == 'default_test_case_handling_setup' else '`%s`' % unparse(expr)
    if not isinstance(expr, ast.Name):
        return '`%s`' % unparse(expr)
    bs = f.local_bindings().get(expr.id, [])
    if not bs:
        return '`%s`' % expr.id
    for b in bs:
        if b[0] in ('assign', 'annassign') and b[1] is not None:
            r = _not_the_default_setup(ix, f, b[1], depth + 1, seen)
            if r is not None:
                return r + ' (bound to `%s` in %s)' % (expr.id, f.name)
        elif b[0] == 'param':
            if (f.key, expr.id) in seen:
                continue
            seen.add((f.key, expr.id))
            sites = [s for s in util.references_to(ix, f) if not isinstance(parent(s.node), (ast.Import, ast.ImportFrom))]
            if not sites:
                return 'parameter `%s` of %s (no call found)' % (expr.id, f.name)
            for s in sites:
                call = parent(s.node)
                if not (isinstance(call, ast.Call) and call.func is s.node) or s.func is None:
                    return 'parameter `%s` of %s, which is handed on as a value at %s' % (expr.id, f.name, s.loc)
                ba = util.bound_call_args(f, call, skip_first=f.cls is not None and not f.is_static)
                if ba is None or expr.id not in ba:
                    return 'parameter `%s` of %s (call at %s not understood)' % (expr.id, f.name, s.loc)
                r = _not_the_default_setup(ix, s.func, ba[expr.id], depth + 1, seen)
                if r is not None:
                    return r + ' (argument `%s` at %s)' % (expr.id, s.loc)
        else:
            return '`%s` bound by %s' % (expr.id, b[0])
    return None


def _resolved_somewhere(ix, f: FuncDef, expr, depth: int) -> Optional[str]:
    """None when no value `expr` can stand for has passed through a path resolution (`.resolve()`, os.path.realpath,
    or a function of the repository that resolves); otherwise a description"""
    if depth > 5 or expr is None:
        return None
    if isinstance(expr, ast.Constant):
        return None
    if isinstance(expr, ast.Name):
        for b in f.local_bindings().get(expr.id, []):
            if b[0] in ('assign', 'annassign') and b[1] is not None:
                r = _resolved_somewhere(ix, f, b[1], depth + 1)
                if r is not None:
                    return r
        return None
    if isinstance(expr, ast.BinOp):
        return _resolved_somewhere(ix, f, expr.left, depth + 1) or _resolved_somewhere(ix, f, expr.right, depth + 1)
    if isinstance(expr, ast.IfExp):
        return _resolved_somewhere(ix, f, expr.body, depth + 1) or _resolved_somewhere(ix, f, expr.orelse, depth + 1)
    if isinstance(expr, ast.Attribute):
        return _resolved_somewhere(ix, f, expr.value, depth + 1)
    if isinstance(expr, ast.Call):
        if isinstance(expr.func, ast.Attribute) and expr.func.attr in ('resolve', 'absolute', 'readlink'):
            return 'resolved with `%s`' % unparse(expr)[:60]
        d = ix.callee(f.module, f, expr)
        if isinstance(d, External):
            if d.dotted in ('os.path.realpath', 'os.path.abspath'):
                return 'resolved with %s' % d.dotted
            for a in expr.args:
                r = _resolved_somewhere(ix, f, a, depth + 1)
                if r is not None:
                    return r
            return None
        if isinstance(d, FuncDef):
            if _resolves(ix, d, 0):
                return 'the result of %s, which resolves the path' % d.name
            return None
        return None
    return None


def _resolves(ix, d: FuncDef, depth: int) -> bool:
    for n in ast.walk(d.node):
        if isinstance(n, ast.Call):
            if isinstance(n.func, ast.Attribute) and n.func.attr == 'resolve' and not n.args:
                return True
            if depth < 2:
                cd = ix.callee(d.module, d.module.enclosing_func(n) or d, n)
                if isinstance(cd, FuncDef) and cd is not d and _resolves(ix, cd, depth + 1):
                    return True
                if isinstance(cd, External) and cd.dotted == 'os.path.realpath':
                    return True
    return False


def nested_for_default(hs: FuncDef):
    for kind, *rest in hs.local_bindings().get('get_suite_file', []):
        if kind == 'def':
            return rest[0]
    return None


def _mentions_default(v) -> bool:
    seen = 0
    stack = [v]
    while stack and seen < 20:
        seen += 1
        x = stack.pop()
        if isinstance(x, K) and isinstance(x.v, str):
            if x.v == 'exactly.suite':
                return True
        if isinstance(x, Sym):
            r = util.root_sym(x)
            o = r.origin
            if o and o[0] == 'op':
                stack.extend(o[2])
            elif o and o[0] == 'call':
                stack.extend(o[2])
            elif o and o[0] == 'attr':
                stack.append(o[1])
    return False


# ---------------------------------------------------------------- e
def clause_e(c: Check):
    ix = c.ix
    PR = 'exactly_lib.test_suite.processing'
    f = ix.func(PR + ':SuitesExecutor._configuration_for_cases_in_suite')
    conf = ix.cls(P + ':Configuration')
    ok = False
    for call, d in util.calls_in(ix, f):
        if d == conf:
            b = util.ctor_call_args(ix, conf, call) or {}
            a = b.get('default_handling_setup')
            ok = a is not None and unparse(a) == '%s.test_case_handling_setup' % f.positional_params()[1].arg
    c.expect(ok, 'C17-e', '_configuration_for_cases_in_suite/own-handling-setup',
             'cases are not processed with the handling setup of the suite that lists them', f.loc())
    cp = ix.func(PR + ':SuitesExecutor._case_processor_for')
    ps = ix.func(PR + ':SuitesExecutor._process_single_sub_suite')
    ok = any(d == f and unparse(call.args[0]) == cp.positional_params()[1].arg for call, d in util.calls_in(ix, cp))
    ok = ok and any(d == cp and unparse(call.args[0]) == ps.positional_params()[1].arg for call, d in util.calls_in(ix, ps))
    c.expect(ok, 'C17-e', '_process_single_sub_suite/processor-of-this-suite',
             'the case processor is not built for the suite whose cases are iterated', ps.loc())
    # reading: each suite's handling setup is resolved from its own document and the *default* environment
    call_m = suite_reading_method(ix, c.require)
    rs = ix.func(SFR + ':resolve_test_case_handling_setup')
    ok = False
    for call, d in util.calls_in(ix, call_m):
        if d == rs and len(call.args) == 2:
            ok = _not_the_default_setup(ix, call_m, call.args[1], 0, set()) is None
            doc = unparse(call.args[0])
            b = call_m.local_bindings().get(doc, [])
            ok = ok and any(x[0] == 'assign' and isinstance(x[1], ast.Call)
                            and getattr(ix.callee(call_m.module, call_m, x[1]), 'name', None) == 'read_suite_document'
                            for x in b)
    c.expect(ok, 'C17-e', '_SingleFileReader/own-document-default-environment',
             'a sub-suite\'s handling setup is not resolved from its own file and the default setup (it would inherit '
             'the including suite\'s contents)', call_m.loc())
    # the hierarchy node stores it in the slot the processor reads
    th = ix.cls('exactly_lib.test_suite.structure:TestSuiteHierarchy')
    init = util.ctor_of(ix, th)
    ok = False
    n_built = 0
    for p in util.func_paths(ix, c.fo, call_m, Hooks()):
        for e in p.calls():
            if e.data.get('callee') == th:
                n_built += 1
                names = [p_.arg for p_ in init.positional_params()[1:]] if init is not None else []
                given = dict(zip(names, e.data['args']))
                given.update(e.data['kwargs'])
                a = given.get('test_case_handling_setup')
                good = isinstance(a, Sym) and util.origin_call_key(util.root_sym(a)) == rs.key
                ok = good if n_built == 1 else (ok and good)
    c.expect(ok, 'C17-e', 'TestSuiteHierarchy/handling-setup-slot', 'the resolved handling setup is not stored in the '
                                                                     'hierarchy node', call_m.loc())


# ---------------------------------------------------------------- f (thorough)
def clause_f(c: Check):
    """shared parse-time objects are immutable: instruction / embryo / SDV classes assign attributes only in
    constructors"""
    ix = c.ix
    EXEMPT = {
        # per-execution objects, not shared between cases
        'InstructionSettings', 'ActionToCheckExecutor', 'SetupSettingsBuilder',
    }
    n_cls = 0
    for m in ix.all_modules('exactly_lib.impls.instructions'):
        for cls in m.all_classes:
            n_cls += 1
            if cls.name in EXEMPT:
                continue
            for meth in cls.methods.values():
                if meth.name in ('__init__', '__new__') or meth.self_name is None:
                    continue
                for n in ast.walk(meth.node):
                    if isinstance(n, (ast.Assign, ast.AugAssign)):
                        targets = n.targets if isinstance(n, ast.Assign) else [n.target]
                        for t in targets:
                            if isinstance(t, ast.Attribute) and isinstance(t.value, ast.Name) and t.value.id == meth.self_name:
                                if t.attr.startswith('_cached') or 'cache' in t.attr.lower():
                                    continue
                                c.bad('C17-f', 'mutable-parse-time-object/%s.%s' % (cls.key, t.attr),
                                      'an instruction object (shared by all cases of a suite) writes its attribute %s '
                                      'in %s' % (t.attr, meth.name), '%s:%d' % (m.relpath, n.lineno))
    c.ok('C17-f', 'instruction-classes/immutable', '%d classes under impls.instructions' % n_cls)


# ---------------------------------------------------------------- g
LAYER_METHODS = ('resolve',)
SINGLE_USE = {
    'exactly_lib.impls.types.string_transformer.impl.filter.line_nums.sources:_HandlerResolverForMultipleRangesWNegativeValues':
        'not a symbol-dependent value: created anew for every application of the transformer (C13-e judges the '
        'transformer itself)',
}


def clause_g(c: Check):
    """EFF: `resolve(symbols)` of every symbol-dependent value computes its result without changing the object it is
    called on. These objects live as long as the parsed instruction - and the instructions of a suite file are parsed
    once and used for every case of the suite - so state kept across resolutions makes the value in one case depend
    on the symbols of an earlier case (mutation summaries, rules/purity.py). A memo that is replaced whenever the
    freshly computed key differs (`if fresh != self.key: self.key = fresh; ...`) is recognised as keyed by its input.
    The layers below (DDV, validators, ADV) are created by each resolution and may cache."""
    from .purity import Purity
    ix = c.ix
    pu = Purity(ix)
    n = 0
    for name in ix.all_module_names():
        if not name.startswith(('exactly_lib.impls.types', 'exactly_lib.type_val_deps', 'exactly_lib.type_val_prims')):
            continue
        m = ix.module(name)
        for k in m.all_classes:
            if k.key in SINGLE_USE:
                continue
            for mname in LAYER_METHODS:
                f = k.methods.get(mname)
                if f is None:
                    continue
                n += 1
                changed = pu.self_mutations(f)
                c.expect(not changed, 'C17-g', 'layer-method-keeps-state/%s.%s' % (k.key, mname),
                         '%s.%s changes %s of the object it is called on: a later resolution / application / case sees what '
                         'an earlier one left behind' % (k.name, mname, ', '.join('self.' + a for a in changed)), f.loc())
                args_changed = sorted(pu.summary(f))
                c.expect(not args_changed, 'C17-g', 'layer-method-changes-arguments/%s.%s' % (k.key, mname),
                         '%s.%s changes %s (or an object looked up in it): the symbol table entries of a suite-level '
                         'definition are shared by the cases of the suite, so what is stored there during one case is '
                         'seen by the next' % (k.name, mname, ', '.join(args_changed)), f.loc())
    c.floor('C17-g', 'resolve methods of symbol-dependent values analysed', n, 60)
    # the processors of a suite (reader, preprocessor, parser, transformer, executor) are built once per suite and
    # applied to every case: `apply` keeps no state in the object
    n_ap = 0
    for name in ix.all_module_names():
        if not name.startswith('exactly_lib.processing'):
            continue
        for k in ix.module(name).all_classes:
            f = k.methods.get('apply')
            if f is None or not f.self_name or util.is_abstract_body(f):
                continue
            n_ap += 1
            changed = pu.self_mutations(f)
            c.expect(not changed, 'C17-g', 'processor-keeps-no-state/%s.apply' % k.key,
                     '%s.apply changes %s of the processor, which is shared by all cases of the suite: the n-th case is '
                     'processed with what the cases before it left behind' % (k.name, ', '.join('self.' + a for a in changed)),
                     f.loc())
    c.floor('C17-g', 'apply methods of the case processors analysed', n_ap, 5)
    # objects that live as long as the parsed instruction (symbol-dependent values, their validators, the processors)
    # keep no *unkeyed memo*: `if self.x is None: self.x = f(<argument>)` gives every later call - the next case of
    # the suite, with its own symbols - what was computed for the first
    from .purity import unkeyed_memos
    n_m = 0
    for name in ix.all_module_names():
        if not name.startswith(('exactly_lib.type_val_deps', 'exactly_lib.impls.types', 'exactly_lib.impls.svh_validators',
                                'exactly_lib.impls.instructions', 'exactly_lib.processing', 'exactly_lib.symbol')):
            continue
        if 'self.' not in ix.text(name):
            continue
        for k in ix.module(name).all_classes:
            shared = any(mn in k.methods or ix.class_member(k, mn) is not None
                         for mn in ('resolve', 'validate_pre_sds_if_applicable', 'validate_post_sds_if_applicable',
                                    'validate_pre_sds', 'symbol_usages', 'references', 'apply'))
            if not shared:
                continue
            for mn, f in k.methods.items():
                n_m += 1
                for attr, node in unkeyed_memos(f):
                    c.bad('C17-g', 'unkeyed-memo/%s.%s/%s' % (k.key, mn, attr),
                          '%s.%s computes self.%s from its arguments only while it is unset (%s): the value computed '
                          'for the first case - its symbols, its directories - is given to every later case of the '
                          'suite' % (k.name, mn, attr, unparse(node)[:60]), '%s:%d' % (k.module.relpath, node.lineno))
    c.floor('C17-g', 'methods of long-lived objects scanned for unkeyed memos', n_m, 450)
    import os
    from ..report import VERIF_ROOT
    from ..core import Index as _Index
    fx = _Index(os.path.join(VERIF_ROOT, 'fixtures', 'evaluators'))
    fm = fx.module('exactly_lib.impls.fixture_memo')
    got = [x for k in fm.all_classes for f in k.methods.values() for x in unkeyed_memos(f)]
    want = sum(1 for line in fm.src.splitlines() if '# EXPECT memo' in line)
    if len(got) != want:
        raise AnalysisError('C17-g: positive control failed: %d unkeyed memos reported in the fixture, expected %d' % (len(got), want))


# ---------------------------------------------------------------- h
def clause_h(c: Check):
    """EVAL partition of the suite's [conf] section into what configures the suite and what is contributed to every
    case (`_separate_configuration_elements`): every element of the section ends up in exactly one of the two parts -
    none is dropped, none is in both.  Evaluated with one explicit element of each kind (and both answers to "is it
    a suite configuration instruction")."""
    from ..absint import ListVal
    ix, fo = c.ix, c.fo
    f = ix.func(SFR + ':_separate_configuration_elements')
    et = fo.enum_members(ix.cls('exactly_lib.section_document.model:ElementType'))
    sc = ix.cls('exactly_lib.section_document.model:SectionContents')
    sce = ix.cls('exactly_lib.section_document.model:SectionContentElement')
    n = 0
    for kind, member in sorted(et.items()):
        it = Interp(ix, fo, Hooks())
        st = State()
        element = it.new_obj(sce)
        st.heap[(element.oid, 'element_type')] = K(member)
        st.heap[(element.oid, '_element_type')] = K(member)
        contents = it.new_obj(sc)
        st.heap[(contents.oid, 'elements')] = ListVal([element], True)
        for p in it.run_function(f, {f.positional_params()[0].arg: contents}, st):
            n += 1
            c.count()
            parts = it.concrete_items(p.val) if p.kind == 'return' else None
            c.require(parts is not None and len(parts) == 2,
                      'C17-h: the result of _separate_configuration_elements is not a pair (%s)' % (
                          util.describe(p.val) if p.kind == 'return' else p.kind))
            holds = []
            for part in parts:
                con = util.constructed(ix, part)
                arg = list(con[3].values())[0] if con and con[3] else None
                inner = arg
                r = util.root_sym(arg) if isinstance(arg, Sym) else None
                if r is not None and r.origin and r.origin[0] == 'call' and str(r.origin[1]).endswith('tuple') and r.origin[2]:
                    inner = r.origin[2][0]
                items = it.concrete_items(inner) if inner is not None else None
                c.require(items is not None, 'C17-h: a part of the separated section is not understood (%s)' % util.describe(part))
                holds.append(sum(1 for x in items if x is element))
            c.expect(sorted(holds) == [0, 1], 'C17-h', 'conf-section-partition/' + kind,
                     'an element of kind %s of the suite\'s [conf] section is found %s times in the suite part and %s '
                     'times in the part contributed to the cases (expected: in exactly one of them)' % (
                         kind, holds[0], holds[1]), f.loc())
    c.floor('C17-h', 'paths of the separation of the [conf] section', n, 3)
