"""C07 Test-case file structure: phases, merging, inclusion (DESIGN.md section 5, clauses a-f)."""
import ast
from typing import List, Optional

from ..core import Index, FuncDef, ClassDef, External, AnalysisError, unparse, walk_own, dotted_name, parent
from ..fold import Folder, Record, EnumMember, Ref, is_unknown, single_return_expr
from ..absint import Interp, Hooks, State, K, Sym, Obj, Exc, NONE, ListVal, FuncVal, BoundMethod
from ..report import Check
from .. import util
from .common import ForkHooks, labels_of

DP = 'exactly_lib.section_document.impl.document_parser'
TCP = 'exactly_lib.processing.parse.test_case_parser'
PI = 'exactly_lib.test_case.phase_identifier'

PHASE_SET = {'CONFIGURATION': 'config_instruction_set', 'SETUP': 'setup_instruction_set',
             'BEFORE_ASSERT': 'before_assert_instruction_set', 'ASSERT': 'assert_instruction_set',
             'CLEANUP': 'cleanup_instruction_set'}
PHASE_PARAM = {'CONFIGURATION': 'configuration_phase', 'SETUP': 'setup_phase', 'ACT': 'act_phase',
               'BEFORE_ASSERT': 'before_assert_phase', 'ASSERT': 'assert_phase', 'CLEANUP': 'cleanup_phase'}


def check(c: Check):
    c.explanation = (
        'Tables and control flow of the test-case document parser: each of the six phases is registered with the '
        'instruction set of the same phase and delivered in the position of the same phase (default phase = act); '
        'per-header typestate of the section switch (every header line is tested against the known phases before it '
        'becomes current; a malformed header is an error); the resolved path of an included file is tested against '
        'the visited paths before it is parsed and the list handed on contains it; inclusion never writes the '
        'current-phase state of the including parser and merges by extending the existing list object (replacement '
        'only when the key is established to be absent); repeated phases reuse their list; the element source keeps '
        'every line (only a trailing empty split element is dropped). Decides clauses a-f of DESIGN.md C07; not '
        'line-number arithmetic or comment/blank handling.')
    clause_a(c)
    clause_b(c)
    clause_c(c)
    clause_d(c)
    clause_e(c)
    clause_f(c)
    clause_g(c)
    clause_h(c)
    clause_i(c)
    clause_j(c)
    clause_k(c)
    clause_l(c)
    clause_m(c)
    clause_n(c)
    from .common import sweep_records
    sweep_records(c, 'C07-rec', ['exactly_lib.section_document', 'exactly_lib.util.line_source'], floor=8)


def _phase_of(c: Check, m, f, node) -> Optional[str]:
    """phase enum name of an expression `phase_identifier.<P>.section_name`"""
    v = node
    if isinstance(node, ast.Attribute) and node.attr in ('section_name', 'identifier'):
        v = node.value
    r = c.fo.fold(m, f, v)
    if isinstance(r, Record):
        en = c.fo.record_attr(r, 'the_enum')
        if isinstance(en, EnumMember):
            return en.name
    return None


# ---------------------------------------------------------------- a
def clause_a(c: Check):
    ix, fo = c.ix, c.fo
    np_ = ix.func(TCP + ':new_parser')
    m = np_.module
    seen = {}
    for call, d in util.calls_in(ix, np_):
        if isinstance(d, ClassDef) and d.name == 'SectionConfiguration' and len(call.args) == 2:
            ph = _phase_of(c, m, np_, call.args[0])
            c.require(ph is not None, 'C07-a: section name %s does not fold to a phase' % unparse(call.args[0]))
            c.expect(ph not in seen, 'C07-a', 'new_parser/%s/unique' % ph, 'phase %s is registered twice' % ph, np_.loc())
            seen[ph] = unparse(call.args[1])
            p2 = call.args[1]
            if ph == 'ACT':
                ok = unparse(p2).endswith('.act_phase_parser')
            else:
                ok = isinstance(p2, ast.Call) and p2.args and unparse(p2.args[0]) == 'InstructionsSetup.%s.fget' % PHASE_SET[ph]
            c.expect(ok, 'C07-a', 'new_parser/' + ph, 'phase %s is parsed with %s' % (ph, unparse(p2)), np_.loc())
    c.expect(set(seen) == set(PHASE_PARAM), 'C07-a', 'new_parser/six-phases', 'registered phases: %s' % sorted(seen), np_.loc())
    for call, d in util.calls_in(ix, np_):
        if isinstance(d, ClassDef) and d.name == 'SectionsConfiguration':
            dv = util.keyword_arg(call, 'default_section_name')
            ph = _phase_of(c, m, np_, dv) if dv is not None else None
            c.expect(ph == 'ACT', 'C07-a', 'new_parser/default-phase', 'lines before any header belong to %s' % ph, np_.loc())
    v = fo.fold_path(PI + ':DEFAULT_PHASE')
    en = fo.record_attr(v, 'the_enum') if isinstance(v, Record) else None
    c.expect(isinstance(en, EnumMember) and en.name == 'ACT', 'C07-a', 'DEFAULT_PHASE', 'DEFAULT_PHASE is %s' % en, PI)
    # delivery: Parser.apply puts section P into the TestCase position of P
    ap = ix.func(TCP + ':Parser.apply')
    tc = ix.cls('exactly_lib.test_case.test_case_doc:TestCase')
    n = 0
    for call, d in util.calls_in(ix, ap):
        if d == tc:
            b = util.ctor_call_args(ix, tc, call) or {}
            for ph, pn in PHASE_PARAM.items():
                a = b.get(pn)
                got = _phase_of(c, ap.module, ap, a.args[0]) if isinstance(a, ast.Call) and a.args else None
                n += 1
                c.expect(got == ph, 'C07-a', 'Parser.apply/' + pn, 'the %s of the test case are the elements of section %s'
                         % (pn, got), ap.loc())
    c.floor('C07-a', 'phase positions delivered', n, 6)
    # section names of the six phases are distinct
    names = {}
    for ph in PHASE_PARAM:
        r = fo.fold_path(PI + ':' + ph)
        sn = fo.record_attr(r, 'section_name') if isinstance(r, Record) else None
        c.expect(isinstance(sn, str) and sn not in names.values(), 'C07-a', 'section-name/' + ph,
                 'section name of %s is %r' % (ph, sn), PI)
        names[ph] = sn


# ---------------------------------------------------------------- b
def clause_b(c: Check):
    ix, fo = c.ix, c.fo
    impl = ix.cls(DP + ':_Impl')
    sw = ix.class_member(impl, 'switch_section_according_to_last_section_line_and_consume_section_lines')
    fse = ix.cls('exactly_lib.section_document.exceptions:FileSourceError')
    hooks = ForkHooks(ix, loop_bound=2)

    def named(name):
        return lambda d, n, cv: isinstance(n.func, ast.Attribute) and n.func.attr == name

    hooks.fork_on(named('has_section'), [('known', lambda: K(True)), ('unknown', lambda: K(False))])
    hooks.fork_on(named('is_at_eof'), [('eof', lambda: K(True)), ('more', lambda: K(False))])
    hooks.fork_on(named('current_line_is_section_line'), [('header', lambda: K(True)), ('other', lambda: K(False))])
    n_iter = 0
    for p in util.func_paths(ix, fo, sw, hooks):
        if p.truncated:
            continue
        # events per header line: name extraction marks the start of handling one header
        seq = []
        for e in p.trace:
            if e.kind == 'call':
                node = e.node
                if 'label' in e.data:
                    if e.data['label'] in ('known', 'unknown'):
                        seq.append(e.data['label'])
                    continue
                if isinstance(node.func, ast.Attribute):
                    if node.func.attr == 'extract_section_name_from_current_line':
                        seq.append('header-read')
                    elif node.func.attr == 'set_current_section':
                        seq.append('set-current')
                    elif node.func.attr == 'move_one_line_forward':
                        seq.append('forward')
        # group per header
        groups = []
        for x in seq:
            if x == 'header-read':
                groups.append([])
            elif groups:
                groups[-1].append(x)
            else:
                groups.append(['<before-first-header>', x])
        for g in groups:
            n_iter += 1
            key = 'switch-section/header/' + '-'.join(g or ['nothing'])
            checked = [x for x in g if x in ('known', 'unknown')]
            if not checked:
                c.bad('C07-b', key, 'a phase header is consumed without being tested against the known phases: an unknown '
                                    'phase name directly followed by another header is ignored', sw.loc())
                continue
            if checked[0] == 'unknown':
                pass  # must raise: judged by the terminal below
            else:
                ok = g.index('known') < g.index('set-current') if 'set-current' in g else False
                c.expect(ok, 'C07-b', key, 'a known header does not become the current phase after the test (%s)' % g, sw.loc())
        if 'unknown' in seq:
            ok = p.kind == 'raise' and isinstance(p.val, Exc) and p.val.cls == fse and seq[-1] == 'unknown'
            c.expect(ok, 'C07-b', 'switch-section/unknown-phase-is-an-error',
                     'an unknown phase name does not raise FileSourceError at once (%s, then %s)' % (seq, p.kind), sw.loc())
    c.floor('C07-b', 'header lines analysed', n_iter, 3)
    # malformed header
    ex = ix.class_member(impl, 'extract_section_name_from_current_line')
    hooks = ForkHooks(ix)
    hooks.fork_on(lambda d, n, cv: isinstance(d, FuncDef) and d.name == 'extract_section_name_from_section_line',
                  [('malformed', ('raise', External('builtins.ValueError'))), ('name', lambda: Sym('name', origin=('n',)))])
    for p in util.func_paths(ix, fo, ex, hooks):
        lab = labels_of(p)[0]
        if lab == 'malformed':
            c.expect(p.kind == 'raise' and isinstance(p.val, Exc) and p.val.cls == fse, 'C07-b', 'malformed-header',
                     'a malformed header line is not a FileSourceError (%s)' % util.describe(p.val), ex.loc())
        else:
            c.expect(p.kind == 'return' and getattr(util.root_sym(p.val), 'label', None) == 'name', 'C07-b',
                     'header-name-returned', 'the extracted name is not returned', ex.loc())
    # has_section consults the configured phases
    hs = ix.func(DP + ':_SectionsConfigurationInternal.has_section')
    r = single_return_expr(hs)
    ok = isinstance(r, ast.Compare) and isinstance(r.ops[0], ast.In) and unparse(r.comparators[0]) == 'self.section2parser'
    c.expect(ok, 'C07-b', 'has_section', 'has_section is %s' % (unparse(r) if r is not None else '?'), hs.loc())


# ---------------------------------------------------------------- c
def clause_c(c: Check):
    ix, fo = c.ix, c.fo
    pf = ix.func(DP + ':parse_file')
    ps = ix.func(DP + ':_parse_source')
    fae = ix.cls('exactly_lib.section_document.exceptions:FileAccessError')
    paths = util.func_paths(ix, fo, pf, Hooks())
    seen = set()
    for p in paths:
        member = [(g, t) for g, t in p.guards if isinstance(g, ast.Compare) and isinstance(g.ops[0], (ast.In, ast.NotIn))
                  and 'previously_visited_paths' in unparse(g)]
        c.expect(len(member) == 1, 'C07-c', 'parse_file/membership-test',
                 'the file is not tested against the previously visited paths exactly once', pf.loc())
        if not member:
            continue
        g, truth = member[0]
        visited = truth if isinstance(g.ops[0], ast.In) else not truth
        seen.add(visited)
        tested = unparse(g.left)
        b = pf.local_bindings().get(tested, [])
        resolved = any(x[0] == 'assign' and isinstance(x[1], ast.Call) and isinstance(x[1].func, ast.Attribute)
                       and x[1].func.attr == 'resolve' for x in b)
        c.expect(resolved, 'C07-c', 'parse_file/resolved-path', 'the path tested (%s) is not the resolved path: a cycle '
                                                                'through another name of the file is not seen' % tested, pf.loc())
        parses = [e for e in p.calls() if e.data['callee'] == ps]
        if visited:
            c.expect(p.kind == 'raise' and isinstance(p.val, Exc) and p.val.cls == fae and not parses, 'C07-c',
                     'parse_file/cyclic-inclusion-is-an-error',
                     'a file that is already being included is parsed again (%s)' % p.kind, pf.loc())
        else:
            ok = len(parses) == 1
            if ok:
                bnd = util.bound_call_args(ps, parses[0].node, False) or {}
                vp = bnd.get('visited_paths')
                txt = unparse(vp) if vp is not None else ''
                bb = pf.local_bindings().get(txt, [])
                ok = any(x[0] == 'assign' and 'previously_visited_paths' in unparse(x[1]) and tested in unparse(x[1]) for x in bb)
            c.expect(ok, 'C07-c', 'parse_file/passes-extended-visited-list',
                     'the list of visited paths handed on does not contain the current file', pf.loc())
    c.require(seen == {True, False}, 'C07-c: parse_file outcomes %s' % seen)
    # recursion only through parse_file with the parser's visited paths
    inc = ix.func(DP + ':_Impl._include_files')
    calls = [(call, d) for call, d in util.calls_in(ix, inc) if d == pf]
    ok = len(calls) == 1 and unparse(calls[0][0].args[-1]) == 'self.visited_paths'
    c.expect(ok, 'C07-c', '_include_files/recursion-through-parse_file', 'inclusion does not go through parse_file with '
                                                                         'the visited paths', inc.loc())


# ---------------------------------------------------------------- d
CURRENT_STATE_ATTRS = ('_name_of_current_section', '_parser_for_current_section', '_elements_for_current_section')


def clause_d(c: Check):
    ix = c.ix
    impl = ix.cls(DP + ':_Impl')
    inc = ix.class_member(impl, '_include_files')
    # functions reachable from _include_files inside the module (not through parse_file -> a new _Impl)
    reach = [inc]
    seen = {inc.key}
    while reach:
        f = reach.pop()
        for n in ast.walk(f.node):
            if isinstance(n, (ast.Assign, ast.AugAssign)):
                tg = n.targets if isinstance(n, ast.Assign) else [n.target]
                for t in tg:
                    if isinstance(t, ast.Attribute) and t.attr in CURRENT_STATE_ATTRS:
                        c.bad('C07-d', 'inclusion-writes/%s.%s' % (f.name, t.attr),
                              'including a file changes the including file\'s current phase state (%s)' % t.attr,
                              '%s:%d' % (f.module.relpath, n.lineno))
            if isinstance(n, ast.Call):
                d = ix.callee(f.module, f.module.enclosing_func(n) or f, n)
                if isinstance(d, FuncDef) and d.name == 'set_current_section':
                    c.bad('C07-d', 'inclusion-switches-section/' + f.name, 'including a file switches the current phase',
                          '%s:%d' % (f.module.relpath, n.lineno))
                if isinstance(d, FuncDef) and d.module.name == DP and d.key not in seen and d.name != 'parse_file' \
                        and d.cls == impl:
                    seen.add(d.key)
                    reach.append(d)
    c.ok('C07-d', 'inclusion/does-not-touch-current-phase', 'functions reached: %s' % sorted(seen))
    # the included document starts in the including file's current phase
    ok = False
    for call, d in util.calls_in(ix, inc):
        if isinstance(d, ClassDef) and d.name == '_SectionsConfigurationInternal' and len(call.args) >= 2:
            ok = unparse(call.args[1]) == 'self._name_of_current_section' and unparse(call.args[0]) == 'self.configuration.section2parser'
    c.expect(ok, 'C07-d', 'inclusion/default-section-is-current-phase',
             'an included file does not start in the including file\'s current phase (with the same phase parsers)', inc.loc())
    # and its elements are merged into the including document's lists
    arb = ix.func(DP + ':_add_raw_doc')
    ok = any(d == arb and unparse(call.args[0]) == 'self._section_name_2_element_list' for call, d in util.calls_in(ix, inc))
    c.expect(ok, 'C07-d', 'inclusion/merged-into-document', 'the included document is not merged into the including '
                                                            'document', inc.loc())


# ---------------------------------------------------------------- e
def clause_e(c: Check):
    ix, fo = c.ix, c.fo
    arb = ix.func(DP + ':_add_raw_doc')

    class H(Hooks):
        loop_bound = 1

    target = arb.positional_params()[0].arg
    n = 0
    for p in util.func_paths(ix, fo, arb, H()):
        iters = [e for e in p.trace if e.kind == 'loop-iter']
        if not iters:
            continue
        n += 1
        sets = [e for e in p.trace if e.kind == 'setitem' and unparse(e.node.value) == target]
        exts = [e for e in p.calls() if isinstance(e.node.func, ast.Attribute) and e.node.func.attr in ('extend', '__iadd__')]
        absent_established = False
        present_established = False
        for g, truth in p.guards:
            t = unparse(g)
            if isinstance(g, ast.Compare) and isinstance(g.ops[0], (ast.In, ast.NotIn)) and unparse(g.comparators[0]) == target:
                is_in = truth if isinstance(g.ops[0], ast.In) else not truth
                absent_established = absent_established or not is_in
                present_established = present_established or is_in
            if isinstance(g, ast.Name) and truth:
                bs = arb.local_bindings().get(g.id, [])
                if any(x[0] == 'assign' and x[1] is not None and unparse(x[1]).startswith(target + '.get(') for x in bs):
                    present_established = True  # a true value from .get(): the key is present (and non-empty)
            if isinstance(g, ast.Compare) and isinstance(g.ops[0], (ast.Is, ast.IsNot)) and 'None' in t:
                is_none = truth if isinstance(g.ops[0], ast.Is) else not truth
                absent_established = absent_established or is_none
                present_established = present_established or not is_none
        key = '_add_raw_doc/' + ('replaces' if sets else 'extends' if exts else 'nothing')
        if sets:
            c.expect(absent_established and not exts, 'C07-e', key,
                     'the list of a phase is replaced although nothing establishes that the phase has no list yet: a '
                     'phase whose list exists but is still empty loses its identity and the instructions that follow '
                     'the including directive are dropped', arb.loc())
        elif exts:
            c.expect(present_established, 'C07-e', key, 'elements are appended without knowing that the list exists', arb.loc())
        else:
            c.bad('C07-e', key, 'included elements of a phase are neither appended nor stored', arb.loc())
    c.floor('C07-e', 'paths of _add_raw_doc with an element', n, 2)
    # set_current_section reuses the list of a repeated phase
    impl = ix.cls(DP + ':_Impl')
    scs = ix.class_member(impl, 'set_current_section')
    it = Interp(ix, fo, Hooks())
    n = 0
    for p in it.run_function(scs):
        member = [(g, t) for g, t in p.guards if isinstance(g, ast.Compare) and isinstance(g.ops[0], (ast.In, ast.NotIn))
                  and '_section_name_2_element_list' in unparse(g)]
        if not member:
            c.bad('C07-e', 'set_current_section/membership-test', 'a repeated phase is not detected', scs.loc())
            continue
        n += 1
        g, truth = member[0]
        present = truth if isinstance(g.ops[0], ast.In) else not truth
        sets = [e for e in p.trace if e.kind == 'setitem' and '_section_name_2_element_list' in unparse(e.node.value)]
        c.expect((not sets) if present else len(sets) == 1, 'C07-e',
                 'set_current_section/%s' % ('repeated-phase-keeps-list' if present else 'new-phase-gets-list'),
                 'a %s phase: %d new lists stored' % ('repeated' if present else 'new', len(sets)), scs.loc())
    c.floor('C07-e', 'paths of set_current_section', n, 2)
    cur = [v for meth, v, st in ix.self_attr_assignments(impl, '_elements_for_current_section') if meth == scs]
    ok = len(cur) == 1 and unparse(cur[0]) == 'self._section_name_2_element_list[section_name]'
    c.expect(ok, 'C07-e', 'set_current_section/current-list-is-the-stored-list',
             'the current element list is not the list stored for the phase', scs.loc())
    ae = ix.class_member(impl, 'add_element_to_current_section')
    ok = any(isinstance(n_, ast.Call) and unparse(n_.func) == 'self._elements_for_current_section.append' for n_ in ast.walk(ae.node))
    c.expect(ok, 'C07-e', 'add_element/appends', 'elements are not appended to the current list', ae.loc())


# ---------------------------------------------------------------- f
def clause_f(c: Check):
    ix, fo = c.ix, c.fo
    f = ix.func('exactly_lib.section_document.element_parsers.section_element_parsers:parse_and_compute_source')
    ls = ix.cls('exactly_lib.util.line_source:LineSequence')
    n = 0
    for p in util.func_paths(ix, fo, f, Hooks()):
        cons = [e for e in p.calls() if e.data['callee'] == ls]
        c.expect(len(cons) == 1, 'C07-f', 'parse_and_compute_source/one-source', 'source built %d times' % len(cons), f.loc())
        if not cons:
            continue
        n += 1
        lines_arg = cons[0].data['args'][1] if len(cons[0].data['args']) > 1 else None
        v = util.root_sym(lines_arg)
        while isinstance(v, Sym) and util.origin_call_key(v) in ('builtins.tuple', 'builtins.list') and v.origin[2]:
            v = util.root_sym(v.origin[2][0])
        is_split = isinstance(v, Sym) and v.origin and v.origin[0] == 'call' and isinstance(v.origin[4].func, ast.Attribute) \
                   and v.origin[4].func.attr == 'split' and v.origin[2] and isinstance(v.origin[2][0], K) and v.origin[2][0].v == '\n'
        c.expect(is_split, 'C07-f', 'parse_and_compute_source/all-lines',
                 'the source lines of an element are %s, not all lines of the consumed text' % util.describe(lines_arg),
                 f.loc())
        dels = [e for e in p.trace if e.kind == 'delete']
        if dels:
            def is_empty_last_test(g) -> bool:
                if not (isinstance(g, ast.Compare) and len(g.ops) == 1 and isinstance(g.ops[0], ast.Eq)):
                    return False
                sides = [g.left, g.comparators[0]]
                consts = [x for x in sides if isinstance(x, ast.Constant) and x.value == '']
                subs = [x for x in sides if isinstance(x, ast.Subscript)]
                return len(consts) == 1 and len(subs) == 1 and c.fo.fold(f.module, f, subs[0].slice) == -1

            guarded = any(truth and is_empty_last_test(g) for g, truth in p.guards)
            def last_of_split(t):
                if not (isinstance(t, ast.Subscript) and isinstance(t.value, ast.Name)):
                    return False
                idx = c.fo.fold(f.module, f, t.slice)
                if idx != -1:
                    return False
                return any(kind == 'assign' and isinstance(value, ast.Call) and isinstance(value.func, ast.Attribute)
                           and value.func.attr == 'split' for kind, value, _ in f.local_bindings().get(t.value.id, []))

            c.expect(guarded and all(all(last_of_split(t) for t in d.node.targets) for d in dels), 'C07-f',
                     'parse_and_compute_source/only-trailing-empty-element-dropped',
                     'a source line is dropped although it is not the empty remainder after the final newline', f.loc())
        first = cons[0].data['args'][0] if cons[0].data['args'] else None
        ok = isinstance(first, Sym) and util.attr_chain(first)[1] == ('current_line_number',)
        c.expect(ok, 'C07-f', 'parse_and_compute_source/first-line-number',
                 'the first line number is %s, not the line number before parsing' % util.describe(first), f.loc())
    c.floor('C07-f', 'paths of parse_and_compute_source', n, 1)


# ---------------------------------------------------------------- g
def clause_g(c: Check):
    """act phase: the lines of the phase are the lines up to the next header or the end of the document.  ParseSource
    has a current (empty) line even at the end of a document that ends with a newline ("there may exist a current
    line even though is_at_eof"), so a line may be collected only when the end of the document has been excluded
    since the last line was consumed"""
    ix, fo = c.ix, c.fo
    f = ix.func('exactly_lib.processing.parse.act_phase_source_parser:ActPhaseParser.parse')

    class H(Hooks):
        loop_bound = 2

    paths = util.func_paths(ix, fo, f, H())
    c.count(len(paths))
    n_collect = 0
    for p in paths:
        state = 'first-line'   # the caller guarantees a current line on entry
        for e in p.trace:
            if e.kind == 'guard':
                test, truth = e.data
                if isinstance(test, ast.Attribute) and test.attr == 'is_at_eof':
                    state = 'not-at-eof' if not truth else 'at-eof'
            elif e.kind == 'call' and isinstance(e.node.func, ast.Attribute):
                if e.node.func.attr == 'consume_current_line':
                    state = 'unknown'
                elif e.node.func.attr == 'append' and isinstance(e.data.get('recv'), ListVal):
                    n_collect += 1
                    c.expect(state in ('first-line', 'not-at-eof'), 'C07-g', 'act-phase/lines-end-at-end-of-document',
                             'a line is added to the act phase without the end of the document having been excluded '
                             '(state: %s): a document ending with a newline gets an extra empty act line' % state,
                             '%s:%d' % (f.module.relpath, e.node.lineno))
        if p.kind == 'return':
            # the element's lines are the collected ones
            pass
    c.floor('C07-g', 'collected act lines on the analysed paths', n_collect, 2)


# ---------------------------------------------------------------- h
def clause_h(c: Check):
    """the text that is parsed is the text of the file: between reading a file and constructing the ParseSource
    nothing transforms the contents (line numbers and line texts of every element are those of the file)"""
    ix, fo = c.ix, c.fo
    ps = ix.cls('exactly_lib.section_document.parse_source:ParseSource')
    sites = [s for s in util.call_sites_of(ix, ps)
             if s.where.startswith(('exactly_lib.section_document.', 'exactly_lib.processing.'))]
    c.floor('C07-h', 'constructions of ParseSource for document files', len(sites), 2)
    for s in sites:
        f = ix.try_lookup(s.where)
        if not isinstance(f, FuncDef):
            continue
        ok = False
        for p in util.func_paths(ix, fo, f, Hooks()):
            for e in p.calls():
                if e.data.get('callee') == ps and e.data['args']:
                    ok = _is_unmodified_text(e.data['args'][0])
        c.expect(ok, 'C07-h', 'parse-source-of-file-text@' + s.where,
                 'the ParseSource is not constructed from the text as read / as given (a transformation in between '
                 'shifts line numbers or changes line texts)', s.loc)
    rd = ix.func('exactly_lib.processing.processors:_SourceReader.apply')
    ok = False
    n = 0
    for p in util.func_paths(ix, fo, rd, Hooks()):
        if p.kind == 'return':
            n += 1
            good = _is_unmodified_text(p.val)
            ok = good if n == 1 else (ok and good)
    c.expect(ok, 'C07-h', 'source-reader', 'the test case source is not the text of the file as read', rd.loc())


def _is_unmodified_text(v) -> bool:
    r = util.root_sym(v)
    if not isinstance(r, Sym) or not r.origin:
        return False
    if r.origin[0] == 'param':
        return True
    if r.origin[0] == 'call' and isinstance(r.origin[4].func, ast.Attribute) and r.origin[4].func.attr in ('read', 'read_text') \
            and not r.origin[2]:
        return True
    return False


# ---------------------------------------------------------------- i
def clause_i(c: Check):
    """cycles through the root: the document that parsing starts with is itself recorded as visited - the list of
    visited paths handed to the parser by `DocumentParser.parse_source` holds the resolved path of the source file
    (else a cycle that leads back to the root file is only noticed one round later, with a wrong chain)"""
    ix, fo = c.ix, c.fo
    f = ix.func('exactly_lib.section_document.document_parser:DocumentParser.parse_source')
    pn = f.positional_params()[1].arg

    class H(Hooks):
        def inline(self, fd, st):
            return False

    ok = False
    n = 0
    for p in util.func_paths(ix, fo, f, H()):
        for e in p.calls():
            if isinstance(e.node.func, ast.Attribute) and e.node.func.attr == '_parse':
                n += 1
                names = ['file_reference_relativity_root_dir', 'file_location_info', 'visited_paths', 'source']
                given = dict(zip(names, e.data['args']))
                given.update(e.data['kwargs'])
                v = given.get('visited_paths')
                items = v.items if isinstance(v, ListVal) else None
                good = False
                if items is not None and len(items) == 1:
                    o = items[0].origin if isinstance(items[0], Sym) else None
                    if o and o[0] == 'call' and isinstance(o[4].func, ast.Attribute) and o[4].func.attr == 'resolve' and o[5] is not None:
                        cv = p.trace[o[5]].data.get('callee_val')
                        base = util.attr_chain(cv)[0] if cv is not None else None
                        r = util.root_sym(base) if base is not None else None
                        good = isinstance(r, Sym) and r.origin and r.origin[:2] == ('param', pn)
                ok = good if n == 1 else (ok and good)
    c.expect(ok and n >= 1, 'C07-i', 'parse_source/root-recorded-as-visited',
             'parsing a source file does not start with the resolved path of that file as the only visited path: a cycle '
             'of inclusions through the root file is not detected where it closes', f.loc())


# ---------------------------------------------------------------- j
def clause_j(c: Check):
    """the chain of including files in an error report: the path of each link is relative to the directory of the
    file of the link before it. EVAL on an explicit chain [l0, l1]: when l0 names a file, the location l1 is rendered
    against is derived from l0's path - not the initial location handed on unchanged (the report would name files that
    do not exist as soon as the inclusions span more than one directory)"""
    ix, fo = c.ix, c.fo
    SL = 'exactly_lib.common.report_rendering.parts.source_location'
    f = ix.func(SL + ':file_inclusion_chain')
    render = ix.func(SL + ':_file_inclusion_location')
    names = [p.arg for p in f.positional_params()]
    nested = [g for g in f.module.all_funcs if g.parent is f]

    class H(Hooks):
        loop_bound = 3

        def inline(self, fd, st):
            return fd in nested

    it = Interp(ix, fo, H())
    start = Sym('initial-location')
    l0, l1 = Sym('link0', nullness=False), Sym('link1', nullness=False)
    seen = set()
    for p in it.run_function(f, {names[0]: start, names[1]: ListVal([l0, l1])}):
        calls = [e for e in p.calls() if e.data.get('callee') == render]
        if len(calls) != 2:
            c.bad('C07-j', 'inclusion-chain/every-link-rendered', 'a chain of 2 links is rendered with %d links' % len(calls), f.loc())
            continue
        c.expect(calls[0].data['args'][0] is start and calls[0].data['args'][1] is l0
                 and calls[1].data['args'][1] is l1, 'C07-j', 'inclusion-chain/links-in-order',
                 'the links of the chain are not rendered in order, the first against the initial location', f.loc())
        # did link0 name a file on this path?
        named = None
        for t, truth in p.guards:
            if isinstance(t, ast.Compare) and 'file_path_rel_referrer' in unparse(t) and isinstance(t.ops[0], (ast.Is, ast.IsNot)):
                is_none = truth if isinstance(t.ops[0], ast.Is) else not truth
                named = not is_none
                break
        second = calls[1].data['args'][0]
        if named is None:
            # no distinction made between a link with and without a file: the location must still come from link0
            named = True
        seen.add(named)
        if named:
            c.expect(_mentions_sym(second, l0, p.trace), 'C07-j', 'inclusion-chain/location-threaded',
                     'the second link of an inclusion chain is rendered relative to %s, not relative to the directory of '
                     'the file of the first link' % util.describe(second), f.loc())
        else:
            c.expect(second is start, 'C07-j', 'inclusion-chain/location-kept-without-file',
                     'a link without a file changes the location the next link is relative to', f.loc())
    c.expect(True in seen, 'C07-j', 'inclusion-chain/cases', 'no analysed path has a first link that names a file', f.loc())


def _mentions_sym(v, target, trace, depth=0) -> bool:
    if v is target:
        return True
    if depth > 8 or not isinstance(v, Sym) or not v.origin:
        return False
    o = v.origin
    if o[0] == 'call':
        if any(_mentions_sym(x, target, trace, depth + 1) for x in list(o[2]) + list(o[3].values())):
            return True
        if o[5] is not None:
            ev = trace[o[5]]
            recv = ev.data.get('recv')
            if recv is None:
                recv = ev.data.get('callee_val')
            if recv is not None and _mentions_sym(recv, target, trace, depth + 1):
                return True
        return False
    for x in o[1:]:
        for y in (x if isinstance(x, (list, tuple)) else [x]):
            if isinstance(y, Sym) and _mentions_sym(y, target, trace, depth + 1):
                return True
    return False


# ---------------------------------------------------------------- k
def clause_k(c: Check):
    """the text an instruction element carries is the text the parser consumed: `parse_and_compute_source` takes it
    as the prefix `B[:len(B) - len(<what remains after the parse>)]` of the value B that *was* the remaining source
    before the parse - the text sliced and the text whose length is the minuend are one and the same value, both
    lengths are lengths of the remaining source (affine check on the values of the path: a length "computed without
    a copy" from the whole source and a column, sliced off another string, shifts and cuts the recorded text as soon
    as an instruction does not start in column 0 - a description on the same line)"""
    from ..absint import Interp, Hooks, Sym, K
    ix, fo = c.ix, c.fo
    f = ix.func('exactly_lib.section_document.element_parsers.section_element_parsers:parse_and_compute_source')
    sp = [p.arg for p in f.positional_params() if p.arg == 'source']
    c.require(sp, 'C07-k: the source parameter of parse_and_compute_source not found')

    class H(Hooks):
        def inline(self, fd, st):
            return False

    def is_remaining(v, when_call_idx, before: bool, trace) -> bool:
        """v is `<source param>.remaining_source`, read before / after the call of the instruction parser"""
        if not (isinstance(v, Sym) and v.origin and v.origin[0] == 'attr' and v.origin[2] == 'remaining_source'):
            return False
        b = v.origin[1]
        return isinstance(b, Sym) and bool(b.origin) and b.origin[:2] == ('param', sp[0])

    n = 0
    for p in Interp(ix, fo, H()).run_function(f, {}):
        if p.kind != 'return':
            continue
        # the split text: <text>.split('\\n')
        splits = [e for e in p.calls() if isinstance(e.node.func, ast.Attribute) and e.node.func.attr == 'split']
        c.require(len(splits) == 1, 'C07-k: the division of the instruction source into lines not found')
        cv = splits[0].data.get('callee_val')
        text = splits[0].data.get('recv')
        if text is None and isinstance(cv, Sym) and cv.origin and cv.origin[0] == 'attr':
            text = cv.origin[1]
        n += 1
        ok = False
        why = 'the text is %s' % util.describe(text)
        o = text.origin if isinstance(text, Sym) else None
        if o and o[0] == 'index':
            base, idx = o[1], o[2]
            upper = idx.origin[2][0] if isinstance(idx, Sym) and idx.origin and idx.origin[0] == 'op' \
                                        and idx.origin[1] == 'Slice' and len(idx.origin[2]) == 1 else None
            uo = upper.origin if isinstance(upper, Sym) else None
            if uo and uo[0] == 'op' and uo[1] == 'BinOp' and len(uo[2]) == 2:
                l1, l2 = uo[2]

                def len_arg(v):
                    vo = v.origin if isinstance(v, Sym) else None
                    return vo[2][0] if vo and vo[0] == 'call' and str(vo[1]).endswith('len') and len(vo[2]) == 1 else None

                a1, a2 = len_arg(l1), len_arg(l2)
                ok = a1 is not None and a1 is base and is_remaining(base, None, True, p.trace) \
                     and a2 is not None and is_remaining(a2, None, False, p.trace) and a2 is not base
                why = 'the text is %s[:%s - %s]' % (util.describe(base), util.describe(a1) if a1 is not None else util.describe(l1),
                                                    util.describe(a2) if a2 is not None else util.describe(l2))
        c.expect(ok, 'C07-k', 'instruction-source/prefix-of-what-was-remaining',
                 'the text recorded for an instruction is not B[:len(B) - len(<remaining source after the parse>)] with B '
                 'the remaining source before the parse (%s): the text of an instruction that does not start in '
                 'column 0 is shifted and cut' % why, f.loc())
    c.floor('C07-k', 'returning paths of parse_and_compute_source', n, 1)


# ---------------------------------------------------------------- l
def clause_l(c: Check):
    """PLUMB "an error is located where its source is": every `FileSourceError(<source>, .., <location>)` built from
    the source of a caught element error (`ex.source`) takes its location from that same source
    (`source_location_info_for(ex.source)`) - not from the line the parser happens to stand on (a description on an
    earlier line, a later line of a multi-line instruction)"""
    ix = c.ix
    fse = ix.cls('exactly_lib.section_document.exceptions:FileSourceError')
    n = 0
    for s in util.call_sites_of(ix, fse):
        b = util.ctor_call_args(ix, fse, s.node) or {}
        src, loc = b.get('source'), b.get('source_location_info')
        if src is None or loc is None:
            continue
        src_r = util.resolve_temp(s.func, src)
        if not (isinstance(src_r, ast.Attribute) and src_r.attr == 'source' and isinstance(src_r.value, ast.Name)):
            continue
        # the name is bound by `except .. as name`
        bs = s.func.local_bindings().get(src_r.value.id, []) if s.func is not None else []
        if not any(x[0] == 'except' for x in bs):
            continue
        n += 1
        loc_r = util.resolve_temp(s.func, loc)
        ok = isinstance(loc_r, ast.Call) and isinstance(loc_r.func, ast.Attribute) and loc_r.func.attr == 'source_location_info_for' \
             and len(loc_r.args) == 1 and unparse(util.resolve_temp(s.func, loc_r.args[0])) == unparse(src_r)
        c.expect(ok, 'C07-l', 'error-located-at-its-source@%s' % s.where,
                 'the error about %s is reported at %s: the line number and text shown are those of another line' % (
                     unparse(src_r), unparse(loc_r)[:70]), s.loc)
    c.floor('C07-l', 'file source errors built from a caught element error', n, 1)


# ---------------------------------------------------------------- m
def clause_m(c: Check):
    """SIB one notion of "this line is a section header": the document parser decides where an element ends and a new
    section begins, the act-phase parser decides where the act source ends - both by the same predicate on the text
    of the line (resolved callee identity).  With two notions a line that one of them takes for a header and the other
    does not (`[assert`, `[assert] # note`) is either swallowed into the act source or handed to an instruction
    parser, instead of being reported as a malformed header at its line."""
    ix = c.ix
    dp = ix.func('exactly_lib.section_document.impl.document_parser:_Impl.current_line_is_section_line')
    ap_cls = ix.cls('exactly_lib.processing.parse.act_phase_source_parser:ActPhaseParser')
    ap = ix.class_member(ap_cls, 'parse')
    syn = 'exactly_lib.section_document.syntax'

    def header_predicates(f):
        out = []
        for call, d in util.calls_in(ix, f):
            if isinstance(d, FuncDef) and d.module.name == syn and len(call.args) == 1:
                out.append(d)
        return out

    a, b = header_predicates(dp), header_predicates(ap)
    c.require(len(a) == 1, 'C07-m: the header test of the document parser is not a single predicate of syntax (%s)' % [x.name for x in a])
    # the act parser: the predicate that guards its `break`
    guards = []
    for n in walk_own(ap.node):
        if isinstance(n, ast.If) and any(isinstance(x, ast.Break) for st_ in n.body + n.orelse for x in ast.walk(st_)):
            for x in ast.walk(n.test):
                if isinstance(x, ast.Call):
                    d = ix.callee(ap.module, ap, x)
                    if isinstance(d, FuncDef):
                        guards.append(d)
    c.require(len(guards) >= 1, 'C07-m: the condition that ends the act source is not found')
    c.expect(all(g is a[0] for g in guards), 'C07-m', 'one-header-predicate',
             'the document parser recognises a section header with %s, the act-phase parser ends the act source with %s: '
             'a line that only one of them takes for a header is not reported as a malformed header' % (
                 a[0].name, sorted({g.name for g in guards})), ap.loc())


# ---------------------------------------------------------------- n
def clause_n(c: Check):
    """EVAL the location path of a source element is the inclusion chain of its file, outermost first, FOLLOWED by the
    location of the element itself (explicit chain of two symbolic links)."""
    from ..absint import Interp, Hooks, State, ListVal, Sym
    ix, fo = c.ix, c.fo
    fli = ix.cls('exactly_lib.section_document.source_location:FileLocationInfo')
    f = ix.class_member(fli, 'location_path_of')
    slo = ix.class_member(fli, 'source_location_of')

    class H(Hooks):
        def inline(self, fd, st):
            return False

    it = Interp(ix, fo, H())
    st = State()
    obj = it.new_obj(fli)
    l0, l1 = Sym('outer-link', nullness=False), Sym('inner-link', nullness=False)
    st.heap[(obj.oid, 'file_inclusion_chain')] = ListVal([l0, l1], True)
    src = Sym('source', nullness=False)
    n = 0
    for p in it.run_function(f, {f.positional_params()[1].arg: src}, st, recv=obj):
        n += 1
        items = it.concrete_items(p.val) if p.kind == 'return' else None
        ok = items is not None and len(items) == 3 and items[0] is l0 and items[1] is l1 \
            and util.origin_call_key(util.root_sym(items[2])) == slo.key
        c.expect(bool(ok), 'C07-n', 'location_path_of/chain-then-element',
                 'the location path of an element in a file included through [outer, inner] is %s (expected outer, '
                 'inner, the element)' % ([util.describe(x) for x in items] if items is not None else p.kind), f.loc())
    c.floor('C07-n', 'paths of location_path_of', n, 1)
