"""C11 Settings persist forward: cd, env (act / non-act), timeout (DESIGN.md section 5, clauses a-e)."""
import ast
from typing import List, Optional

from ..core import Index, FuncDef, ClassDef, External, AnalysisError, unparse, walk_own, dotted_name, parent
from ..fold import Folder, Record, EnumMember, Ref, is_unknown, single_return_expr
from ..absint import Interp, Hooks, State, K, Sym, Obj, Exc, NONE, ListVal, BoundMethod
from ..report import Check
from .. import util
from .common import ForkHooks, labels_of, check_zero_is_a_value
from .C01 import get_model, step_kinds

EXECUTOR_MOD = 'exactly_lib.execution.partial_execution.impl.executor'
ENV = 'exactly_lib.impls.instructions.multi_phase.environ.impl'
ISET = 'exactly_lib.test_case.phases.instruction_settings'


def check(c: Check):
    c.explanation = (
        'State plumbing of the settings that persist forward: one InstructionSettings / setup-settings object per '
        'execution handed to every main step (executor trace model), instruction environments rebuilt inside the '
        'per-instruction generators from the live settings (typestate of the generator: the timeout read is younger '
        'than the iteration), typestate of the two env appliers (expansion set = modified set; populated from the '
        'default getter before modification), decision tables of the applier selection, handler analysis of the '
        '${name} expansion (unknown name -> empty string constant), who-may-write rules for timeout / cwd. Decides '
        'clauses a-e of DESIGN.md C11; not the parse of -of, the regex, or OS facts about child processes.')
    clause_a(c)
    clause_b(c)
    clause_c(c)
    clause_d(c)
    clause_e(c)
    from .common import check_nothing_is_swallowed
    check_nothing_is_swallowed(c, 'C11-g', ['exactly_lib.impls.instructions.multi_phase.environ',
                                            'exactly_lib.impls.instructions.multi_phase.timeout',
                                            'exactly_lib.test_case.phases', 'exactly_lib.util.process_execution'], 5,
                               'a change that is to be made to both sets is made to one only; 0 is a timeout')
    from .common import sweep_records
    sweep_records(c, 'C11-rec', ['exactly_lib.test_case.phases.instruction_settings',
                                 'exactly_lib.util.process_execution.execution_elements',
                                 'exactly_lib.test_case.phases.act.execution_input',
                                 'exactly_lib.execution.configuration'], floor=3)
    # f: an environment from which every variable has been unset is the EMPTY environment - None means "inherit"
    check_zero_is_a_value(c, 'C11-f', ['exactly_lib.util.process_execution.process_executor',
                                       'exactly_lib.util.process_execution.execution_elements',
                                       'exactly_lib.test_case.phases.instruction_settings',
                                       'exactly_lib.test_case.phases.act.execution_input',
                                       'exactly_lib.impls.actors.util.atc_proc_exe_settings',
                                       'exactly_lib.impls.instructions.multi_phase.environ.impl',
                                       'exactly_lib.execution.partial_execution.impl.executor',
                                       'exactly_lib.execution.configuration'], 6,
                          'an environment with no variables is not "inherit the environment of Exactly"',
                          with_environs=True)


# ---------------------------------------------------------------- a
def clause_a(c: Check):
    ix = c.ix
    kind_of = step_kinds(c)
    m = get_model(c)
    full = max((t for t in m.traces if t.terminal == 'PASS' and t.first_raised() is None), key=lambda t: len(t.steps))
    iset = ix.cls(ISET + ':InstructionSettings')
    seen_settings = set()
    n = 0
    for s in full.steps:
        if s.kind != 'step' or kind_of[s.step] != 'MAIN' or s.via != 'instructions':
            continue
        n += 1
        ex = s.args[1]
        vals = list(ex.origin[2]) + list(ex.origin[3].values()) if isinstance(ex, Sym) and ex.origin and \
            ex.origin[0] == 'call' else []
        st = [v for v in vals if isinstance(v, Sym) and v.cls == iset]
        c.expect(len(st) == 1, 'C11-a', 'main-step/%s/gets-instruction-settings' % s.phase,
                 'the %s main step is given %d InstructionSettings objects' % (s.phase, len(st)), EXECUTOR_MOD)
        for v in st:
            seen_settings.add(id(util.root_sym(v)))
        if s.phase == 'SETUP':
            ok = any(isinstance(v, Sym) and util.attr_chain(v)[1][-1:] == ('builder',) for v in vals)
            c.expect(ok, 'C11-a', 'main-step/SETUP/gets-setup-settings-builder',
                     'the setup main step is not given the builder of the setup settings handler', EXECUTOR_MOD)
    c.floor('C11-a', 'main steps', n, 4)
    c.expect(len(seen_settings) == 1, 'C11-a', 'one-settings-object',
             'the main steps of one execution share %d different InstructionSettings objects' % len(seen_settings),
             EXECUTOR_MOD)
    # constructed only by the executor (once)
    sites = util.call_sites_of(ix, iset)
    for s in sites:
        c.expect(s.where == EXECUTOR_MOD + ':_PartialExecutor.__init__', 'C11-a', 'InstructionSettings()@' + s.where,
                 'InstructionSettings are constructed in %s (one object per execution, made by the executor)' % s.where,
                 s.loc)
    c.floor('C11-a', 'InstructionSettings constructions', len(sites), 1)
    # the act executor gets the same setup settings as the setup phase wrote
    cae = ix.func(EXECUTOR_MOD + ':_PartialExecutor._construct_act_phase_executor')
    ok = False
    for call, d in util.calls_in(ix, cae):
        if isinstance(d, ClassDef) and d.name == 'ActionToCheckExecutor':
            b = util.ctor_call_args(ix, d, call) or {}
            a = b.get('atc_input')
            ok = a is not None and unparse(a) == 'self._setup_settings_handler.as_atc_execution_input()'
    c.expect(ok, 'C11-a', 'act-executor/gets-setup-settings',
             'the act executor does not get its input from the one setup settings handler', cae.loc())
    sh = ix.cls('exactly_lib.execution.partial_execution.setup_settings_handler:StandardSetupSettingsHandler')
    f = ix.class_member(sh, 'as_atc_execution_input')
    r = single_return_expr(f)
    ok = isinstance(r, ast.Call) and len(r.args) == 2 and unparse(r.args[1]) == 'self._builder.environ' \
         and unparse(r.args[0]) == 'self._builder.stdin'
    c.expect(ok, 'C11-a', 'as_atc_execution_input', 'the act input is not (builder.stdin, builder.environ)', f.loc())
    # ... resolved for the actor as it is: the act set - None while untouched (= the environment Exactly was started
    # with) - is never replaced by another environment on the way (the environment of the application environment is
    # the NON-act set)
    adv = ix.cls('exactly_lib.execution.partial_execution.setup_settings_handler:AtcExecutionInputAdv')
    aei = ix.cls('exactly_lib.test_case.phases.act.execution_input:AtcExecutionInput')
    res = ix.class_member(adv, 'resolve')
    n_res = 0
    for label, env_val in (('untouched', NONE), ('populated', Sym('the-act-set', nullness=False))):
        class HR(Hooks):
            def inline(self, fd, st):
                return fd.cls is adv
        it = Interp(ix, c.fo, HR())
        insts = it.instantiate(adv, State(), {'stdin': NONE, 'environ': env_val})
        c.require(len(insts) == 1, 'C11-a: constructor of AtcExecutionInputAdv has %d paths' % len(insts))
        obj, st = insts[0]
        for p in it.run_function(res, {}, st, recv=obj):
            n_res += 1
            got = None
            if p.kind == 'return':
                con = util.constructed(ix, p.val)
                if con and con[0] == aei.key:
                    got = con[3].get('environ')
            same = got is env_val or (isinstance(got, K) and got.v is None and env_val is NONE)
            c.expect(same, 'C11-a', 'AtcExecutionInputAdv.resolve/act-environ/' + label,
                     'with the act set %s the input of the action to check is given the environment %s, not the act '
                     'set' % (label, util.describe(got) if got is not None else (p.kind if p.kind != 'return' else '?')),
                     res.loc())
    c.floor('C11-a', 'paths of AtcExecutionInputAdv.resolve', n_res, 2)
    fa = ix.func('exactly_lib.impls.actors.util.atc_proc_exe_settings:for_atc')
    pes = ix.cls('exactly_lib.util.process_execution.execution_elements:ProcessExecutionSettings')
    n_ret = 0
    for p in util.func_paths(ix, c.fo, fa, Hooks()):
        n_ret += 1
        con = util.constructed(ix, p.val) if p.kind == 'return' else None
        env = con[3].get('environ') if con and con[0] == pes.key else None
        base, chain = util.attr_chain(env)
        ok = chain == ('environ',) and isinstance(base, Sym) and base.origin and base.origin[:2] == ('param', 'execution_input')
        c.expect(ok, 'C11-a', 'for_atc/act-environ',
                 'the process of the act phase gets the environment %s, not the act set (execution_input.environ)' %
                 util.describe(env), fa.loc())
    c.require(n_ret >= 1, 'C11-a: for_atc has no path')


# ---------------------------------------------------------------- b
def clause_b(c: Check):
    ix, fo = c.ix, c.fo
    pe = ix.cls(EXECUTOR_MOD + ':_PartialExecutor')
    pes = ix.cls('exactly_lib.util.process_execution.execution_elements:ProcessExecutionSettings')
    iset = ix.cls(ISET + ':InstructionSettings')
    tmeth = ix.class_member(iset, 'timeout_in_seconds')
    emeth = ix.class_member(iset, 'environ')

    class H(Hooks):
        loop_bound = 2

        def inline(self, fd, st):
            return fd.cls == pe and not fd.is_generator

    for gname in ('_post_sds_main_environments', '_post_setup_validation_environments'):
        g = ix.class_member(pe, gname)
        c.require(isinstance(g, FuncDef) and g.is_generator, 'C11-b: %s is not a generator method' % gname)
        it = Interp(ix, fo, H())
        st = State()
        obj = it.new_obj(pe)
        st.heap[(obj.oid, '_instruction_settings')] = Sym('instruction_settings', cls=iset, nullness=False)
        paths = it.run_function(g, st=st, recv=obj)
        n_y = 0
        for p in paths:
            last_iter = None
            for i, e in enumerate(p.trace):
                if e.kind == 'loop-iter':
                    last_iter = i
                elif e.kind == 'yield':
                    n_y += 1
                    v = e.data
                    con = util.constructed(ix, v)
                    s = con[3].get('proc_exe_settings') if con else None
                    scon = util.constructed(ix, s) if s is not None else None
                    ok = False
                    why = 'the yielded environment has no ProcessExecutionSettings (%s)' % util.describe(s)
                    if last_iter is None:
                        why = 'an environment is yielded outside the per-instruction loop'
                    elif scon is not None and scon[0] == pes.key:
                        t = util.root_sym(scon[3].get('timeout_in_seconds'))
                        en = scon[3].get('environ')
                        t_idx = t.origin[5] if isinstance(t, Sym) and t.origin and t.origin[0] == 'call' \
                                               and t.origin[1] == tmeth.key else None
                        e_idx = _environ_read_idx(en, emeth)
                        if t_idx is None:
                            why = 'its timeout is %s, not a read of the live instruction settings' % util.describe(t)
                        elif t_idx < last_iter:
                            why = 'its timeout was read before this iteration began: a `timeout` instruction earlier ' \
                                  'in the phase would not affect this instruction'
                        elif e_idx is not None and e_idx < last_iter:
                            why = 'its environment was read before this iteration began'
                        elif e_idx is None and not (isinstance(en, K) and en.v is None):
                            why = 'its environment is %s, not a read of the live instruction settings' % util.describe(en)
                        else:
                            ok = True
                    c.expect(ok, 'C11-b', gname + '/fresh-settings-per-instruction', why, g.loc())
        c.floor('C11-b', 'yields analysed in ' + gname, n_y, 2)
    # pre-sds environment (validation before the sandbox): built from the same live settings
    f = ix.class_member(pe, '_setup_pre_sds_environment')
    ok = False
    for call, d in util.calls_in(ix, f):
        if d == pes:
            b = util.ctor_call_args(ix, pes, call) or {}
            t = b.get('timeout_in_seconds')
            ok = t is not None and unparse(t) == 'self._instruction_settings.timeout_in_seconds()'
    c.expect(ok, 'C11-b', '_setup_pre_sds_environment/live-timeout', 'the pre-sandbox environment does not read the '
                                                                     'live timeout', f.loc())


def _environ_read_idx(v, emeth) -> Optional[int]:
    """index of the InstructionSettings.environ() read a value derives from (through the read-only proxy)"""
    seen = 0
    while isinstance(v, Sym) and seen < 5:
        seen += 1
        r = util.root_sym(v)
        o = r.origin
        if o and o[0] == 'call':
            if o[1] == emeth.key:
                return o[5]
            if o[1] == 'types.MappingProxyType' and o[2]:
                v = o[2][0]
                continue
        return None
    return None


# ---------------------------------------------------------------- c
def clause_c(c: Check):
    ix, fo = c.ix, c.fo
    iset = ix.cls(ISET + ':InstructionSettings')
    ssb = ix.cls('exactly_lib.test_case.phases.setup.settings_builder:SetupSettingsBuilder')
    # --- the two appliers
    for cls_name, target in (('ModifierApplierForNonSetupPhase', 'instruction'), ('ModifierApplierForSetupPhase', 'setup')):
        cls = ix.cls(ENV + ':' + cls_name)
        ap = ix.class_member(cls, 'apply')

        class H(Hooks):
            def inline(self, fd, st):
                return fd.cls == cls

        for populated in (False, True):
            it = Interp(ix, fo, H())
            st = State()
            obj = it.new_obj(cls)
            ins = Sym('instruction_settings', cls=iset, nullness=False)
            sps = Sym('setup_settings', cls=ssb, nullness=False)
            st.heap[(obj.oid, '_instruction_settings')] = ins
            st.heap[(obj.oid, '_setup_phase_settings')] = sps
            paths = it.run_function(ap, st=st, recv=obj)
            for p in paths:
                seq = []
                pop_guard = None
                for test, truth in p.guards:
                    if 'environ' in unparse(test) and 'None' in unparse(test):
                        pop_guard = truth
                if pop_guard is None:
                    raise AnalysisError('C11-c: population test of %s not recognised' % cls_name)
                is_unpopulated = pop_guard if isinstance(test, ast.Compare) and isinstance(test.ops[0], ast.Is) else pop_guard
                for e in p.trace:
                    if e.kind == 'call':
                        node = e.node
                        name = node.func.attr if isinstance(node.func, ast.Attribute) else unparse(node.func)
                        if name == 'of':
                            seq.append(('expand-env', _which_set(e.data['args'][0] if e.data['args'] else None)))
                        elif name == 'modify':
                            seq.append(('modify', _which_set(e.data['args'][0] if e.data['args'] else None)))
                        elif name == 'set_environ':
                            seq.append(('populate', 'instruction', _getter(e.data['args'][0] if e.data['args'] else None)))
                        elif name == 'primitive':
                            seq.append(('primitive',))
                    elif e.kind == 'setattr':
                        base, attr, v = e.data
                        if attr == 'environ':
                            seq.append(('populate', _which_obj(base), _getter(v)))
                key = '%s.apply/%s' % (cls_name, 'unpopulated' if is_unpopulated else 'populated')
                kinds = [s[0] for s in seq]
                want = ['expand-env', 'primitive'] + (['populate'] if is_unpopulated else []) + ['modify']
                c.expect(kinds == want, 'C11-c', key + '/order', 'event order is %s (expected %s)' % (kinds, want),
                         ap.loc())
                for s in seq:
                    if s[0] in ('expand-env', 'modify'):
                        c.expect(s[1] == target, 'C11-c', '%s/%s-set' % (key, s[0]),
                                 '%s addresses the %s set, but this applier changes the %s set' % (
                                     s[0], s[1], target), ap.loc())
                    elif s[0] == 'populate':
                        c.expect(s[1] == target and s[2] == 'default_environ_getter()', 'C11-c', key + '/populate',
                                 'population writes the %s set from %s (expected the %s set from '
                                 'default_environ_getter())' % (s[1], s[2], target), ap.loc())
    from .C04 import environ_getter_is_fresh
    environ_getter_is_fresh(c, 'C11-c')
    # --- which applier for which phase argument
    emb = ix.cls(ENV + ':TheInstructionEmbryo')
    ra = ix.class_member(emb, '_resolve_applier')
    ph = fo.enum_members(ix.cls(ENV + ':Phase'))
    c.require(set(ph) == {'ACT', 'NON_ACT'}, 'C11-c: environ.Phase members changed')
    import itertools
    for subset in ([], ['ACT'], ['NON_ACT'], ['ACT', 'NON_ACT']):
        it = Interp(ix, fo, Hooks())
        st = State()
        obj = it.new_obj(emb)
        st.heap[(obj.oid, '_phases')] = K(frozenset(ph[n] for n in subset))
        got = []
        for p in it.run_function(ra, st=st, recv=obj):
            for e in p.calls():
                node = e.node
                if isinstance(node.func, ast.Attribute) and node.func.attr in ('applier_for_act', 'applier_for_non_act'):
                    got.append(node.func.attr)
        want = (['applier_for_act'] if 'ACT' in subset else []) + (['applier_for_non_act'] if 'NON_ACT' in subset else [])
        c.expect(sorted(got) == sorted(want), 'C11-c', '_resolve_applier/{%s}' % ','.join(subset),
                 'for phases {%s} the appliers are %s' % (','.join(subset), got), ra.loc())
    # --- factories
    f1 = ix.cls(ENV + ':_ApplierFactoryWSupportForNonSetupPhase')
    f2 = ix.cls(ENV + ':_ApplierFactoryWSupportForSetupAndNonSetupPhases')
    want = {
        (f1, 'applier_for_act'): 'SequenceOfAppliers.empty',
        (f1, 'applier_for_non_act'): 'ModifierApplierForNonSetupPhase',
        (f2, 'applier_for_act'): 'ModifierApplierForSetupPhase',
        (f2, 'applier_for_non_act'): 'ModifierApplierForNonSetupPhase',
    }
    for (cls, meth), w in want.items():
        f = ix.class_member(cls, meth)
        r = single_return_expr(f)
        d = ix.callee(f.module, f, r) if isinstance(r, ast.Call) else None
        got = d.key.split(':')[-1] if d is not None else None
        c.expect(got == w, 'C11-c', '%s.%s' % (cls.name, meth), 'returns %s (expected %s)' % (got, w), f.loc())
        if isinstance(d, ClassDef) and isinstance(r, ast.Call):
            b = util.ctor_call_args(ix, d, r) or {}
            for pn, a in b.items():
                role_ok = pn.lstrip('_') in unparse(a).lstrip('self.').lstrip('_') or unparse(a).endswith(pn)
                c.expect(role_ok, 'C11-c', '%s.%s/arg/%s' % (cls.name, meth, pn),
                         'constructor parameter %s is given %s' % (pn, unparse(a)), f.loc())
    rf = ix.class_member(emb, '_resolve_applier_factory')
    for label, arg, w in (('non-setup', NONE, f1), ('setup', Sym('setup_settings', nullness=False), f2)):
        outs = set()
        for p in util.func_paths(ix, fo, rf, Hooks(), args={'setup_phase_settings': arg}):
            outs.add(util.constructed_class(ix, p.val) if p.kind == 'return' else 'raises')
        c.expect(outs == {w.key}, 'C11-c', '_resolve_applier_factory/' + label,
                 'in a %s phase the applier factory is %s' % (label, outs), rf.loc())
    # SequenceOfAppliers applies all, in order
    sq = ix.func(ENV + ':SequenceOfAppliers.apply')
    loops = [n for n in walk_own(sq.node) if isinstance(n, ast.For)]
    ok = len(loops) == 1 and unparse(loops[0].iter) == 'self._appliers' and any(
        isinstance(n, ast.Call) and isinstance(n.func, ast.Attribute) and n.func.attr == 'apply' for n in ast.walk(loops[0]))
    c.expect(ok, 'C11-c', 'SequenceOfAppliers.apply', 'not every applier is applied', sq.loc())
    # InstructionSettings / SetupSettingsBuilder: get returns what set stored
    class HS(Hooks):
        def inline(self, fd, st):
            return fd.cls in (iset, ssb)

    it = Interp(ix, fo, HS())
    objs = it.instantiate(iset, State(), {'environ': Sym('E0')})
    obj, st = objs[0]
    se = ix.class_member(iset, 'set_environ')
    ge = ix.class_member(iset, 'environ')
    r0 = it.run_function(ge, st=st.fork(), recv=obj)
    r = it.run_function(se, args={se.positional_params()[1].arg: Sym('E1')}, st=st, recv=obj)
    r2 = it.run_function(ge, st=r[0].state, recv=obj)
    ok = len(r0) == 1 and isinstance(r0[0].val, Sym) and r0[0].val.tag == 'E0' and len(r2) == 1 \
         and isinstance(r2[0].val, Sym) and r2[0].val.tag == 'E1'
    c.expect(ok, 'C11-c', 'InstructionSettings/environ-accessors', 'environ() is not the stored environment', ge.loc())
    # the modifiers write into the dict they are given
    ms = ix.func(ENV + ':ModifierOfSet.modify')
    ok = False
    for n in walk_own(ms.node):
        if isinstance(n, ast.Assign) and isinstance(n.targets[0], ast.Subscript) \
                and unparse(n.targets[0].value) == ms.positional_params()[1].arg and isinstance(n.value, ast.Call):
            d = ix.callee(ms.module, ms, n.value)
            ok = isinstance(d, FuncDef) and d.name == '_expand_vars' and len(n.value.args) == 2 \
                 and unparse(n.value.args[1]) == ms.positional_params()[1].arg \
                 and unparse(n.targets[0].slice) == 'self._name' and unparse(n.value.args[0]) == 'self._value'
    c.expect(ok, 'C11-c', 'ModifierOfSet.modify', 'the value is not expanded against, and stored in, the set that is '
                                                  'being changed', ms.loc())
    mu = ix.func(ENV + ':ModifierUnset.modify')
    dels = [n for n in ast.walk(mu.node) if isinstance(n, ast.Delete)]
    ok = len(dels) == 1 and isinstance(dels[0].targets[0], ast.Subscript) \
         and unparse(dels[0].targets[0].value) == mu.positional_params()[1].arg
    c.expect(ok, 'C11-c', 'ModifierUnset.modify', 'unset does not delete from the set that is being changed', mu.loc())


def _which_set(v) -> str:
    r = util.root_sym(v)
    if isinstance(r, Sym):
        if r.origin and r.origin[0] == 'call' and r.origin[1].endswith('InstructionSettings.environ'):
            return 'instruction'
        base, chain = util.attr_chain(v)
        if chain[-1:] == ('environ',) and isinstance(base, Sym) and util.root_sym(base).tag == 'setup_settings':
            return 'setup'
        if chain[-1:] == ('environ',) and isinstance(base, Sym) and util.root_sym(base).tag == 'instruction_settings':
            return 'instruction'
    return '?' + util.describe(v)


def _which_obj(base) -> str:
    r = util.root_sym(base)
    if isinstance(r, Sym):
        return {'setup_settings': 'setup', 'instruction_settings': 'instruction'}.get(r.tag, '?' + r.tag)
    return '?'


def _getter(v) -> str:
    r = util.root_sym(v)
    if isinstance(r, Sym) and r.origin and r.origin[0] == 'call':
        node = r.origin[4]
        return unparse(node.func).split('.')[-1] + '()'
    return util.describe(v)


# ---------------------------------------------------------------- d
def clause_d(c: Check):
    ix = c.ix
    ev = ix.func(ENV + ':_expand_vars')
    env_param = ev.positional_params()[1].arg
    sub = None
    for kind, *rest in ev.local_bindings().get('substitute', []):
        if kind == 'def':
            sub = rest[0]
    c.require(sub is not None, 'C11-d: _expand_vars.substitute not found')
    trys = [n for n in walk_own(sub.node) if isinstance(n, ast.Try)]
    c.require(len(trys) == 1, 'C11-d: substitute has %d try statements' % len(trys))
    t = trys[0]
    body_ret = [n for n in t.body if isinstance(n, ast.Return)]
    ok_body = len(body_ret) == 1 and isinstance(body_ret[0].value, ast.Subscript) \
              and isinstance(body_ret[0].value.value, ast.Name) and body_ret[0].value.value.id == env_param
    c.expect(ok_body, 'C11-d', '_expand_vars/looks-up-in-the-given-set',
             'a ${name} reference is not looked up in the set that is being changed', sub.loc())
    ok_h = False
    for types, h in util.handler_table(ix, sub, t):
        if any(isinstance(d, External) and d.dotted in ('builtins.KeyError', 'builtins.LookupError') for d in types):
            rets = [n for n in ast.walk(h) if isinstance(n, ast.Return)]
            ok_h = len(rets) == 1 and isinstance(rets[0].value, ast.Constant) and rets[0].value.value == ''
    c.expect(ok_h, 'C11-d', '_expand_vars/unknown-name-is-empty',
             'a reference to a name that is not in the set does not expand to the empty string', sub.loc())
    # which names a `${NAME}` reference may have: every name `env` can set - a non-empty run of letters, digits and
    # `_`, ALSO one that begins with a digit (the expression is read as a regular-expression syntax tree, not as text)
    from ..fold import Folder
    pat = c.fo.fold_path(ENV + ':_ENV_VAR_REFERENCE')
    pattern_text = None
    mod = ix.module(ENV)
    for n in mod.tree.body:
        if isinstance(n, ast.Assign) and len(n.targets) == 1 and isinstance(n.targets[0], ast.Name) \
                and n.targets[0].id == '_ENV_VAR_REFERENCE' and isinstance(n.value, ast.Call) and n.value.args:
            v = c.fo.fold(mod, None, n.value.args[0])
            if isinstance(v, str):
                pattern_text = v
    c.require(pattern_text is not None, 'C11-d: the pattern of _ENV_VAR_REFERENCE does not fold to a string')
    import warnings
    with warnings.catch_warnings():
        warnings.simplefilter('ignore')
        try:
            import re._parser as _rp
        except ImportError:
            import sre_parse as _rp
        tree = list(_rp.parse(pattern_text))

    def chars_of(items):
        out = set()
        for op, av in items:
            nm = str(op)
            if nm == 'LITERAL':
                out.add(chr(av))
            elif nm == 'RANGE':
                out |= {chr(x) for x in range(av[0], av[1] + 1)}
            else:
                return None
        return out

    want = set('abcdefghijklmnopqrstuvwxyzABCDEFGHIJKLMNOPQRSTUVWXYZ0123456789_')
    ok_re = False
    if len(tree) == 4 and [str(t_[0]) for t_ in tree] == ['LITERAL', 'LITERAL', 'MAX_REPEAT', 'LITERAL'] \
            and chr(tree[0][1]) == '$' and chr(tree[1][1]) == '{' and chr(tree[3][1]) == '}':
        lo, hi, sub_ = tree[2][1]
        sub_ = list(sub_)
        if lo == 1 and len(sub_) == 1 and str(sub_[0][0]) == 'IN':
            ok_re = chars_of(sub_[0][1]) == want
    c.expect(ok_re, 'C11-d', '_ENV_VAR_REFERENCE/names-are-runs-of-letters-digits-underscore',
             'a reference is recognised by %r, which is not "${" + one or more of [A-Za-z0-9_] + "}": a variable that '
             '`env` can set (e.g. one whose name begins with a digit) is not expanded when referenced' % pattern_text,
             ev.loc())
    # nothing else is consulted: no other mapping is read in _expand_vars
    others = []
    for n in ast.walk(ev.node):
        if isinstance(n, ast.Attribute) and n.attr in ('environ', 'getenv'):
            others.append(unparse(n))
        if isinstance(n, ast.Call) and isinstance(n.func, ast.Attribute) and n.func.attr == 'get':
            others.append(unparse(n))
    c.expect(not others, 'C11-d', '_expand_vars/no-other-source', 'the expansion also consults %s' % others, ev.loc())
    # all references are substituted (loop until no match)
    loops = [n for n in walk_own(ev.node) if isinstance(n, ast.While)]
    c.expect(len(loops) == 1, 'C11-d', '_expand_vars/all-references', 'no loop over all references', ev.loc())


# ---------------------------------------------------------------- e
def clause_e(c: Check):
    ix = c.ix
    # timeout instruction
    tm = ix.func('exactly_lib.impls.instructions.multi_phase.timeout.impl:TheInstructionEmbryo.main')
    calls = [(call, d) for call, d in util.calls_in(ix, tm) if isinstance(d, FuncDef) and d.name == 'set_timeout']
    ok = len(calls) == 1 and isinstance(calls[0][0].func, ast.Attribute) \
         and isinstance(calls[0][0].func.value, ast.Name) and calls[0][0].func.value.id == 'settings'
    c.expect(ok, 'C11-e', 'timeout/main-writes-settings', 'the timeout instruction does not store the value in the '
                                                          'instruction settings it is given', tm.loc())
    # no process start passes cwd=
    from .C03 import process_start_sites
    n = 0
    for s in process_start_sites(ix):
        call = parent(s.node)
        if isinstance(call, ast.Call) and call.func is s.node:
            if 'preprocessor' in s.module.name:
                continue  # the --preprocessor program: not a process of the test case
            n += 1
            c.expect(util.keyword_arg(call, 'cwd') is None, 'C11-e', 'process-start/no-cwd@' + s.where,
                     'a process is started with an explicit cwd (it must inherit the test\'s current directory)', s.loc)
    c.floor('C11-e', 'process start calls', n, 1)
    # the cd instruction changes the directory of the Exactly process itself
    cd = ix.func('exactly_lib.impls.instructions.multi_phase.change_dir:InstructionEmbryo.custom_main')
    ok = any(isinstance(d, External) and d.dotted == 'os.chdir' for _, d in util.calls_in(ix, cd))
    c.expect(ok, 'C11-e', 'cd/os.chdir', 'the cd instruction does not call os.chdir', cd.loc())
