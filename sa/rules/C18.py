"""C18 Mistakes in a test case are reported as such, never as internal errors (DESIGN.md section 5, clauses a-d)."""
import ast
import re
from typing import List, Optional, Set, Tuple

from ..core import ancestors, Index, FuncDef, ClassDef, External, AnalysisError, unparse, walk_own, dotted_name, parent
from ..fold import Folder, Record, EnumMember, Ref, is_unknown, single_return_expr
from ..absint import Interp, Hooks, State, K, Sym, Obj, Exc, NONE, ListVal, _builtin_issubclass
from ..report import Check
from .. import util
from .common import ForkHooks, labels_of

PD = 'exactly_lib.section_document.element_parsers.parser_for_dictionary_of_instructions'
IPE = 'exactly_lib.section_document.element_parsers.instruction_parser_exceptions'

# evaluators of the standard library that interpret a text and raise on ill-formed text:
#   dotted callee -> (index of the text argument, exception classes the handler must cover, reason)
EVALUATORS = {
    'builtins.eval': (0, {'builtins.Exception'}, 'any Python expression may raise anything (ZeroDivisionError, '
                                                 'AttributeError, RecursionError, MemoryError ...)'),
    'builtins.exec': (0, {'builtins.Exception'}, 'any Python code may raise anything'),
    're.compile': (0, {'re.error'}, 'an ill-formed regular expression raises re.error'),
    're.sub': (0, {'re.error'}, 'pattern / template errors raise re.error'),
    're.match': (0, {'re.error'}, 'an ill-formed pattern raises re.error'),
    're.search': (0, {'re.error'}, 'an ill-formed pattern raises re.error'),
    're.fullmatch': (0, {'re.error'}, 'an ill-formed pattern raises re.error'),
    'typing.Pattern.sub': (0, {'re.error', 'builtins.IndexError'},
                           'an ill-formed replacement template raises re.error (bad escape, invalid group number) or '
                           'IndexError (unknown group name) when the substitution is made'),
    're.Pattern.sub': (0, {'re.error', 'builtins.IndexError'}, 'an ill-formed replacement template raises re.error / '
                                                               'IndexError'),
    'pathlib.Path.match': (0, {'builtins.ValueError'}, 'an empty pattern raises ValueError'),
    'pathlib.PurePath.match': (0, {'builtins.ValueError'}, 'an empty pattern raises ValueError'),
    'pathlib.PurePosixPath.match': (0, {'builtins.ValueError'}, 'an empty pattern raises ValueError'),
    'pathlib.Path.glob': (0, {'builtins.ValueError', 'builtins.NotImplementedError'},
                          'an empty / non-relative pattern raises ValueError / NotImplementedError'),
    'pathlib.Path.rglob': (0, {'builtins.ValueError', 'builtins.NotImplementedError'},
                           'an empty / non-relative pattern raises ValueError / NotImplementedError'),
}
EXEMPT_EVALUATORS = {
    'fnmatch.fnmatch': 'fnmatch accepts every pattern string',
    'fnmatch.fnmatchcase': 'fnmatch accepts every pattern string',
    'typing.Pattern.search': 'the argument is the subject text, not a pattern',
    'typing.Pattern.fullmatch': 'the argument is the subject text, not a pattern',
    'typing.Pattern.match': 'the argument is the subject text, not a pattern',
}
SWEEP_PREFIXES = ('exactly_lib.impls.', 'exactly_lib.type_val_deps.', 'exactly_lib.type_val_prims.',
                  'exactly_lib.test_suite.', 'exactly_lib.symbol.', 'exactly_lib.section_document.',
                  'exactly_lib.processing.', 'exactly_lib.execution.', 'exactly_lib.test_case.')


def check(c: Check):
    c.explanation = (
        'Error-channel analysis: handler table of the instruction-parser dispatcher (argument errors -> syntax error; '
        'anything else -> implementation exception), totality of the parse-error handler, and an evaluator sweep: '
        'every call in the source that hands a non-constant text to a Python evaluator (eval, re.compile, '
        'Pattern.sub template, PurePath.match, Path.glob) is listed by resolved callee and must be enclosed - in its '
        'function or at all of its call sites - by handlers that cover what the evaluator raises on ill-formed text '
        'and convert it to the repository\'s error channel. Decides clauses a-d of DESIGN.md C18 for the known '
        'evaluator kinds; "whatever text" as such is a fuzzing statement and is not decided.')
    clause_a(c)
    clause_b(c)
    clause_c(c)
    clause_e(c)
    if c.tier == 'thorough':
        clause_d(c)
    clause_f(c)
    clause_g(c)
    clause_h(c)
    clause_i(c)
    from .common import check_no_use_of_absent_value
    check_no_use_of_absent_value(c, 'C18-j', ['exactly_lib'], 1200,
                                 'AttributeError on None ends as INTERNAL_ERROR')


# ---------------------------------------------------------------- a
def clause_a(c: Check):
    ix, fo = c.ix, c.fo
    f = ix.func(PD + ':InstructionParserForDictionaryOfInstructions._parse')
    siiae = ix.cls(IPE + ':SingleInstructionInvalidArgumentException')
    hooks = ForkHooks(ix)
    hooks.fork_on(lambda d, n, cv: isinstance(n.func, ast.Attribute) and n.func.attr == 'parse', [
        ('argument-error', ('raise', siiae)), ('value-error', ('raise', External('builtins.ValueError'))),
        ('key-error', ('raise', External('builtins.KeyError'))),
        ('instruction', lambda: Sym('instruction', origin=('i',)))])
    seen = set()
    for p in util.func_paths(ix, fo, f, hooks):
        lab = labels_of(p)[0]
        seen.add(lab)
        if lab == 'instruction':
            c.expect(p.kind == 'return' and getattr(util.root_sym(p.val), 'label', None) == 'instruction', 'C18-a',
                     '_parse/instruction', 'the parsed instruction is not returned', f.loc())
        elif lab == 'argument-error':
            ok = p.kind == 'raise' and isinstance(p.val, Exc) and p.val.cls.key.endswith(':InvalidInstructionArgumentException')
            c.expect(ok, 'C18-a', '_parse/argument-error',
                     'an invalid argument is not reported as InvalidInstructionArgumentException (%s)' % util.describe(p.val),
                     f.loc())
        else:
            ok = p.kind == 'raise' and isinstance(p.val, Exc) and p.val.cls.key.endswith(':ArgumentParsingImplementationException')
            c.expect(ok, 'C18-a', '_parse/' + lab, 'an unexpected exception of a parser escapes as %s' % util.describe(p.val),
                     f.loc())
    c.require(seen == {'argument-error', 'value-error', 'key-error', 'instruction'}, 'C18-a: outcomes %s' % seen)
    # the parse error handler covers every kind of parse error
    pev = ix.cls('exactly_lib.section_document.exceptions:ParseErrorVisitor')
    peh = ix.cls('exactly_lib.processing.processors:_ParseErrorHandler')
    abstract = [n for n, m in pev.methods.items() if n.startswith('visit_')]
    for n in abstract:
        d = ix.class_member(peh, n)
        c.expect(isinstance(d, FuncDef) and d.cls == peh and not util.is_abstract_body(d), 'C18-a',
                 '_ParseErrorHandler/' + n, 'parse errors of kind %s are not handled' % n, peh.loc())
    c.floor('C18-a', 'kinds of parse error', len(abstract), 2)
    # every ParseError subclass dispatches to a visit method
    pe = ix.cls('exactly_lib.section_document.exceptions:ParseError')
    m = ix.module('exactly_lib.section_document.exceptions')
    for cls in m.all_classes:
        if cls != pe and ix.is_subclass(cls, pe) and any(x.name == cls.name for x in m.all_classes):
            acc = ix.class_member(cls, 'accept')
            ok = isinstance(acc, FuncDef) and not util.is_abstract_body(acc)
            subs = [k for k in m.all_classes if k != cls and ix.is_subclass(k, cls)]
            if subs and not ok:
                continue  # intermediate abstract class
            c.expect(ok, 'C18-a', 'ParseError/%s.accept' % cls.name, '%s cannot be dispatched to the handler' % cls.name,
                     cls.loc())


# ---------------------------------------------------------------- b
class EvalSite:
    def __init__(self, m, f, node, dotted):
        self.m, self.f, self.node, self.dotted = m, f, node, dotted

    @property
    def where(self):
        return self.f.key if self.f else self.m.name

    @property
    def loc(self):
        return '%s:%d' % (self.m.relpath, self.node.lineno)


def evaluator_sites(c: Check) -> Tuple[List[EvalSite], List[str]]:
    ix, fo = c.ix, c.fo
    pat = re.compile(r'\beval\(|\bexec\(|re\.\w+\(|\.sub\(|\.match\(|\.glob\(|\.rglob\(|fnmatch')
    sites, exempt = [], []
    for name in ix.all_module_names():
        if not name.startswith(SWEEP_PREFIXES):
            continue
        t = ix.text(name)
        if not pat.search(t):
            continue
        m = ix.module(name)
        for node in ast.walk(m.tree):
            if not isinstance(node, ast.Call):
                continue
            f = m.enclosing_func(node)
            d = ix.callee(m, f, node)
            if not isinstance(d, External):
                continue
            k = d.dotted
            if k in EXEMPT_EVALUATORS:
                exempt.append('%s in %s: %s' % (k, f.key if f else name, EXEMPT_EVALUATORS[k]))
                continue
            if k not in EVALUATORS:
                continue
            idx = EVALUATORS[k][0]
            arg = node.args[idx] if len(node.args) > idx else None
            if arg is None:
                continue
            v = fo.fold(m, f, arg)
            if isinstance(v, str):
                exempt.append('%s in %s: constant text %r' % (k, f.key if f else name, v[:30]))
                continue
            if isinstance(arg, (ast.Name, ast.Attribute)):
                from ..core import VarDef
                vd = ix.resolve_static(m, f, arg)
                if isinstance(vd, VarDef) and len(vd.values) == 1 and isinstance(vd.value, ast.Call):
                    cd = ix.callee(vd.module, None, vd.value)
                    if isinstance(cd, External) and cd.dotted == 're.compile' and vd.value.args \
                            and isinstance(fo.fold(vd.module, None, vd.value.args[0]), str):
                        exempt.append('%s in %s: constant compiled pattern %s' % (k, f.key if f else name, vd.key))
                        continue
            sites.append(EvalSite(m, f, node, k))
    return sites, exempt


def _covers(ix: Index, handled: Set[str], required: Set[str]) -> bool:
    for r in required:
        if not any(h == r or _builtin_issubclass(r, h) for h in handled):
            return False
    return True


def handlers_around(ix: Index, m, f, node) -> Tuple[Set[str], bool]:
    """(exception classes handled by enclosing try statements whose body contains node, every such handler converts)
    a handler converts when it raises (a repository exception) or returns a value"""
    handled = set()
    converts = True
    for t, part in util.enclosing_trys(node, stop=f.node if f else None):
        if part != 'body':
            continue
        for types, h in util.handler_table(ix, f, t) if f else []:
            names = [d.dotted for d in types if isinstance(d, External)]
            if not names:
                continue
            does = any(isinstance(x, ast.Raise) and x.exc is not None for x in ast.walk(h)) \
                   or any(isinstance(x, ast.Return) and x.value is not None for x in ast.walk(h))
            reraises_same = all(isinstance(x, ast.Raise) and x.exc is None for x in h.body) if h.body else False
            if reraises_same:
                continue
            handled.update(names)
            if not does:
                converts = False
    return handled, converts


def clause_b(c: Check):
    ix = c.ix
    sites, exempt = evaluator_sites(c)
    kinds = {}
    for s in sites:
        kinds[s.dotted] = kinds.get(s.dotted, 0) + 1
        required = EVALUATORS[s.dotted][1]
        reason = EVALUATORS[s.dotted][2]
        handled, converts = handlers_around(ix, s.m, s.f, s.node)
        ok = _covers(ix, handled, required) and converts
        via = 'in its own function'
        if not ok and s.f is not None:
            # all call sites of the enclosing function (one level up)
            callers = util.call_sites_of(ix, s.f, prefix='exactly_lib')
            if callers:
                all_ok = True
                for cs in callers:
                    h2, conv2 = handlers_around(ix, cs.module, cs.func, cs.node)
                    if not (_covers(ix, h2 | handled, required) and conv2):
                        all_ok = False
                ok = all_ok
                via = 'at all %d call sites of %s' % (len(callers), s.f.name)
        key = 'evaluator/%s@%s' % (s.dotted, s.where)
        c.expect(ok, 'C18-b', key,
                 'text of the test case is handed to %s (%s) but the exceptions %s are not converted to an error of the '
                 'test case: they surface as INTERNAL_ERROR (handled here: %s)' % (
                     s.dotted, reason, sorted(required), sorted(handled) or 'nothing'), s.loc,
                 detail='covered %s' % via)
    c.sample({'evaluator sites': ['%s in %s' % (s.dotted, s.where) for s in sites]})
    c.note('exempt evaluator calls: ' + '; '.join(exempt))
    c.floor('C18-b', 'evaluator sites with non-constant text', len(sites), 5)
    for need in ('builtins.eval', 're.compile'):
        c.floor('C18-b', 'sites of ' + need, kinds.get(need, 0), 1)
    # positive control: the table recognises a bare evaluator call as uncovered
    import os
    from ..report import VERIF_ROOT
    fx = Index(os.path.join(VERIF_ROOT, 'fixtures', 'evaluators'))
    fm = fx.module('exactly_lib.impls.fixture_eval')
    bad = 0
    total = 0
    for node in ast.walk(fm.tree):
        if isinstance(node, ast.Call):
            f = fm.enclosing_func(node)
            d = fx.callee(fm, f, node)
            if isinstance(d, External) and d.dotted in EVALUATORS:
                total += 1
                handled, converts = handlers_around(fx, fm, f, node)
                if not (_covers(fx, handled, EVALUATORS[d.dotted][1]) and converts):
                    bad += 1
    want_bad = sum(1 for line in fm.src.splitlines() if '# EXPECT' in line)
    if bad != want_bad or total < want_bad + 2:
        raise AnalysisError('C18-b: positive control failed: %d of %d fixture sites reported, expected %d' % (
            bad, total, want_bad))
    c.ok('C18-b', 'positive-control/fixture', '%d uncovered of %d evaluator calls in the fixture' % (bad, total))


# ---------------------------------------------------------------- c
def clause_c(c: Check):
    ix, fo = c.ix, c.fo
    # python_evaluate: every outcome of eval is NotAnIntegerException or an int
    pe = ix.func('exactly_lib.impls.types.integer.evaluate_integer:python_evaluate')
    nai = ix.cls('exactly_lib.impls.types.integer.evaluate_integer:NotAnIntegerException')
    hooks = ForkHooks(ix)
    outcomes = [('syntax-error', ('raise', External('builtins.SyntaxError'))),
                ('zero-division', ('raise', External('builtins.ZeroDivisionError'))),
                ('name-error', ('raise', External('builtins.NameError'))),
                ('recursion-error', ('raise', External('builtins.RecursionError'))),
                ('memory-error', ('raise', External('builtins.MemoryError'))),
                ('overflow-error', ('raise', External('builtins.OverflowError'))),
                ('value', lambda: Sym('value', origin=('v',)))]
    hooks.fork_on(lambda d, n, cv: isinstance(d, External) and d.dotted == 'builtins.eval', outcomes)
    def str_in_try_body(d, n, cv):
        return isinstance(d, External) and d.dotted == 'builtins.str' and any(
            part == 'body' for t, part in util.enclosing_trys(n, stop=pe.node)) and not any(
            part == 'handler' for t, part in util.enclosing_trys(n, stop=pe.node))

    hooks.fork_on(str_in_try_body, [
        ('too-large-for-text', ('raise', External('builtins.ValueError'))), ('text', lambda: Sym('text'))])
    seen = set()
    n_text_checks = 0
    for p in util.func_paths(ix, fo, pe, hooks):
        labs_all = labels_of(p)
        lab = labs_all[0]
        seen.add(lab)
        if lab == 'value' and 'too-large-for-text' in labs_all:
            n_text_checks += 1
            ok = p.kind == 'raise' and isinstance(p.val, Exc) and p.val.cls == nai
            c.expect(ok, 'C18-c', 'python_evaluate/too-large-for-text',
                     'an integer that cannot be converted to text (more digits than the interpreter converts) is not '
                     'rejected as "not an integer"', pe.loc())
            continue
        if lab == 'value':
            ok = (p.kind == 'return' and getattr(util.root_sym(p.val), 'label', None) == 'value') or \
                 (p.kind == 'raise' and isinstance(p.val, Exc) and p.val.cls == nai)
            c.expect(ok, 'C18-c', 'python_evaluate/value', 'a value that is not an int is neither returned nor rejected '
                                                           '(%s)' % util.describe(p.val), pe.loc())
        else:
            ok = p.kind == 'raise' and isinstance(p.val, Exc) and p.val.cls == nai
            c.expect(ok, 'C18-c', 'python_evaluate/' + lab,
                     'an integer expression that raises %s at evaluation is not reported as "not an integer": it '
                     'surfaces as INTERNAL_ERROR (%s)' % (lab, util.describe(p.val)), pe.loc())
    c.require(len(seen) == len(outcomes), 'C18-c: python_evaluate outcomes %s' % seen)
    c.expect(n_text_checks >= 1, 'C18-c', 'python_evaluate/text-conversion-checked',
             'the evaluated integer is never converted to text under the handler: an integer with more digits than the '
             'interpreter converts (e.g. 10**5000) raises an uncaught ValueError when a message shows it', pe.loc())
    # the integer validator turns it into an error message in both steps
    val = ix.cls('exactly_lib.impls.types.integer.integer_ddv:_IntegerDdvValidator')
    for meth_name, dep in (('validate_pre_sds_if_applicable', False), ('validate_post_sds_if_applicable', True)):
        meth = ix.class_member(val, meth_name)
        hooks = ForkHooks(ix)
        hooks.fork_on(lambda d, n, cv: isinstance(n.func, ast.Attribute) and n.func.attr in (
            'value_when_no_dir_dependencies', 'value_of_any_dependency'), [('not-an-integer', ('raise', nai)),
                                                                           ('int', lambda: Sym('x', origin=('x',)))])
        it = Interp(ix, fo, hooks)
        st = State()
        obj = it.new_obj(val)
        st.heap[(obj.oid, '_has_dir_dependencies')] = K(dep)
        n = 0
        for p in it.run_function(meth, st=st, recv=obj):
            labs = labels_of(p)
            if not labs:
                continue
            n += 1
            if labs[0] == 'not-an-integer':
                ok = p.kind == 'return' and not (isinstance(p.val, K) and p.val.v is None)
                c.expect(ok, 'C18-c', '_IntegerDdvValidator.%s/not-an-integer' % meth_name,
                         'an invalid integer is not reported as a validation error (%s %s)' % (p.kind, util.describe(p.val)),
                         meth.loc())
        c.expect(n >= 2, 'C18-c', '_IntegerDdvValidator.%s/evaluates' % meth_name,
                 'the integer is not evaluated in the step where it can be', meth.loc())
    # regex: compiled (and errors reported) by the validator
    rv = ix.cls('exactly_lib.impls.types.regex.parse_regex:_ValidatorWhichCreatesRegex')
    comp = ix.class_member(rv, '_compile_and_set_pattern')
    hooks = ForkHooks(ix)
    hooks.fork_on(lambda d, n, cv: isinstance(d, External) and d.dotted == 're.compile',
                  [('bad-regex', ('raise', External('re.error'))), ('pattern', lambda: Sym('pattern', nullness=False))])
    for p in util.func_paths(ix, fo, comp, hooks):
        labs = labels_of(p)
        if labs == ['bad-regex']:
            ok = p.kind == 'return' and not (isinstance(p.val, K) and p.val.v is None)
            c.expect(ok, 'C18-c', 'regex-validator/bad-regex', 'an ill-formed regex is not reported as an error message',
                     comp.loc())
        elif labs == ['pattern']:
            c.expect(p.kind == 'return' and isinstance(p.val, K) and p.val.v is None, 'C18-c', 'regex-validator/valid',
                     'a valid regex gives %s' % util.describe(p.val), comp.loc())
    for meth_name in ('validate_pre_sds_if_applicable', 'validate_post_sds_if_applicable'):
        meth = ix.class_member(rv, meth_name)
        ok = isinstance(meth, FuncDef) and any(d == comp for _, d in util.calls_in(ix, meth))
        c.expect(ok, 'C18-c', 'regex-validator/%s-compiles' % meth_name, 'the regex is not compiled by the validator',
                 meth.loc() if isinstance(meth, FuncDef) else rv.loc())


# ---------------------------------------------------------------- d (thorough)
def clause_d(c: Check):
    """ABS sweep: no class instantiated in src inherits an un-overridden `raise NotImplementedError('abstract method')`
    method that the repository calls through a visitor dispatch - restricted to the visitor families"""
    ix = c.ix
    n = 0
    alltext = '\n'.join(ix.text(n_) for n_ in ix.all_module_names())
    for m in ix.all_modules('exactly_lib'):
        for cls in m.all_classes:
            visits = [k for k in cls.methods if k.startswith('visit_')]
            if len(visits) < 2 or not all(util.is_abstract_body(cls.methods[k]) for k in visits):
                continue
            # cls is an abstract visitor: every instantiated subclass overrides every visit method
            for sub in ix.subclasses_of(cls):
                if not re.search(r'(?<![\w])%s\(' % re.escape(sub.name), alltext.replace('class %s(' % sub.name, '')):
                    continue
                if any(util.is_abstract_body(x) for x in sub.methods.values() if x.name.startswith('visit_')):
                    continue
                n += 1
                missing = [k for k in visits if util.is_abstract_body(ix.class_member(sub, k))]
                c.expect(not missing, 'C18-d', 'visitor-total/%s' % sub.key,
                         '%s does not handle %s (NotImplementedError at run time)' % (sub.name, missing), sub.loc())
    c.floor('C18-d', 'concrete visitors checked', n, 30)


# ---------------------------------------------------------------- e
_REMAINING_ATTRS = ('remaining_source', 'remaining_part_of_current_line', 'remaining_source_after_head')
_EMPTINESS_GUARDS = ('is_at_eol', 'is_at_eof', 'is_null', 'has_current_line', 'len(')


def clause_e(c: Check):
    """first-character tests on the remaining source: after initial space is consumed the remaining text may be
    empty (a line of form feed / vertical tab only is not a blank line for the document parser but is all space);
    `remaining[0]` then raises IndexError -> INTERNAL_ERROR instead of a syntax error"""
    ix = c.ix
    n = 0
    for name in ix.all_module_names():
        if not name.startswith(('exactly_lib.section_document.', 'exactly_lib.processing.parse.')):
            continue
        t = ix.text(name)
        if '[0]' not in t or not any(a in t for a in _REMAINING_ATTRS):
            continue
        m = ix.module(name)
        for node in ast.walk(m.tree):
            if not (isinstance(node, ast.Subscript) and isinstance(node.slice, ast.Constant) and node.slice.value == 0
                    and isinstance(node.ctx, ast.Load)):
                continue
            v = node.value
            if not (isinstance(v, ast.Attribute) and v.attr in _REMAINING_ATTRS):
                continue
            n += 1
            f = m.enclosing_func(node)
            guarded = False
            if f is not None:
                # an emptiness guard that returns / raises before the subscript, in the same function
                for st in ast.walk(f.node):
                    if isinstance(st, ast.If) and st.lineno < node.lineno and any(g in unparse(st.test) for g in _EMPTINESS_GUARDS) \
                            and any(isinstance(x, (ast.Return, ast.Raise)) for x in st.body):
                        guarded = True
            c.expect(guarded, 'C18-e', 'first-char-of-remaining-source@' + (f.key if f else name),
                     '%s[0] is read without checking that text remains: a line consisting of non-blank white space only '
                     '(form feed, vertical tab) gives IndexError -> INTERNAL_ERROR' % unparse(v),
                     '%s:%d' % (m.relpath, node.lineno))
    c.floor('C18-e', 'first-character tests on remaining source', n, 1)


# ---------------------------------------------------------------- f
def _assembled_templates(ix: Index, fo, m):
    """format calls of module m whose template is put together from text that does not fold to a constant"""
    out = []
    total = 0
    for node in ast.walk(m.tree):
        if not isinstance(node, ast.Call):
            continue
        fmt = None
        if isinstance(node.func, ast.Attribute) and node.func.attr in ('format', 'format_map'):
            fmt = node.func.value
        else:
            fn = unparse(node.func).split('.')[-1]
            if fn in ('FormatPositional', 'FormatMap') and node.args:
                fmt = node.args[0]
        if fmt is None:
            continue
        total += 1
        f = m.enclosing_func(node)
        if isinstance(fmt, (ast.BinOp, ast.JoinedStr)) and not isinstance(fo.fold(m, f, fmt), str):
            out.append((node, fmt, f))
    return total, out


def clause_f(c: Check):
    """user text is an *argument* of a message format, never part of the template: a template put together from
    non-constant text (`'...{}' + detail`, an f-string) raises ValueError / KeyError / IndexError when the text holds
    a brace - and since messages are rendered lazily, at print time, outside every handler, the mistake in the user's
    input ends as an uncaught exception / INTERNAL_ERROR instead of the error it is"""
    ix, fo = c.ix, c.fo
    n_total = 0
    n_bad = 0
    for name in ix.all_module_names():
        t = ix.text(name)
        if 'FormatPositional' not in t and 'FormatMap' not in t and '.format(' not in t and '.format_map(' not in t:
            continue
        m = ix.module(name)
        total, bad = _assembled_templates(ix, fo, m)
        n_total += total
        for node, fmt, f in bad:
            n_bad += 1
            c.bad('C18-f', 'format-template@%s' % (f.key if f else name),
                  'the format template %s is put together from non-constant text: a brace in that text makes the '
                  'rendering raise, outside every handler' % unparse(fmt)[:80], '%s:%d' % (m.relpath, node.lineno))
    c.floor('C18-f', 'format calls examined', n_total, 200)
    if not n_bad:
        c.ok('C18-f', 'format-templates-are-constant', detail='%d format calls' % n_total)
    import os
    from ..report import VERIF_ROOT
    fx = Index(os.path.join(VERIF_ROOT, 'fixtures', 'evaluators'))
    fm = fx.module('exactly_lib.impls.fixture_format')
    total, bad = _assembled_templates(fx, Folder(fx), fm)
    want = sum(1 for line in fm.src.splitlines() if '# EXPECT template' in line)
    if len(bad) != want or total < want + 1:
        raise AnalysisError('C18-f: positive control failed: %d of %d fixture templates reported, expected %d' % (len(bad), total, want))


# ---------------------------------------------------------------- g
def _raising_searches(m):
    """`x.index(...)` calls of module m that are not inside a try with a ValueError / Exception handler"""
    out, total = [], 0
    for node in ast.walk(m.tree):
        if isinstance(node, ast.Call) and isinstance(node.func, ast.Attribute) and node.func.attr == 'index' and node.args:
            total += 1
            covered = False
            for a in ancestors(node):
                if isinstance(a, ast.Try) and any(node in ast.walk(s) for s in a.body):
                    for h in a.handlers:
                        t = unparse(h.type) if h.type is not None else 'BaseException'
                        if any(x in t for x in ('ValueError', 'Exception')):
                            covered = True
            if not covered:
                out.append(node)
    return total, out


def clause_g(c: Check):
    """the document / instruction parsers search source text with find(), or handle the ValueError of index(): a
    search that raises when the text is cut short (no newline after the last line) happens while a syntax error is
    being reported - the ValueError replaces it and ends as INTERNAL_ERROR"""
    ix = c.ix
    n_mod = 0
    n_bad = 0
    for name in ix.all_module_names():
        if not name.startswith(('exactly_lib.section_document.', 'exactly_lib.processing.parse.')):
            continue
        n_mod += 1
        if '.index(' not in ix.text(name):
            continue
        m = ix.module(name)
        total, bad = _raising_searches(m)
        for node in bad:
            n_bad += 1
            f = m.enclosing_func(node)
            c.bad('C18-g', 'raising-search@%s' % (f.key if f else name),
                  '%s raises ValueError when the text searched for is absent (e.g. no newline after the last line of a '
                  'truncated file) and nothing handles it' % unparse(node)[:70], '%s:%d' % (m.relpath, node.lineno))
    c.floor('C18-g', 'parser modules scanned for raising searches', n_mod, 25)
    if not n_bad:
        c.ok('C18-g', 'no-raising-search-in-parsers', detail='%d modules' % n_mod)
    import os
    from ..report import VERIF_ROOT
    fx = Index(os.path.join(VERIF_ROOT, 'fixtures', 'evaluators'))
    fm = fx.module('exactly_lib.impls.fixture_format')
    total, bad = _raising_searches(fm)
    want = sum(1 for line in fm.src.splitlines() if '# EXPECT index' in line)
    if len(bad) != want or total < want + 1:
        raise AnalysisError('C18-g: positive control failed: %d of %d fixture searches reported, expected %d' % (len(bad), total, want))


# ---------------------------------------------------------------- h
def _only_none_fields_used(ix: Index, modules, stores) -> list:
    """[(class, attribute, use node, method)]: the attribute is assigned only in __init__ and only the constant
    None, nothing in the repository stores to an attribute of that name, and a method uses it as a value - hands it
    to a call, reads an attribute / element of it, computes with it. (Returning it, or testing it for None, is what
    one does with a value that may be None.)"""
    out = []
    for m in modules:
        for k in m.all_classes:
            init = k.methods.get('__init__')
            if init is None or not init.self_name:
                continue
            none_attrs = set()
            for s in walk_own(init.node):
                if isinstance(s, ast.Assign) and isinstance(s.value, ast.Constant) and s.value.value is None:
                    for tg in s.targets:
                        if isinstance(tg, ast.Attribute) and isinstance(tg.value, ast.Name) and tg.value.id == init.self_name:
                            none_attrs.add(tg.attr)
            for a in sorted(none_attrs):
                if stores(k, a) != 1:
                    continue
                if any(isinstance(x, ast.Call) and isinstance(x.func, ast.Name) and x.func.id == 'setattr'
                       for x in ast.walk(k.node)) or '__dict__' in ast.unparse(k.node):
                    continue
                for meth in k.methods.values():
                    if not meth.self_name:
                        continue
                    for x in ast.walk(meth.node):
                        if not (isinstance(x, ast.Attribute) and x.attr == a and isinstance(x.ctx, ast.Load)
                                and isinstance(x.value, ast.Name) and x.value.id == meth.self_name):
                            continue
                        par = parent(x)
                        used = False
                        if isinstance(par, ast.Call) and (x in par.args or any(kw.value is x for kw in par.keywords)):
                            used = True
                        elif isinstance(par, (ast.Attribute, ast.Subscript)) and par.value is x:
                            used = True
                        elif isinstance(par, ast.BinOp):
                            used = True
                        elif isinstance(par, ast.Call) and par.func is x:
                            used = True
                        if used:
                            out.append((k, a, x, meth))
    return out


def clause_h(c: Check):
    """contradiction "only ever None, used as a value": a field that the constructor sets to None and nothing ever
    sets to anything else is None whenever it is read; a method that hands it to a call or dereferences it computes
    with None - the TypeError / AttributeError surfaces as INTERNAL_ERROR for a test case that is not even wrong
    (D18: `SdvValidatorFromDdvValidator._hds`)"""
    ix = c.ix
    self_stores = {}    # (class, attr) -> number of `self.attr = ..` in the methods of the class
    other_stores = {}   # attr -> number of stores through something else than self, anywhere
    mods = []
    for name in ix.all_module_names():
        t = ix.text(name)
        if 'self.' not in t:
            continue
        m = ix.module(name)
        mods.append(m)
        for x in ast.walk(m.tree):
            if not (isinstance(x, ast.Attribute) and isinstance(x.ctx, (ast.Store, ast.Del))):
                continue
            f = m.enclosing_func(x)
            owner = f
            while owner is not None and owner.cls is None:
                owner = owner.parent
            if owner is not None and isinstance(x.value, ast.Name) and x.value.id == owner.self_name:
                self_stores[(owner.cls, x.attr)] = self_stores.get((owner.cls, x.attr), 0) + 1
            else:
                other_stores[x.attr] = other_stores.get(x.attr, 0) + 1

    family_cache = {}

    def family(k):
        if k not in family_cache:
            fam = {b for b in ix.mro(k) if isinstance(b, ClassDef)}
            fam |= set(ix.subclasses_of(k)) if any(kk is k for (kk, _) in none_owner) else set()
            family_cache[k] = fam
        return family_cache[k]

    none_owner = set()
    cand_mods = [m for m in mods if '= None' in m.src]
    for m in cand_mods:
        for k in m.all_classes:
            init = k.methods.get('__init__')
            if init is None or not init.self_name:
                continue
            for s_ in walk_own(init.node):
                if isinstance(s_, ast.Assign) and isinstance(s_.value, ast.Constant) and s_.value.value is None:
                    for tg in s_.targets:
                        if isinstance(tg, ast.Attribute) and isinstance(tg.value, ast.Name) and tg.value.id == init.self_name \
                                and self_stores.get((k, tg.attr), 0) == 1 and not other_stores.get(tg.attr):
                            none_owner.add((k, tg.attr))

    def stores(k, a):
        if (k, a) not in none_owner:
            return 99
        return sum(self_stores.get((kk, a), 0) for kk in family(k)) + other_stores.get(a, 0)

    found = _only_none_fields_used(ix, cand_mods, stores)
    for k, a, x, meth in found:
        c.bad('C18-h', 'only-none-field-used/%s.%s@%s' % (k.key, a, meth.name),
              '%s.%s is set to None by the constructor and never to anything else, yet %s uses it as a value (%s): the '
              'method fails with a TypeError / AttributeError - INTERNAL_ERROR - whenever that value is needed' % (
                  k.name, a, meth.name, unparse(parent(x))[:70]), '%s:%d' % (k.module.relpath, x.lineno))
    c.floor('C18-h', 'modules scanned for fields that are only ever None', len(mods), 500)
    if not found:
        c.ok('C18-h', 'no-only-none-field-used-as-a-value', detail='%d modules' % len(mods))
    import os
    from ..report import VERIF_ROOT
    fx = Index(os.path.join(VERIF_ROOT, 'fixtures', 'evaluators'))
    fm = fx.module('exactly_lib.impls.fixture_none_field')
    cnt = {}
    for x in ast.walk(fm.tree):
        if isinstance(x, ast.Attribute) and isinstance(x.ctx, (ast.Store, ast.Del)):
            cnt[x.attr] = cnt.get(x.attr, 0) + 1
    # per class in the fixture (names are reused between its classes): count stores inside the class only
    got = []
    for k in fm.all_classes:
        kc = {}
        for x in ast.walk(k.node):
            if isinstance(x, ast.Attribute) and isinstance(x.ctx, (ast.Store, ast.Del)):
                kc[x.attr] = kc.get(x.attr, 0) + 1

        class _M:
            all_classes = [k]
        got += _only_none_fields_used(fx, [_M], lambda k_, a, kc=kc: kc.get(a, 0))
    want = sum(1 for line in fm.src.splitlines() if '# EXPECT none-field' in line)
    if len(got) != want or {g[0].name for g in got} != {'Broken'}:
        raise AnalysisError('C18-h: positive control failed: %d uses reported in %s, expected %d in Broken' % (
            len(got), sorted({g[0].name for g in got}), want))


# ---------------------------------------------------------------- i
def clause_i(c: Check):
    """NULL / typestate of the parse source in error handlers: when a parser fails, the source it was reading may be
    at the end of the file (the failing instruction is on the last line and its parser has consumed that line).  The
    members of ParseSource whose own docstring states "Precondition: has_current_line" (current_line_number,
    column_index, current_line ...) have no value then (None): code that runs while the failure is turned into the
    syntax error - the body of the handler, and the functions it hands the source to - must not use them on a source
    that the guarded code could have consumed, or the conversion itself raises (TypeError / AttributeError) and the
    user's syntax error becomes an INTERNAL_ERROR without a source line."""
    ix = c.ix
    ps = ix.cls('exactly_lib.section_document.parse_source:ParseSource')
    pre = set()
    for name, f in ps.methods.items():
        doc = ast.get_docstring(f.node) or ''
        if 'Precondition: has_current_line' in doc or 'Precondition: has_current_line' in doc.replace('\n', ' '):
            pre.add(name)
    c.require(len(pre) >= 4, 'C18-i: the members of ParseSource that need a current line are not found (%s)' % sorted(pre))
    n_handlers = 0
    for name in ix.all_module_names():
        if not any(name.startswith(p_) for p_ in ('exactly_lib.section_document.', 'exactly_lib.impls.actors.',
                                                  'exactly_lib.processing.', 'exactly_lib.test_suite.',
                                                  'exactly_lib.impls.instructions.')):
            continue
        t = ix.text(name)
        if 'except' not in t or 'ParseSource' not in t:
            continue
        m = ix.module(name)
        for tr in ast.walk(m.tree):
            if not isinstance(tr, ast.Try):
                continue
            f = m.enclosing_func(tr)
            if f is None:
                continue
            srcs = {a.arg for a in f.node.args.args + f.node.args.kwonlyargs
                    if a.annotation is not None and unparse(a.annotation).split('.')[-1] == 'ParseSource'}
            if not srcs:
                continue
            # may the guarded code consume the source?  (it is handed on, or a method other than a getter is called)
            consumed = set()
            for st_ in tr.body:
                for n in ast.walk(st_):
                    if isinstance(n, ast.Call):
                        for a in list(n.args) + [k.value for k in n.keywords]:
                            if isinstance(a, ast.Name) and a.id in srcs:
                                consumed.add(a.id)
                        if isinstance(n.func, ast.Attribute) and isinstance(n.func.value, ast.Name) \
                                and n.func.value.id in srcs:
                            consumed.add(n.func.value.id)
            for h in tr.handlers:
                n_handlers += 1
                for src in sorted(consumed):
                    for where, node, attr in _needs_current_line(ix, m, f, h.body, src, pre, 0):
                        c.bad('C18-i', 'handler-needs-current-line/%s/%s' % (f.key, attr),
                              'while %s turns a failure of the parser into the syntax error, `%s` is used (%s) - but the '
                              'failed parser may have consumed the last line of the file: the member has no value at end '
                              'of file, the conversion raises, and the mistake is reported as INTERNAL_ERROR' % (
                                  f.name, attr, where), '%s:%d' % (m.relpath, node.lineno))
    c.ok('C18-i', 'handlers-of-parse-failures', detail='%d handlers in functions that take a ParseSource' % n_handlers)
    # the same for the exception a bad regular expression raises: pos / lineno / colno of re.error are None when the
    # error is found by the compiler rather than the parser of the expression (e.g. a look-behind of variable width)
    n_re = 0
    mods = [ix.module(n_) for n_ in ix.all_module_names() if 're.error' in ix.text(n_) or 'sre_constants' in ix.text(n_)]
    for m in mods:
        for where, node, attr in _optional_re_error_attributes_as_numbers(ix, m):
            c.bad('C18-i', 're.error-position-as-number/%s/%s' % (where, attr),
                  '`%s` of the error raised for an invalid regular expression is used as a number, but it is None for the '
                  'errors the regex compiler finds (variable-width look-behind ...): the handler raises TypeError and the '
                  'invalid REGEX is reported as INTERNAL_ERROR' % attr, '%s:%d' % (m.relpath, node.lineno))
        n_re += 1
    c.floor('C18-i', 'modules that handle re.error', n_re, 1)
    import os
    from ..report import VERIF_ROOT
    fx = Index(os.path.join(VERIF_ROOT, 'fixtures', 'evaluators'))
    fm = fx.module('exactly_lib.impls.fixture_re_error')
    got = sorted(n_.lineno for _, n_, _a in _optional_re_error_attributes_as_numbers(fx, fm))
    want = sorted(i + 1 for i, line in enumerate(fm.src.splitlines()) if '# EXPECT optional' in line)
    if got != want:
        raise AnalysisError('C18-i: positive control failed: lines %s reported, expected %s' % (got, want))
    c.floor('C18-i', 'handlers in functions that take a parse source', n_handlers, 5)


def _needs_current_line(ix, m, f, stmts, src: str, pre, depth: int):
    """(description, node, member) for uses of precondition members of the source named `src` in stmts, and in the
    functions the source is handed to (two levels)"""
    out = []
    for st_ in stmts:
        for n in ast.walk(st_):
            if isinstance(n, ast.Attribute) and n.attr in pre and isinstance(n.value, ast.Name) and n.value.id == src:
                out.append(('in %s' % f.name, n, n.attr))
            if isinstance(n, ast.Call) and depth < 2:
                args = list(n.args)
                hit = [i for i, a in enumerate(args) if isinstance(a, ast.Name) and a.id == src]
                kw_hit = [k.arg for k in n.keywords if k.arg and isinstance(k.value, ast.Name) and k.value.id == src]
                if not hit and not kw_hit:
                    continue
                try:
                    d = ix.callee(m, f, n)
                except Exception:
                    d = None
                if isinstance(d, ClassDef):
                    d = util.ctor_of(ix, d)
                    skip = 1
                elif isinstance(d, FuncDef):
                    skip = 1 if (d.cls is not None and not d.is_static and isinstance(n.func, ast.Attribute)) else 0
                else:
                    continue
                if d is None:
                    continue
                pos = [p_.arg for p_ in d.positional_params()[skip:]]
                names = [pos[i] for i in hit if i < len(pos)] + kw_hit
                for pn in names:
                    for w, node, attr in _needs_current_line(ix, d.module, d, d.node.body, pn, pre, depth + 1):
                        out.append(('%s, called from %s' % (w, f.name), n, attr))
    return out


RE_ERROR_OPTIONAL = ('pos', 'lineno', 'colno')


def _optional_re_error_attributes_as_numbers(ix, m):
    out = []

    def is_re_error(f, t) -> bool:
        d = ix.resolve_static(m, f, t) if f is not None else None
        return (isinstance(d, External) and d.dotted in ('re.error', 'sre_constants.error', 're.PatternError')) \
            or unparse(t) in ('re.error', 'sre_constants.error')

    scopes = []   # (root node whose sub tree is scanned, name of the exception in it, function)
    for h in ast.walk(m.tree):
        if isinstance(h, ast.ExceptHandler) and h.name and h.type is not None:
            f = m.enclosing_func(h)
            types = h.type.elts if isinstance(h.type, ast.Tuple) else [h.type]
            if any(is_re_error(f, t) for t in types):
                scopes.append((h, h.name, f))
    for f in m.funcs_by_node.values():
        # ... and the functions the exception is handed to (a parameter declared to be a re.error)
        for a in f.node.args.args + f.node.args.kwonlyargs:
            if a.annotation is not None and is_re_error(f, a.annotation):
                scopes.append((f.node, a.arg, f))
    for h, exc_name, f in scopes:
        for n in ast.walk(h):
            if not (isinstance(n, ast.Attribute) and n.attr in RE_ERROR_OPTIONAL and isinstance(n.value, ast.Name)
                    and n.value.id == exc_name):
                continue
            p = parent(n)
            numeric = isinstance(p, (ast.BinOp, ast.UnaryOp, ast.Slice)) or (
                isinstance(p, ast.Subscript) and p.slice is n) or (
                isinstance(p, ast.Compare) and any(isinstance(o, (ast.Lt, ast.LtE, ast.Gt, ast.GtE)) for o in p.ops)) or (
                isinstance(p, ast.Call) and isinstance(p.func, ast.Name) and p.func.id in ('range', 'int', 'abs', 'min', 'max'))
            if not numeric:
                continue
            guarded = False
            for a in ancestors(n):
                if a is h:
                    break
                if isinstance(a, (ast.If, ast.IfExp)):
                    for x in ast.walk(a.test):
                        if isinstance(x, ast.Compare) and isinstance(x.left, ast.Attribute) and x.left.attr == n.attr \
                                and any(isinstance(o, (ast.Is, ast.IsNot)) for o in x.ops):
                            guarded = True
            if not guarded:
                out.append((f.key if f else m.name, n, n.attr))
    return out
