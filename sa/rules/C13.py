"""C13 Line selection by `filter`: soundness clauses of the interval analysis (DESIGN.md section 5, clauses a-c)."""
import ast
from typing import List, Optional

from ..core import Index, FuncDef, ClassDef, External, AnalysisError, unparse, walk_own, dotted_name, parent
from ..fold import Folder, Record, EnumMember, Ref, is_unknown, single_return_expr
from ..absint import Interp, Hooks, State, K, Sym, Obj, Exc, NONE, ListVal, FuncVal, BoundMethod
from ..report import Check
from .. import util
from .common import ForkHooks, labels_of
from .common import check_zero_is_a_value

MI = 'exactly_lib.impls.types.interval.matcher_interval'
COMB = 'exactly_lib.util.interval.w_inversion.combinations'
IV = 'exactly_lib.util.interval.w_inversion.intervals'


def check(c: Check):
    c.explanation = (
        'Soundness clauses of the interval analysis that limits how much input `filter` reads, decided on the shape '
        'of the code: a taint analysis (source: the convex hull returned by combinations.union, also through '
        'functools.reduce and function-valued parameters; sink: the receiver of `.inversion`) - the inversion of an '
        'over-approximation is an under-approximation and drops lines; the inversion of a combination is built from '
        'the operand inversions with the dual operator; De Morgan duals and constant tables of the negation '
        'evaluator; unknown matchers are never narrowed; the interval classes\' own inversions are exact '
        'complements (off-by-one constants). Decides clauses a-c of DESIGN.md C13. Not decided: the arithmetic of '
        'intersection/union bounds, range merging for -line-nums, negative indices.')
    clause_a(c)
    clause_b(c)
    clause_c(c)
    clause_d(c)
    from .common import check_application_purity
    check_application_purity(c, 'C13-e', ['exactly_lib.type_val_prims.string_transformer:StringTransformer', 'exactly_lib.type_val_prims.matcher.matcher_base_class:MatcherWTrace'], floor=25)
    clause_f(c)
    clause_h(c)
    clause_i(c)
    # g: line numbers and interval limits - 0 is a number, None is "no limit"
    check_zero_is_a_value(c, 'C13-g', ['exactly_lib.util.interval.int_interval',
                                       'exactly_lib.util.interval.w_inversion.combinations',
                                       'exactly_lib.util.interval.w_inversion.intervals',
                                       'exactly_lib.impls.types.string_transformer.impl.filter.line_nums.range_merge',
                                       'exactly_lib.impls.types.string_transformer.impl.filter.line_nums.sources'], 10,
                          'a limit of 0 is a limit, None is "unlimited"')
    from .common import sweep_records
    sweep_records(c, 'C13-rec', ['exactly_lib.impls.types.string_transformer.impl.filter.line_nums.range_expr', 'exactly_lib.util.interval'], floor=6, strict=True)


# ---------------------------------------------------------------- helpers
def _walk_values(v, visit, depth=0, seen=None):
    """visit every abstract value reachable through origins / records / lists"""
    if seen is None:
        seen = set()
    if id(v) in seen or depth > 14:
        return
    seen.add(id(v))
    visit(v)
    if isinstance(v, K) and isinstance(v.v, Record):
        for a in v.v.args.values():
            _walk_values(a if hasattr(a, '__class__') else a, visit, depth + 1, seen)
    elif isinstance(v, ListVal):
        for a in v.items:
            _walk_values(a, visit, depth + 1, seen)
    elif isinstance(v, Sym):
        r = util.root_sym(v)
        o = r.origin
        if not o:
            return
        if o[0] == 'attr':
            _walk_values(o[1], visit, depth + 1, seen)
        elif o[0] == 'call':
            for a in list(o[2]) + list(o[3].values()):
                _walk_values(a, visit, depth + 1, seen)
        elif o[0] in ('op',):
            for a in o[2]:
                _walk_values(a, visit, depth + 1, seen)
        elif o[0] in ('index', 'comp', 'elem', 'starred'):
            _walk_values(o[1], visit, depth + 1, seen)
            if o[0] == 'comp' and o[2] is not None:
                _walk_values(o[2], visit, depth + 1, seen)


def _producer(v) -> Optional[str]:
    """key of the combination function that produced the value (directly or through functools.reduce)"""
    r = util.root_sym(v)
    if isinstance(r, Sym) and r.origin and r.origin[0] == 'call':
        key = r.origin[1]
        if key in ('functools.reduce', 'builtins.reduce') and r.origin[2]:
            f = r.origin[2][0]
            if isinstance(f, FuncVal) and f.fd is not None:
                return f.fd.key
            if isinstance(f, BoundMethod):
                return f.fd.key
            return '?'
        return key
    return None


# ---------------------------------------------------------------- a
def clause_a(c: Check):
    ix, fo = c.ix, c.fo
    comp = ix.cls(MI + ':_IntervalComputer')
    union = ix.func(COMB + ':union')
    inter = ix.func(COMB + ':intersection')
    wci = ix.cls(IV + ':WithCustomInversion')

    class H(Hooks):
        def inline(self, fd, st):
            return fd.cls == comp and fd.name.startswith('_bin')

    n_paths = 0
    for vname, pos_op, inv_op in (('visit_conjunction', inter, union), ('visit_disjunction', union, inter)):
        f = ix.class_member(comp, vname)
        it = Interp(ix, fo, H())
        # two explicit operands: the lists built from them are known whether written as comprehensions or loops
        operands = ListVal([Sym('operand0', nullness=False), Sym('operand1', nullness=False)])
        for p in it.run_function(f, {f.positional_params()[1].arg: operands}):
            n_paths += 1
            roots = [p.val] if p.kind == 'return' else []
            for e in p.calls():
                roots.extend(e.data['args'])
                roots.extend(e.data['kwargs'].values())
            bad = []

            def visit(v):
                if isinstance(v, Sym):
                    r = util.root_sym(v)
                    if r.origin and r.origin[0] == 'attr' and r.origin[2] == 'inversion':
                        prod = _producer(r.origin[1])
                        if prod == union.key:
                            bad.append('the `.inversion` of the value returned by combinations.union')

            for r_ in roots:
                _walk_values(r_, visit)
            c.expect(not bad, 'C13-a', '%s/no-inversion-of-hull' % vname,
                     '%s takes %s: the union is the convex hull (an over-approximation whenever the operands are not '
                     'adjacent) so its inversion under-approximates the complement and `filter !( a || b )` drops '
                     'lines' % (vname, bad[0] if bad else ''), f.loc())
            # result shape: WithCustomInversion(<positive combination>, adaption(<dual combination of inversions>))
            con = util.constructed(ix, p.val) if p.kind == 'return' else None
            ok = con is not None and con[0] == wci.key and len(con[1]) == 2
            if not ok:
                c.bad('C13-a', vname + '/result-shape', 'the combined interval is not built as '
                                                        'WithCustomInversion(positive, inversion): %s' % util.describe(p.val),
                      f.loc())
                continue
            pos, inv = con[1]
            c.expect(_producer(pos) == pos_op.key, 'C13-a', vname + '/positive-operator',
                     'the positive interval of %s is combined with %s (expected %s)' % (vname, _producer(pos), pos_op.name),
                     f.loc())
            # the inversion: through the adaption call
            inv_src = inv
            r = util.root_sym(inv)
            if isinstance(r, Sym) and r.origin and r.origin[0] == 'call' and r.origin[2]:
                inv_src = r.origin[2][0]
            prod = _producer(inv_src)
            from_inversions = []

            def visit2(v):
                if isinstance(v, Sym):
                    r2 = util.root_sym(v)
                    if r2.origin and r2.origin[0] == 'attr' and r2.origin[2] == 'inversion':
                        from_inversions.append(r2)

            _walk_values(inv_src, visit2)
            c.expect(prod == inv_op.key and bool(from_inversions), 'C13-a', vname + '/inversion-is-dual-of-operand-inversions',
                     'the inversion of %s is built with %s over %s (De Morgan: %s over the operands\' inversions)' % (
                         vname, prod, 'operand inversions' if from_inversions else 'something else', inv_op.name), f.loc())
    c.floor('C13-a', 'paths of the combination visitors', n_paths, 2)
    # union really is a hull / intersection may return Empty: informational anchors
    c.require(any(isinstance(n, ast.Call) and getattr(n.func, 'id', '') == 'min' for n in ast.walk(union.node)),
              'C13-a: combinations.union no longer computes a hull with min/max (re-examine the rule)')
    # the interval classes' own inversions are exact complements
    expect = {
        'UpperLimit': ('LowerLimit', '_upper', ast.Add), 'LowerLimit': ('UpperLimit', '_lower', ast.Sub),
    }
    for cls_name, (target, attr, op) in expect.items():
        cls = ix.cls(IV + ':' + cls_name)
        inv = ix.class_member(cls, 'inversion')
        r = single_return_expr(inv)
        ok = isinstance(r, ast.Call) and getattr(ix.callee(inv.module, inv, r), 'name', None) == target and len(r.args) == 1
        if ok:
            a = r.args[0]
            ok = isinstance(a, ast.BinOp) and isinstance(a.op, op) and isinstance(a.right, ast.Constant) \
                 and a.right.value == 1 and unparse(a.left) == 'self.' + attr
            if not ok and isinstance(a, ast.BinOp) and op is ast.Add and isinstance(a.op, ast.Add) \
                    and isinstance(a.left, ast.Constant) and a.left.value == 1 and unparse(a.right) == 'self.' + attr:
                ok = True
        c.expect(ok, 'C13-a', cls_name + '.inversion/exact-complement',
                 'the inversion of %s is %s (expected %s(%s %s 1))' % (
                     cls_name, unparse(r) if r is not None else '?', target, 'self.' + attr, '+' if op is ast.Add else '-'),
                 inv.loc())
    for cls_name, target in (('Unlimited', 'Empty'), ('Empty', 'unlimited_with_finite_inversion'),
                             ('Finite', 'unlimited_with_finite_inversion')):
        cls = ix.cls(IV + ':' + cls_name)
        inv = ix.class_member(cls, 'inversion')
        r = single_return_expr(inv)
        got = getattr(ix.callee(inv.module, inv, r), 'name', None) if isinstance(r, ast.Call) else None
        c.expect(got == target, 'C13-a', cls_name + '.inversion', 'the inversion of %s is %s (expected %s: an '
                                                                  'over-approximation of the complement)' % (
                     cls_name, got, target), inv.loc())
    w = ix.cls(IV + ':WithCustomInversion')
    inv = ix.class_member(w, 'inversion')
    r = single_return_expr(inv)
    ok = isinstance(r, ast.Call) and ix.callee(inv.module, inv, r) == w and [unparse(a) for a in r.args] == [
        'self._inversion', 'self._pos']
    c.expect(ok, 'C13-a', 'WithCustomInversion.inversion/swaps', 'WithCustomInversion.inversion does not swap the positive '
                                                                 'and the inverted interval', inv.loc())


# ---------------------------------------------------------------- b
def clause_b(c: Check):
    ix, fo = c.ix, c.fo
    neg = ix.cls(MI + ':_NegationEvaluator')
    comp = ix.cls(MI + ':_IntervalComputer')
    CM = 'exactly_lib.impls.types.matcher.impls.combinator_matchers'
    for vname, outer, in ((('visit_conjunction'), 'Disjunction'), (('visit_disjunction'), 'Conjunction')):
        f = ix.class_member(neg, vname)
        for p in util.func_paths(ix, fo, f, Hooks()):
            r = util.root_sym(p.val) if p.kind == 'return' else None
            ok = isinstance(r, Sym) and r.origin and r.origin[0] == 'call' and len(r.origin[2]) == 1
            why = 'the result is %s' % util.describe(p.val)
            if ok:
                arg = util.root_sym(r.origin[2][0])
                k = util.origin_call_key(arg)
                ok = k == CM + ':' + outer
                why = 'the negation of a %s is evaluated as %s' % (vname.split('_')[1], k)
                if ok:
                    inner = arg.origin[2][0] if arg.origin[2] else None
                    ri = util.root_sym(inner)
                    ok = isinstance(ri, Sym) and ri.origin and ri.origin[0] == 'comp' \
                         and util.origin_call_key(util.root_sym(ri.origin[2])) == CM + ':Negation'
                    if ok:
                        src = util.root_sym(ri.origin[1])
                        ok = isinstance(src, Sym) and src.origin and src.origin[0] == 'param' and src.origin[1] == 'operands'
                        elt_arg = util.root_sym(util.root_sym(ri.origin[2]).origin[2][0])
                        ok = ok and isinstance(elt_arg, Sym) and elt_arg.origin and elt_arg.origin[0] == 'elem'
                    why = 'the operands of the dual are not the negations of all operands'
                evaluator = unparse(r.origin[4].func) if ok else ''
                ok = ok and evaluator == 'self._matcher_evaluator'
            c.expect(bool(ok), 'C13-b', '_NegationEvaluator.' + vname, why, f.loc())
    # constants
    consts = fo.fold_path(MI + ':_CONSTANTS')
    ok = isinstance(consts, dict) and isinstance(consts.get(False), Record) and consts[False].cls.name == 'Empty' \
         and isinstance(consts.get(True), Record) and consts[True].cls.name == 'Unlimited'
    c.expect(ok, 'C13-b', '_CONSTANTS', 'constant matchers map to %r' % (consts,), MI)
    for cls, want_expr in ((neg, '_CONSTANTS[not value]'), (comp, None)):
        f = ix.class_member(cls, 'visit_constant')
        for val in (True, False):
            outs = set()
            for p in util.func_paths(ix, fo, f, Hooks(), args={f.positional_params()[1].arg: K(val)}):
                v = p.val
                if isinstance(v, Sym) and v.origin and v.origin[0] == 'call' and v.origin[2]:
                    v = v.origin[2][0]  # through the adaption
                outs.add(v.v.cls.name if isinstance(v, K) and isinstance(v.v, Record) else util.describe(v))
            truth = (not val) if cls == neg else val
            want = 'Unlimited' if truth else 'Empty'
            c.expect(outs == {want}, 'C13-b', '%s.visit_constant/%s' % (cls.name, val),
                     '%s of constant %s is %s (expected %s)' % ('the negation' if cls == neg else 'the interval', val,
                                                                outs, want), f.loc())
    # negation
    f = ix.class_member(neg, 'visit_negation')
    r = single_return_expr(f)
    c.expect(r is not None and unparse(r) == 'self._matcher_evaluator(%s)' % f.positional_params()[1].arg, 'C13-b',
             '_NegationEvaluator.visit_negation', 'a double negation is not evaluated positively', f.loc())
    f = ix.class_member(comp, 'visit_negation')
    r = single_return_expr(f)
    ok = r is not None and 'accept(self._negation_evaluator)' in unparse(r)
    c.expect(ok, 'C13-b', '_IntervalComputer.visit_negation', 'a negation is not evaluated by the negation evaluator',
             f.loc())


# ---------------------------------------------------------------- c
def clause_c(c: Check):
    ix, fo = c.ix, c.fo
    comp = ix.cls(MI + ':_IntervalComputer')
    neg = ix.cls(MI + ':_NegationEvaluator')
    wii = ix.cls('exactly_lib.impls.types.interval.with_interval:WithIntInterval')
    # positive: matcher with interval -> its interval; else the unknown-class interval
    f = ix.class_member(comp, 'visit_non_standard')
    for p in util.func_paths(ix, fo, f, Hooks()):
        known = None
        for test, truth in p.guards:
            if 'isinstance' in unparse(test) and 'WithIntInterval' in unparse(test):
                known = truth
        c.require(known is not None, 'C13-c: isinstance test of visit_non_standard not recognised')
        if known:
            r = util.root_sym(p.val)
            arg = r.origin[2][0] if isinstance(r, Sym) and r.origin and r.origin[0] == 'call' and r.origin[2] else p.val
            base, chain = util.attr_chain(arg)
            c.expect(chain == ('interval',), 'C13-c', '_IntervalComputer.visit_non_standard/with-interval',
                     'a matcher that knows its interval gives %s' % util.describe(p.val), f.loc())
        else:
            base, chain = util.attr_chain(p.val)
            c.expect(chain == ('_interval_of_unknown_class',), 'C13-c', '_IntervalComputer.visit_non_standard/unknown',
                     'a matcher of unknown kind is narrowed to %s' % util.describe(p.val), f.loc())
    f = ix.class_member(neg, 'visit_non_standard')
    for p in util.func_paths(ix, fo, f, Hooks()):
        known = None
        for test, truth in p.guards:
            if 'isinstance' in unparse(test) and 'WithIntInterval' in unparse(test):
                known = truth
        c.require(known is not None, 'C13-c: isinstance test of the negation evaluator not recognised')
        if known:
            base, chain = util.attr_chain(p.val)
            c.expect(chain == ('interval', 'inversion'), 'C13-c', '_NegationEvaluator.visit_non_standard/with-interval',
                     'the negation of a matcher that knows its interval is %s' % util.describe(p.val), f.loc())
        else:
            con = util.constructed(ix, p.val)
            ok = con is not None and con[0].endswith(':WithCustomInversion') and len(con[1]) == 2
            if ok:
                b0, c0 = util.attr_chain(con[1][0])
                b1, c1 = util.attr_chain(con[1][1])
                ok = c0 == ('_interval_of_unknown_class', 'inversion') and c1 == ('_interval_of_unknown_class',)
            c.expect(bool(ok), 'C13-c', '_NegationEvaluator.visit_non_standard/unknown',
                     'the negation of a matcher of unknown kind is narrowed (%s)' % util.describe(p.val), f.loc())
    # the unknown class used by the line matcher is unlimited with unlimited inversion
    v = ix.func(IV + ':unlimited_with_unlimited_inversion')
    r = single_return_expr(v)
    ok = isinstance(r, ast.Call) and [unparse(a) for a in r.args] == ['Unlimited()', 'Unlimited()']
    c.expect(ok, 'C13-c', 'unlimited_with_unlimited_inversion', 'the "unknown" interval is not unlimited in both '
                                                                 'directions', v.loc())
    n = 0
    for s in util.call_sites_of(ix, ix.func(MI + ':interval_of')) + util.call_sites_of(ix, ix.func(MI + ':interval_of__w_inversion')):
        if s.where.startswith(MI):
            continue
        n += 1
        b = util.bound_call_args(ix.func(MI + ':interval_of'), s.node, False) or {}
        a = b.get('interval_of_unknown_class')
        txt = unparse(a) if a is not None else ''
        if isinstance(a, (ast.Name, ast.Attribute)):
            from ..core import VarDef
            vd = ix.resolve_static(s.module, s.func, a)
            if isinstance(vd, VarDef) and len(vd.values) == 1:
                txt = unparse(vd.value)
        ok = 'unlimited_with_unlimited_inversion' in txt
        c.expect(ok, 'C13-c', 'unknown-class@' + s.where,
                 'matchers of unknown kind are given the interval %s' % (unparse(a) if a is not None else None), s.loc)
    c.floor('C13-c', 'users of interval_of', n, 1)


# ---------------------------------------------------------------- d
def clause_d(c: Check):
    """adaptions and inversions: an adaption (e.g. clamping to the line-number domain) returns a plain interval and
    so forgets a custom inversion.  Where the caller goes on to use the *inversion* of the computed interval
    (interval_of__w_inversion: the line-num matcher, negated at the line level) the adaption must be the identity."""
    ix = c.ix
    f = ix.func(MI + ':interval_of__w_inversion')
    na = ix.func(MI + ':no_adaption')
    r = single_return_expr(na)
    c.expect(isinstance(r, ast.Name) and r.id == na.positional_params()[0].arg, 'C13-d', 'no_adaption/identity',
             'no_adaption is not the identity', na.loc())
    n = 0
    for s in util.call_sites_of(ix, f):
        if s.where.startswith(MI):
            continue
        n += 1
        b = util.bound_call_args(f, s.node, False) or {}
        a = b.get('interval_adaption')
        d = ix.resolve_value(s.module, s.func, a) if a is not None else None
        c.expect(d == na, 'C13-d', 'inversion-preserving-adaption@' + s.where,
                 'the interval whose inversion is used later is computed with the adaption %s, which returns plain '
                 'intervals: the custom inversion of `!= N` (and of negated / combined comparisons) is lost and a '
                 'negation at the line level selects nothing' % (unparse(a) if a is not None else None), s.loc)
    c.floor('C13-d', 'users of interval_of__w_inversion', n, 1)
    # the computer itself takes inversions before adapting them
    comp = ix.cls(MI + ':_IntervalComputer')
    init = ix.class_member(comp, '__init__')
    src = unparse(init.node)
    ok = 'interval_adaption(interval_of_unknown_class.inversion)' in src.replace('self._', '').replace('self.', '')
    c.expect(ok, 'C13-d', '_IntervalComputer/unknown-class-inversion-adapted-separately',
             'the inversion of the unknown-class interval is not adapted separately from the interval', init.loc())


# ---------------------------------------------------------------- f
def clause_f(c: Check):
    """the structure the interval analysis sees is the structure that is matched: `accept(visitor)` of the four
    standard matchers hands the visitor exactly the component(s) the matcher applies - the operands as given to the
    constructor (same objects, same nesting), the negated matcher, the constant's boolean - through the visit method
    of its own kind, on every path; every other matcher is non-standard (the default accept)"""
    ix, fo = c.ix, c.fo
    CMm = 'exactly_lib.impls.types.matcher.impls.combinator_matchers'
    CONST = 'exactly_lib.impls.types.matcher.impls.constant'
    table = [
        (CMm + ':Conjunction', 'visit_conjunction', 'operands', 'list'),
        (CMm + ':Disjunction', 'visit_disjunction', 'operands', 'list'),
        (CMm + ':Negation', 'visit_negation', 'negated', 'one'),
        (CONST + ':MatcherWithConstantResult', 'visit_constant', 'result', 'bool'),
    ]

    class H(Hooks):
        loop_bound = 2

        def inline(self, fd, st):
            return fd.name == '__init__' and fd.module.name in (CMm, CONST)

        def inline_class(self, cd, st):
            return False

    for key, visit, param_hint, kind in table:
        cls = ix.cls(key)
        init = ix.class_member(cls, '__init__')
        acc = cls.methods.get('accept')
        c.require(isinstance(init, FuncDef) and acc is not None, 'C13-f: %s has no own constructor / accept' % key)
        pnames = [p.arg for p in init.positional_params()[1:] if param_hint in p.arg]
        c.require(len(pnames) == 1, 'C13-f: constructor parameter %r of %s not found' % (param_hint, key))
        for variant in ((True, False) if kind == 'bool' else (None,)):
            it = Interp(ix, fo, H())
            if kind == 'list':
                given = ListVal([Sym('operand0', nullness=False), Sym('operand1', nullness=False)])
            elif kind == 'one':
                given = Sym('negated-matcher', nullness=False)
            else:
                given = K(variant)
            insts = it.instantiate(cls, State(), {pnames[0]: given})
            c.require(len(insts) == 1, 'C13-f: constructor of %s has %d paths' % (key, len(insts)))
            obj, st = insts[0]
            visitor = Sym('visitor')
            ok_all = True
            n = 0
            for p in it.run_function(acc, {acc.positional_params()[1].arg: visitor}, st.fork(), recv=obj):
                n += 1
                good = False
                if p.kind == 'return':
                    o = p.val.origin if isinstance(p.val, Sym) else None
                    if o and o[0] == 'call' and isinstance(o[4].func, ast.Attribute) and o[4].func.attr == visit \
                            and len(o[2]) == 1 and o[5] is not None \
                            and util.attr_chain(p.trace[o[5]].data.get('callee_val'))[0] is visitor:
                        a = o[2][0]
                        if kind == 'bool':
                            good = isinstance(a, K) and a.v is variant
                        elif kind == 'list':
                            good = a is given or (isinstance(a, ListVal) and len(a.items) == 2
                                                  and all(x is y for x, y in zip(a.items, given.items)))
                        else:
                            good = a is given
                ok_all = ok_all and good
            c.expect(ok_all and n >= 1, 'C13-f', 'accept/%s%s' % (cls.name, '' if variant is None else '/%s' % variant),
                     '%s.accept does not hand the visitor its own %s through %s on every path: the interval analysis (which '
                     'limits the lines `filter` reads) sees another structure than the one that is matched' % (
                         cls.name, {'list': 'operands as given', 'one': 'negated matcher', 'bool': 'constant'}[kind], visit),
                     acc.loc())
    # no other class implements accept for this visitor except by delegating to visit_non_standard(self)
    base = ix.cls('exactly_lib.type_val_prims.matcher.matcher_base_class:MatcherWTrace')
    std = {k for k, _, _, _ in table}
    n_other = 0
    for k in ix.subclasses_of(base):
        a = k.methods.get('accept')
        if a is None or k.key in std:
            continue
        n_other += 1
        r = single_return_expr(a)
        ok = isinstance(r, ast.Call) and isinstance(r.func, ast.Attribute) and r.func.attr == 'visit_non_standard' \
             and [unparse(x) for x in r.args] == [a.self_name]
        c.expect(ok, 'C13-f', 'accept/non-standard/' + k.key, '%s.accept presents the matcher as %s' % (
            k.name, unparse(r.func) if isinstance(r, ast.Call) else '?'), a.loc())
    ba = base.methods.get('accept')
    if ba is not None:
        r = single_return_expr(ba)
        ok = isinstance(r, ast.Call) and isinstance(r.func, ast.Attribute) and r.func.attr == 'visit_non_standard'
        c.expect(ok, 'C13-f', 'accept/default', 'the default accept is not visit_non_standard', ba.loc())


# ---------------------------------------------------------------- h
def clause_h(c: Check):
    """DT of the limits of union / intersection over which limits the operands HAVE (a limit is None = unlimited on
    that side, or a number): the union of two intervals is unlimited on a side as soon as ONE operand is, the
    intersection only when BOTH are; where both have a limit the result is the min / max of exactly those two - the
    outer ones for the union (min of the lowers, max of the uppers), the inner ones for the intersection.  Evaluated
    for the 4 x 4 combinations of operand kinds (unlimited, lower limit, upper limit, finite) with symbolic numbers;
    the arithmetic itself (which number is smaller) is not evaluated.  A union that keeps the limit of one operand
    where the other has none makes `filter ( line-num <= 2 || line-num >= 6 )` stop reading after line 2."""
    ix, fo = c.ix, c.fo
    union = ix.func(COMB + ':union')
    inter = ix.func(COMB + ':intersection')
    of = ix.func(COMB + ':_of')
    kinds = {
        'unlimited': (False, False),
        'lower-limit': (True, False),
        'upper-limit': (False, True),
        'finite': (True, True),
    }
    iv_base = ix.cls('exactly_lib.util.interval.w_inversion.interval:IntIntervalWInversion')
    n = 0
    for fn, name in ((union, 'union'), (inter, 'intersection')):
        for ka, (a_lo, a_up) in kinds.items():
            for kb, (b_lo, b_up) in kinds.items():
                limits = {}
                for who, has_lo, has_up in (('a', a_lo, a_up), ('b', b_lo, b_up)):
                    limits[who] = {
                        'lower': Sym('%s.lower' % who, nullness=False, origin=('limit', who, 'lower')) if has_lo else NONE,
                        'upper': Sym('%s.upper' % who, nullness=False, origin=('limit', who, 'upper')) if has_up else NONE,
                        'is_empty': K(False),
                    }

                class H(Hooks):
                    def inline(self, fd, st):
                        return fd.module is fn.module and fd is not of

                    def on_call(self, interp, node, callee, callee_def, args, kwargs, st):
                        # min / max of a known, non-empty collection of numbers is a number (never None); of an
                        # empty one it is the `default`
                        if isinstance(callee_def, External) and callee_def.dotted in ('builtins.min', 'builtins.max'):
                            items = interp.concrete_items(args[0]) if len(args) == 1 else list(args)
                            if items is None:
                                return None
                            if not items:
                                return [('val', kwargs['default'], st)] if 'default' in kwargs else None
                            return [('val', Sym(callee_def.dotted.split('.')[-1], nullness=False,
                                                origin=('call', callee_def.dotted, tuple(args), dict(kwargs))), st)]
                        return None

                it = Interp(ix, fo, H())
                st = State()
                objs = {}
                for who in ('a', 'b'):
                    o = it.new_obj(iv_base)
                    for attr, v in limits[who].items():
                        st.heap[(o.oid, attr)] = v
                    objs[who] = o
                pa, pb = [p_.arg for p_ in fn.positional_params()[:2]]
                for p in it.run_function(fn, {pa: objs['a'], pb: objs['b']}, st):
                    n += 1
                    c.count()
                    ev = [e for e in p.calls() if e.data.get('callee') is of]
                    key = '%s/%s/%s' % (name, ka, kb)
                    if not ev:
                        if name == 'intersection' and p.kind == 'return' and util.constructed_class(ix, p.val) is not None \
                                and util.constructed_class(ix, p.val).endswith(':Empty'):
                            continue   # the empty intersection (decided by comparing the numbers): not judged here
                        c.bad('C13-h', key, 'the %s of %s and %s is %s, not built from the limits of the operands' % (
                            name, ka, kb, util.describe(p.val) if p.kind == 'return' else p.kind), fn.loc())
                        continue
                    args = ev[-1].data['args']
                    got = tuple(_limit_shape(it, x) for x in args[:2])
                    want = []
                    for side, outer in (('lower', 'min'), ('upper', 'max')):
                        present = [w for w in ('a', 'b') if limits[w][side] is not NONE]
                        if name == 'union':
                            want.append('none' if len(present) < 2 else (outer, ('a', 'b')))
                        else:
                            inner = 'max' if outer == 'min' else 'min'
                            want.append('none' if not present else (inner, tuple(present)) if len(present) == 2
                                        else ('is', tuple(present)))
                    c.expect(got == tuple(want), 'C13-h', key,
                             'the %s of %s and %s has (lower, upper) = %s; by the definition of %s it is %s' % (
                                 name, ka, kb, got, name, tuple(want)), fn.loc())
    c.floor('C13-h', 'paths of union / intersection over the kinds of operands', n, 32)


def _limit_shape(it, v):
    """'none' | ('is', (who,)) | ('min'|'max', (who, who)) | ('?', description)"""
    if isinstance(v, K) and v.v is None:
        return 'none'
    r = util.root_sym(v) if isinstance(v, Sym) else v
    if isinstance(r, Sym) and r.origin and r.origin[0] == 'limit':
        return ('is', (r.origin[1],))
    if isinstance(r, Sym) and r.origin and r.origin[0] == 'call' and str(r.origin[1]) in ('builtins.min', 'builtins.max'):
        args = list(r.origin[2])
        items = []
        if len(args) == 1:
            xs = it.concrete_items(args[0])
            if xs is None:
                return ('?', util.describe(v))
            items = xs
        else:
            items = args
        who = []
        for x in items:
            rx = util.root_sym(x) if isinstance(x, Sym) else x
            if isinstance(rx, Sym) and rx.origin and rx.origin[0] == 'limit':
                who.append(rx.origin[1])
            else:
                return ('?', util.describe(v))
        fnm = str(r.origin[1]).split('.')[-1]
        if not who:
            d = r.origin[3].get('default') if len(r.origin) > 3 else None
            return 'none' if isinstance(d, K) and d.v is None else ('?', util.describe(v))
        if len(who) == 1:
            return ('is', tuple(who))
        return (fnm, tuple(sorted(who)))
    return ('?', util.describe(v))


# ---------------------------------------------------------------- i
def clause_i(c: Check):
    """DT / affine form of the translation of a line number counted from the end (`_NegValuesTranslator._tr`): a number
    >= 0 is itself; a negative number n is `<number of lines> + n + 1`, and when that reaches before the first line
    the result is 0 - the number the partitioner drops as "no line" - not 1, which is a line.  The arithmetic is not
    evaluated: the two arguments of `max` are read as a constant and as a sum of terms."""
    ix, fo = c.ix, c.fo
    RM = 'exactly_lib.impls.types.string_transformer.impl.filter.line_nums.range_merge'
    f = ix.func(RM + ':_NegValuesTranslator._tr')
    n_param = f.positional_params()[1].arg

    def terms(e, sign=1):
        """{name: coefficient} of a sum of names / attributes / integer constants; None if not such a sum"""
        if isinstance(e, ast.BinOp) and isinstance(e.op, (ast.Add, ast.Sub)):
            a = terms(e.left, sign)
            b = terms(e.right, sign if isinstance(e.op, ast.Add) else -sign)
            if a is None or b is None:
                return None
            for k, v in b.items():
                a[k] = a.get(k, 0) + v
            return a
        v = fo.fold(f.module, f, e)
        if isinstance(v, int) and not isinstance(v, bool):
            return {'1': sign * v}
        if isinstance(e, (ast.Name, ast.Attribute)):
            return {unparse(e).split('.')[-1].lstrip('_'): sign}
        return None

    maxes = [x for x in ast.walk(f.node) if isinstance(x, ast.Call) and isinstance(x.func, ast.Name) and x.func.id == 'max'
             and len(x.args) == 2]
    c.require(len(maxes) == 1, 'C13-i: the clamp of _tr (a call of max with two arguments) is not found (%d)' % len(maxes))
    a0, a1 = maxes[0].args
    consts = [(fo.fold(f.module, f, a), a) for a in (a0, a1)]
    floor_ = [v for v, a in consts if isinstance(v, int) and not isinstance(v, bool)]
    other = [a for v, a in consts if not (isinstance(v, int) and not isinstance(v, bool))]
    c.expect(floor_ == [0], 'C13-i', '_tr/before-the-first-line-is-no-line',
             'a negative line number that reaches before the first line is translated to %s, not to 0 (the number that '
             'stands for "no line"): `-line-nums -5 3` on a text of 3 lines would keep line 1' % (floor_ or '?'), f.loc())
    t = terms(other[0]) if len(other) == 1 else None
    want = {'num_lines': 1, n_param: 1, '1': 1}
    c.expect(t == want, 'C13-i', '_tr/counted-from-the-end',
             'a negative line number n is translated to the sum %s (expected <number of lines> + n + 1)' % (
                 t if t is not None else unparse(other[0]) if other else '?'), f.loc())
    # the non-negative branch gives the number itself
    ok = False
    for r in util.returned_values(f):
        for v in ([r.body, r.orelse] if isinstance(r, ast.IfExp) else [r]):
            if isinstance(v, ast.Name) and v.id == n_param:
                ok = True
    c.expect(ok, 'C13-i', '_tr/non-negative-is-itself', 'a non-negative line number is not given back as it is', f.loc())
