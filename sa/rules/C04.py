"""C04 Sandbox lifecycle and isolation of the Exactly process (DESIGN.md section 5, clauses a-h)."""
import ast
import os
from typing import List, Optional

from ..core import Index, FuncDef, ClassDef, External, AnalysisError, unparse, walk_own, dotted_name, parent
from ..fold import Folder, Record, EnumMember, Ref, is_unknown, PathVal
from ..absint import Interp, Hooks, State, K, Sym, Obj, Exc, NONE, Event
from ..report import Check, VERIF_ROOT
from .. import util
from . import effects
from .C01 import get_model, step_kinds
from .common import ForkHooks, labels_of

PE = 'exactly_lib.execution.partial_execution.execution'
EXECUTOR_MOD = 'exactly_lib.execution.partial_execution.impl.executor'
SDS = 'exactly_lib.tcfs.sds'
MISC = 'exactly_lib.util.file_utils.misc_utils'
ATC = 'exactly_lib.execution.partial_execution.impl.atc_execution'


def check(c: Check):
    c.explanation = (
        'Path analysis of partial_execution.execute (sandbox removal and cwd restoration on every exit, incl. the '
        'exceptional ones), the executor trace model (sandbox created once, act/ made current before any main step, '
        'every post-sandbox terminal carries the sandbox), who-may-call rules (os.chdir, sandbox construction, the '
        'user tmp dir), an escape analysis of os.environ over the whole source tree, origin checks of the per-case '
        'environment copies and constant folding of the sandbox layout. Decides clauses a-h of DESIGN.md C04.')
    clause_a(c)
    clause_b(c)
    clause_c(c)
    clause_d(c)
    clause_e(c)
    clause_f(c)
    clause_g(c)
    clause_h(c)
    from .common import sweep_records
    sweep_records(c, 'C04-rec', ['exactly_lib.execution', 'exactly_lib.tcfs'], floor=15)


# ---------------------------------------------------------------- helpers
def contextmanager_shape(ix: Index, fd: FuncDef):
    """(pre statements, finally statements) of a generator context manager shaped
    `pre...; try: yield finally: post...`; None when the shape is different"""
    if 'contextmanager' not in [d.split('.')[-1] for d in fd.decorators]:
        return None
    body = [s for s in fd.node.body if not (isinstance(s, ast.Expr) and isinstance(s.value, ast.Constant))]
    for i, s in enumerate(body):
        if isinstance(s, ast.Try) and s.finalbody and not s.handlers:
            ys = [n for n in ast.walk(s) if isinstance(n, (ast.Yield, ast.YieldFrom))]
            in_body = [n for b in s.body for n in ast.walk(b) if isinstance(n, ast.Yield)]
            if len(ys) == 1 and len(in_body) == 1 and i == len(body) - 1:
                return body[:i], s.finalbody
    return None


def restores_cwd(ix: Index, fd: FuncDef) -> bool:
    """context manager that saves os.getcwd() before yielding and os.chdir()s back in a finally"""
    sh = contextmanager_shape(ix, fd)
    if sh is None:
        return False
    pre, fin = sh
    saved = set()
    for s in pre:
        if isinstance(s, ast.Assign) and isinstance(s.value, ast.Call) and len(s.targets) == 1 \
                and isinstance(s.targets[0], ast.Name):
            d = ix.callee(fd.module, fd, s.value)
            if isinstance(d, External) and d.dotted == 'os.getcwd':
                saved.add(s.targets[0].id)
    for s in fin:
        for n in ast.walk(s):
            if isinstance(n, ast.Call):
                d = ix.callee(fd.module, fd, n)
                if isinstance(d, External) and d.dotted == 'os.chdir' and len(n.args) == 1 \
                        and isinstance(n.args[0], ast.Name) and n.args[0].id in saved:
                    # must be unconditional inside the finally
                    return parent(util.stmt_of(n)) in (None,) or util.stmt_of(n) in fin
    return False


# ---------------------------------------------------------------- a
def clause_a(c: Check):
    ix, fo = c.ix, c.fo
    fd = ix.func(PE + ':execute')
    inner = ix.func(EXECUTOR_MOD + ':execute')
    class H(ForkHooks):
        # a helper of util.file_utils that wraps the removal is followed; inside it every os.* call may fail
        def inline(self, f_, st):
            return f_.module.name.startswith('exactly_lib.util.file_utils') and not f_.is_generator

        def may_raise(self, callee_def, node, st):
            fr = st.frame.func
            if fr is not None and fr.module.name.startswith('exactly_lib.util.file_utils') \
                    and isinstance(callee_def, External) and callee_def.dotted.startswith('os.'):
                return [External('builtins.OSError')]
            return []

    hooks = H(ix, loop_bound=1)
    hooks.fork_on(lambda d, n, cv: d == inner, [
        ('raises', ('raise', External('builtins.Exception'))),
        ('result', lambda: Sym('partial_result', nullness=False, origin=('partial-result',))),
    ])
    paths = util.func_paths(ix, fo, fd, hooks)
    c.count(len(paths))
    keep_param = 'is_keep_sandbox'
    c.require(fd.param(keep_param) is not None, 'C04-a: parameter is_keep_sandbox of partial execute missing')
    seen = set()
    for p in paths:
        lab = labels_of(p)
        c.require(len(lab) == 1, 'C04-a: executor.execute is called %d times on a path' % len(lab))
        keep = None
        has_sds = None
        for test, truth in p.guards:
            t = unparse(test)
            if t == keep_param:
                keep = truth
            elif t.endswith('.has_sds'):
                has_sds = truth
        # --- cwd restoration: after the executor call, on every path
        idx_exec = next(i for i, e in enumerate(p.trace) if e.kind == 'call' and e.data.get('label'))
        restored = False
        for e in p.trace[idx_exec + 1:]:
            if e.kind == 'with-exit':
                v = e.data[0]
                k = util.origin_call_key(v)
                d = ix.try_lookup(k) if k and ':' in k else None
                if isinstance(d, FuncDef) and restores_cwd(ix, d):
                    restored = True
            elif e.kind == 'call' and isinstance(e.data['callee'], External) and e.data['callee'].dotted == 'os.chdir':
                a = e.data['args'][0] if e.data['args'] else None
                if util.origin_call_key(util.root_sym(a)) == 'os.getcwd':
                    # saved before the executor ran?
                    oi = util.root_sym(a).origin[5]
                    if oi is not None and oi < idx_exec:
                        restored = True
        key = 'partial-execute/%s/keep=%s/has_sds=%s' % (lab[0], keep, has_sds)
        seen.add((lab[0], keep))
        c.expect(restored, 'C04-a', key + '/cwd-restored',
                 'the current directory is not restored after the executor has run on this path', fd.loc())
        # --- sandbox removal
        rm = []
        for e in p.calls():
            cd = e.data['callee']
            if isinstance(cd, External) and cd.dotted == 'shutil.rmtree':
                rm.append(e)
        want_rm = lab[0] == 'result' and keep is False and has_sds is True
        if want_rm:
            ok = len(rm) == 1
            if ok:
                a = rm[0].data['args'][0]
                inner_v = a
                if util.origin_call_key(a) == 'builtins.str':
                    inner_v = a.origin[2][0]
                base, chain = util.attr_chain(inner_v)
                ok = getattr(util.root_sym(base), 'label', None) == 'result' and chain == ('sds', 'root_dir')
            c.expect(ok, 'C04-a', key + '/sandbox-removed',
                     'without --keep the sandbox root of the result is not removed (rmtree calls: %d)' % len(rm),
                     fd.loc())
        else:
            ok = not rm
            if lab[0] == 'result' and keep is True:
                c.expect(ok, 'C04-a', key + '/sandbox-kept', 'with --keep the sandbox is removed', fd.loc())
            elif rm:
                c.bad('C04-a', key + '/no-removal', 'rmtree on a path without a sandbox', fd.loc())
    c.require({('result', True), ('result', False), ('raises', True), ('raises', False)} <= seen,
              'C04-a: paths of partial execute not recognised: %s' % sorted(seen, key=str))
    # the Configuration/test case are handed on unchanged
    ok = False
    for call, d in util.calls_in(ix, fd):
        if d == inner and len(call.args) + len(call.keywords) == 2:
            a = util.bound_call_args(inner, call, False) or {}
            tc = a.get('test_case')
            ok = isinstance(tc, ast.Name) and tc.id == 'test_case'
    c.expect(ok, 'C04-a', 'partial-execute/passes-test-case', 'the test case is not handed to the executor', fd.loc())
    # preserved_cwd itself
    pc = ix.func(MISC + ':preserved_cwd')
    c.expect(restores_cwd(ix, pc), 'C04-a', 'preserved_cwd/shape',
             'preserved_cwd does not save os.getcwd() and os.chdir() back in a finally', pc.loc())


# ---------------------------------------------------------------- b
def clause_b(c: Check):
    ix, fo = c.ix, c.fo
    m = get_model(c)
    distinct = {}
    for t in m.traces:
        distinct.setdefault(t.short(), t)
    n = 0
    for t in distinct.values():
        names = [s.name for s in t.steps if s.kind == 'marker']
        if 'SANDBOX' not in names:
            continue
        n += 1
        tid = ','.join(repr(s) for s in t.steps if s.kind == 'step' and s.raised) or 'no-failure'
        c.expect(names.count('SANDBOX') == 1, 'C04-b', 'execute/one-sandbox/' + tid,
                 'the sandbox is constructed %d times' % names.count('SANDBOX'), EXECUTOR_MOD)
        c.expect(t.terminal in ('PASS', 'FAIL'), 'C04-b', 'execute/terminal-carries-sandbox/' + tid,
                 'after the sandbox exists the execution ends with %s %s (the sandbox would not be removed)' % (
                     t.terminal, t.terminal_detail), EXECUTOR_MOD, extra={'trace': t.short()})
    c.floor('C04-b', 'traces with a sandbox', n, 20)
    # the two final-result constructors pass the sandbox
    pe = ix.cls(EXECUTOR_MOD + ':_PartialExecutor')
    per = ix.cls('exactly_lib.execution.partial_execution.result:PartialExeResult')
    sds_attr = None
    cs = ix.func(EXECUTOR_MOD + ':_PartialExecutor._construct_and_set_sds')
    construct_at = ix.func(SDS + ':construct_at')
    for n_ in walk_own(cs.node):
        if isinstance(n_, ast.Assign) and isinstance(n_.value, ast.Call) \
                and ix.callee(cs.module, cs, n_.value) == construct_at and isinstance(n_.targets[0], ast.Attribute):
            sds_attr = n_.targets[0].attr
    c.require(sds_attr is not None, 'C04-b: attribute holding the constructed sandbox not found')
    for name in ('_final_pass_result', '_final_failure_result_from'):
        f = ix.class_member(pe, name)
        ok = False
        for call, d in util.calls_in(ix, f):
            if d == per:
                a = util.ctor_call_args(ix, per, call) or {}
                v = a.get('sds')
                ok = isinstance(v, ast.Attribute) and v.attr == sds_attr and isinstance(v.value, ast.Name) \
                     and v.value.id == f.self_name
        c.expect(ok, 'C04-b', name + '/passes-sandbox',
                 '%s does not put the constructed sandbox into the result (so it would never be removed)' % name,
                 f.loc())
    # ResultBase: has_sds <=> sds given; sds returns it
    it = Interp(ix, fo, _InlineResult())
    objs = it.instantiate(per, State(), {'sds': Sym('SDS', nullness=False), 'status': NONE,
                                         'action_to_check_outcome': NONE, 'failure_info': NONE})
    obj, st = objs[0]
    got = it.get_attr(obj, 'sds', st)
    ok = len(got) == 1 and isinstance(got[0][1], Sym) and util.root_sym(got[0][1]).tag == 'SDS'
    hs = it.get_attr(obj, 'has_sds', st)
    ok2 = len(hs) == 1 and isinstance(hs[0][1], K) and hs[0][1].v is True
    c.expect(ok and ok2, 'C04-b', 'PartialExeResult/sds-accessors',
             'PartialExeResult(sds=X).sds is not X or has_sds is not True', per.loc())
    objs = it.instantiate(per, State(), {'sds': NONE, 'status': NONE, 'action_to_check_outcome': NONE,
                                         'failure_info': NONE})
    obj, st = objs[0]
    hs = it.get_attr(obj, 'has_sds', st)
    c.expect(len(hs) == 1 and isinstance(hs[0][1], K) and hs[0][1].v is False, 'C04-b',
             'PartialExeResult/has_sds-false', 'has_sds is not False without a sandbox', per.loc())


class _InlineResult(Hooks):
    def inline(self, fd, st):
        return fd.module.name in ('exactly_lib.execution.result', 'exactly_lib.execution.partial_execution.result',
                                  'exactly_lib.execution.full_execution.result')


# ---------------------------------------------------------------- c
ALLOWED_CHDIR = {
    MISC + ':preserved_cwd': 'restores the directory saved before the execution',
    EXECUTOR_MOD + ':_PartialExecutor._set_cwd_to_act_dir': 'makes act/ current when the sandbox has been created',
    'exactly_lib.impls.instructions.multi_phase.change_dir:InstructionEmbryo.custom_main':
        'the cd instruction (C11): changes the directory of the test, restored by preserved_cwd',
}


def clause_c(c: Check):
    ix, fo = c.ix, c.fo
    sites = util.references_to(ix, External('os.chdir'), names=['chdir', 'fchdir'])
    sites += util.references_to(ix, External('os.fchdir'), names=['fchdir'])
    n = 0
    for s in sites:
        if isinstance(parent(s.node), (ast.ImportFrom, ast.Import)):
            continue
        n += 1
        where = s.where
        # nested functions count for their outermost method
        f = s.func
        while f is not None and f.parent is not None:
            f = f.parent
        where = f.key if f is not None else where
        if where not in ALLOWED_CHDIR and s.func is not None and isinstance(parent(s.node), ast.Call):
            # a restoring site: os.chdir(<name assigned from os.getcwd() in the same function>)
            call = parent(s.node)
            if len(call.args) == 1 and isinstance(call.args[0], ast.Name):
                b = s.func.local_bindings().get(call.args[0].id, [])
                if len(b) == 1 and b[0][0] == 'assign' and isinstance(b[0][1], ast.Call):
                    d0 = ix.callee(s.module, s.func, b[0][1])
                    if isinstance(d0, External) and d0.dotted == 'os.getcwd':
                        c.ok('C04-c', 'os.chdir@' + where, 'restores a directory saved with os.getcwd()')
                        continue
        c.expect(where in ALLOWED_CHDIR, 'C04-c', 'os.chdir@' + where,
                 'the current directory of the Exactly process is changed in %s, which is not one of the %d '
                 'places that are restored' % (where, len(ALLOWED_CHDIR)), s.loc)
    c.floor('C04-c', 'os.chdir sites', n, 3)
    # SANDBOX is immediately followed by CHDIR(act dir), before any step
    m = get_model(c)
    done = set()
    for t in m.traces:
        if t.short() in done:
            continue
        done.add(t.short())
        for i, s in enumerate(t.steps):
            if s.kind == 'marker' and s.name == 'SANDBOX':
                nxt = t.steps[i + 1] if i + 1 < len(t.steps) else None
                ok = nxt is not None and nxt.kind == 'marker' and nxt.name == 'CHDIR'
                if ok:
                    a = nxt.args[0] if nxt.args else None
                    v = a.origin[2][0] if util.origin_call_key(a) == 'builtins.str' else a
                    base, chain = util.attr_chain(v)
                    ok = chain[-1:] == ('act_dir',) and util.origin_call_key(util.root_sym(base)) == SDS + ':construct_at'
                c.expect(bool(ok), 'C04-c', 'execute/act-dir-current-after-sandbox',
                         'the act/ directory of the new sandbox is not made current directly after the sandbox is '
                         'created (next event: %r)' % nxt, EXECUTOR_MOD, extra={'trace': t.short()})
    # construct_at / construct_at_tmp_root: who may call
    for fn, allowed in ((SDS + ':construct_at', {EXECUTOR_MOD + ':_PartialExecutor._construct_and_set_sds',
                                                 SDS + ':construct_at_tmp_root'}),
                        (SDS + ':construct_at_tmp_root', set())):
        d = ix.func(fn)
        for s in util.references_to(ix, d):
            if isinstance(parent(s.node), (ast.ImportFrom, ast.Import)):
                continue
            c.expect(s.where in allowed, 'C04-c', 'sandbox-construction@' + s.where,
                     'a sandbox is constructed in %s (only the partial executor may)' % s.where, s.loc)


# ---------------------------------------------------------------- d
def clause_d(c: Check):
    ix = c.ix
    n_refs = 0
    import re
    imports_os = re.compile(r'^\s*(import\s+(os|posix)\b|from\s+(os|posix)\s+import)', re.M)
    for name in ix.all_module_names():
        t = ix.text(name)
        if not (('environ' in t or 'putenv' in t or 'unsetenv' in t) and imports_os.search(t)):
            continue
        m = ix.module(name)
        probs = effects.environ_problems(ix, m)
        for node, msg in probs:
            f = m.enclosing_func(node)
            where = f.key if f is not None else m.name
            c.bad('C04-d', 'os.environ@' + where, msg, '%s:%d' % (m.relpath, node.lineno))
        for n in ast.walk(m.tree):
            if isinstance(n, ast.Attribute) and n.attr == 'environ':
                d = ix.resolve_static(m, m.enclosing_func(n), n)
                if isinstance(d, External) and d.dotted == 'os.environ':
                    n_refs += 1
                    if not any(x is n or x is parent(n) for x, _ in probs):
                        f = m.enclosing_func(n)
                        c.ok('C04-d', 'os.environ@' + (f.key if f else m.name), 'read/copied on the spot')
    c.floor('C04-d', 'references to os.environ', n_refs, 1)
    # positive control: the rule must fire on the fixture
    fx = Index(os.path.join(VERIF_ROOT, 'fixtures', 'env_escape'))
    fm = fx.module('exactly_lib.fixture_env')
    got = effects.environ_problems(fx, fm)
    want = sum(1 for line in fm.src.splitlines() if '# EXPECT' in line)
    if len(got) != want or want < 5:
        raise AnalysisError('C04-d: positive control failed: rule reports %d of %d seeded escapes in the fixture'
                            % (len(got), want))
    c.ok('C04-d', 'positive-control/fixture', '%d seeded escapes reported' % want)
    environ_getter_is_fresh(c, 'C04-d')


def environ_getter_is_fresh(c: Check, rule: str):
    """the default environment getter returns a fresh copy on every call (both env sets are populated from it:
    a shared or live mapping would couple the act set, the non-act set and the process environment)"""
    ix = c.ix
    g = ix.func('exactly_lib.execution.predefined_properties:os_environ_getter')
    from ..fold import single_return_expr
    r = single_return_expr(g)
    ok = isinstance(r, ast.Call) and isinstance(ix.callee(g.module, g, r), External) \
         and ix.callee(g.module, g, r).dotted == 'builtins.dict' and len(r.args) == 1 \
         and dotted_name(r.args[0]) == 'os.environ'
    c.expect(ok and not g.decorators, rule, 'os_environ_getter/fresh-copy',
             'os_environ_getter does not return a fresh dict(os.environ) on every call (decorators: %s)' % g.decorators,
             g.loc())
    # and it is the getter the main program configures
    v = c.fo.fold_path('exactly_lib.definitions.os_proc_env:ENV_VARS_GETTER__DEFAULT')
    c.expect(isinstance(v, Ref) and v.d == g, rule, 'ENV_VARS_GETTER__DEFAULT',
             'the default environment getter is %r' % (v,), 'src/exactly_lib/definitions/os_proc_env.py')
    # every construction of the predefined properties is given a getter that returns a fresh mapping per call
    pp = ix.cls('exactly_lib.execution.configuration:PredefinedProperties')
    sites = util.call_sites_of(ix, pp)
    for s in sites:
        b = util.ctor_call_args(ix, pp, s.node) or {}
        a = b.get('default_environ_getter')
        if a is None:
            continue   # the default of the parameter
        m = ix.module(s.where.split(':')[0])
        f = ix.try_lookup(s.where)
        gv = c.fo.fold(m, f if isinstance(f, FuncDef) else None, a)
        fresh = isinstance(gv, Ref) and isinstance(gv.d, FuncDef) and _returns_fresh_mapping(ix, gv.d)
        c.expect(fresh, rule, 'PredefinedProperties/default_environ_getter@' + s.where,
                 'the environment getter configured here (%s) does not return a fresh dict on every call: the act set, the '
                 'non-act set and later cases would share one mapping' % unparse(a), s.loc)
    c.floor(rule, 'constructions of PredefinedProperties', len(sites), 1)


def _returns_fresh_mapping(ix: Index, fd: FuncDef) -> bool:
    from ..fold import single_return_expr
    if fd.decorators:
        return False
    r = single_return_expr(fd)
    if isinstance(r, (ast.DictComp, ast.Dict)):
        return True
    if isinstance(r, ast.Call):
        d = ix.callee(fd.module, fd, r)
        if isinstance(d, External) and d.dotted == 'builtins.dict':
            return True
        if isinstance(r.func, ast.Attribute) and r.func.attr == 'copy' and not r.args:
            return dotted_name(r.func.value) != 'os.environ'   # os.environ.copy() is a dict: fine too
    return False


# ---------------------------------------------------------------- e
def _is_map_optional_dict(ix: Index, m, f, node) -> bool:
    if not isinstance(node, ast.Call):
        return False
    d = ix.callee(m, f, node)
    if isinstance(d, FuncDef) and d.key == 'exactly_lib.util.functional:map_optional' and len(node.args) == 2:
        a0 = ix.resolve_static(m, f, node.args[0])
        return isinstance(a0, External) and a0.dotted == 'builtins.dict'
    if isinstance(d, External) and d.dotted == 'builtins.dict' and len(node.args) == 1:
        return True
    return False


def clause_e(c: Check):
    ix = c.ix
    init = ix.func(EXECUTOR_MOD + ':_PartialExecutor.__init__')
    iset = ix.cls('exactly_lib.test_case.phases.instruction_settings:InstructionSettings')
    n = 0
    for call, d in util.calls_in(ix, init):
        if d == iset:
            n += 1
            a = util.ctor_call_args(ix, iset, call) or {}
            env = a.get('environ')
            c.expect(_is_map_optional_dict(ix, init.module, init, env), 'C04-e', 'InstructionSettings/environ-copied',
                     'the instruction settings get %s, not a copy of the configured environment' % (
                         unparse(env) if env is not None else None), init.loc())
        elif isinstance(call.func, ast.Attribute) and call.func.attr == 'mk_setup_settings_handler':
            n += 1
            env = call.args[0] if call.args else None
            c.expect(_is_map_optional_dict(ix, init.module, init, env), 'C04-e', 'setup-settings/environ-copied',
                     'the setup settings get %s, not a copy of the configured environment' % (
                         unparse(env) if env is not None else None), init.loc())
    c.floor('C04-e', 'environment hand-over sites in _PartialExecutor.__init__', n, 2)
    ro = ix.func(EXECUTOR_MOD + ':_PartialExecutor._env_vars__read_only')
    paths = util.func_paths(ix, c.fo, ro, Hooks())
    for p in paths:
        v = p.val if p.kind == 'return' else None
        if isinstance(v, K) and v.v is None:
            continue
        k = util.origin_call_key(v)
        c.expect(k == 'types.MappingProxyType', 'C04-e', '_env_vars__read_only/proxy',
                 'instructions get the environment as %s, not as a read-only proxy' % util.describe(v), ro.loc())
    # InstructionSettings.environ() hands out its own dict, environ population uses the getter
    # (decided under C11-c)


# ---------------------------------------------------------------- f
def clause_f(c: Check):
    ix, fo = c.ix, c.fo
    dirs = fo.fold_path(SDS + ':DIRECTORIES')
    var = ix.var(SDS + ':DIRECTORIES')

    def tree(d):
        if not isinstance(d, Record):
            return '?'
        name = fo.record_attr(d, 'name')
        subs = fo.record_attr(d, 'sub_dirs')
        return (name, tuple(sorted(tree(s) for s in subs)) if isinstance(subs, (list, tuple)) else '?')

    got = sorted(tree(d) for d in dirs) if isinstance(dirs, list) else None
    want = sorted([('act', ()), ('tmp', ()), ('result', ()), ('internal', (('log', ()), ('tmp', ())))])
    c.expect(got == want, 'C04-f', 'DIRECTORIES', 'sandbox layout is %s (documented: act/, tmp/, result/, internal/)' % (
        got,), var.loc(), detail=str(got))
    c.sample({'DIRECTORIES': str(got)})
    rf = fo.fold_path(SDS + ':RESULT_FILE_ALL')
    c.expect(isinstance(rf, tuple) and sorted(rf) == ['exit-code', 'stderr', 'stdout'], 'C04-f', 'RESULT_FILE_ALL',
             'result files are %r (documented: stdout, stderr, exit-code)' % (rf,), SDS)
    # SandboxDs accessors point into the layout
    sdscls = ix.cls(SDS + ':SandboxDs')
    rec = Record(sdscls, {'dir_name': 'ROOT'})
    expect = {'act_dir': 'ROOT/act', 'user_tmp_dir': 'ROOT/tmp', 'result_dir': 'ROOT/result',
              'internal_tmp_dir': 'ROOT/internal/tmp', 'log_dir': 'ROOT/internal/log', 'root_dir': 'ROOT'}
    for attr, want_p in expect.items():
        v = fo.record_attr(rec, attr)
        c.expect(isinstance(v, PathVal) and str(v) == want_p, 'C04-f', 'SandboxDs.' + attr,
                 'SandboxDs(ROOT).%s is %s (expected %s)' % (attr, v, want_p), sdscls.loc())
    res = fo.record_attr(rec, 'result')
    for attr, want_p in (('stdout_file', 'ROOT/result/stdout'), ('stderr_file', 'ROOT/result/stderr'),
                         ('exitcode_file', 'ROOT/result/exit-code')):
        v = fo.attr_of_value(res, attr)
        c.expect(isinstance(v, PathVal) and str(v) == want_p, 'C04-f', 'SandboxDs.result.' + attr,
                 'result.%s is %s (expected %s)' % (attr, v, want_p), sdscls.loc())
    # construct_at makes every directory of DIRECTORIES under the given root and returns SandboxDs of that root
    ca = ix.func(SDS + ':construct_at')
    loops = [n for n in walk_own(ca.node) if isinstance(n, ast.For)]
    ok = len(loops) == 1 and isinstance(loops[0].iter, ast.Name) and loops[0].iter.id == 'DIRECTORIES' and any(
        isinstance(n, ast.Call) and isinstance(n.func, ast.Attribute) and n.func.attr == 'mk_dirs'
        for n in ast.walk(loops[0]))
    rets = util.returned_values(ca)
    ok = ok and len(rets) == 1 and isinstance(rets[0], ast.Call) and ix.callee(ca.module, ca, rets[0]) == sdscls \
         and isinstance(rets[0].args[0], ast.Name) and rets[0].args[0].id == ca.positional_params()[0].arg
    c.expect(ok, 'C04-f', 'construct_at', 'construct_at does not create DIRECTORIES under the root it returns', ca.loc())
    # the act executor writes exactly the three result files, through the read-only-on-close opener
    atc = ix.cls(ATC + ':ActionToCheckExecutor')
    opener = ix.func(MISC + ':open_and_make_read_only_on_close__text')
    written = []
    for meth in atc.methods.values():
        for n in ast.walk(meth.node):
            if isinstance(n, ast.Call):
                f = meth.module.enclosing_func(n) or meth
                d = ix.callee(meth.module, f, n)
                if d == opener:
                    a = n.args[0] if n.args else None
                    written.append(a.attr if isinstance(a, ast.Attribute) else unparse(a))
                    mode = fo.fold(meth.module, f, n.args[1]) if len(n.args) > 1 else None
                    c.expect(mode == 'w', 'C04-f', 'ActionToCheckExecutor/open-mode/' + written[-1],
                             'result file opened with mode %r' % (mode,), meth.loc())
                    chain = unparse(a)
                    c.expect('.result.' in chain, 'C04-f', 'ActionToCheckExecutor/writes/' + written[-1],
                             'the act executor writes %s (not under result/)' % chain, meth.loc())
        for node, what in effects.direct_effects(ix, meth):
            c.bad('C04-f', 'ActionToCheckExecutor/other-write/' + meth.name,
                  'the act executor has a file-system effect besides the result files: %s' % what,
                  '%s:%d' % (meth.module.relpath, node.lineno))
    c.expect(sorted(written) == ['exitcode_file', 'stderr_file', 'stdout_file'], 'C04-f',
             'ActionToCheckExecutor/result-files', 'result files written: %s' % sorted(written), atc.loc())


# ---------------------------------------------------------------- g
ALLOWED_USER_TMP = {
    'exactly_lib.tcfs.relativity_root': 'relativity table: resolver of -rel-tmp',
    'exactly_lib.tcfs.tcds_symbols': 'environment variable / symbol naming the directory',
    'exactly_lib.tcfs.sds': 'the definition and the all_*_dirs listings',
}


def clause_g(c: Check):
    ix = c.ix
    sdscls = ix.cls(SDS + ':SandboxDs')
    prop = ix.class_member(sdscls, 'user_tmp_dir')
    c.require(isinstance(prop, FuncDef), 'C04-g: SandboxDs.user_tmp_dir missing')
    n = 0
    for m in ix.modules_mentioning('user_tmp_dir'):
        for node in ast.walk(m.tree):
            if isinstance(node, ast.Attribute) and node.attr == 'user_tmp_dir':
                n += 1
                f = m.enclosing_func(node)
                where = f.key if f else m.name
                c.expect(m.name in ALLOWED_USER_TMP, 'C04-g', 'user_tmp_dir@' + where,
                         'Exactly itself refers to the tmp/ directory of the sandbox in %s' % where,
                         '%s:%d' % (m.relpath, node.lineno))
    c.floor('C04-g', 'references to user_tmp_dir', n, 3)
    # all_*_dirs listings: consumers must not write there. The listings are used only by the sandbox help/tests;
    # internal temporary files are rooted at internal_tmp_dir
    ex = ix.func(EXECUTOR_MOD + ':_PartialExecutor._setup_post_sds_environment')
    ok = False
    for call, d in util.calls_in(ix, ex):
        if isinstance(d, ClassDef) and d.name == 'PhaseTmpFileSpaceFactory' and call.args:
            a = call.args[0]
            ok = isinstance(a, ast.Attribute) and a.attr == 'internal_tmp_dir'
    c.expect(ok, 'C04-g', 'PhaseTmpFileSpaceFactory/root', 'internal temporary files are not rooted at internal/tmp',
             ex.loc())
    for s in util.references_to(ix, ix.func(SDS + ':stdin_contents_file')):
        pass
    sc = ix.func(SDS + ':stdin_contents_file')
    from ..fold import single_return_expr
    r = single_return_expr(sc)
    ok = isinstance(r, ast.BinOp) and isinstance(r.left, ast.Attribute) and r.left.attr == 'internal_tmp_dir'
    c.expect(ok, 'C04-g', 'stdin_contents_file', 'the stdin contents file is not under internal/tmp', sc.loc())


# ---------------------------------------------------------------- h
def clause_h(c: Check):
    ix, fo = c.ix, c.fo
    # standalone: Processor._processor passes result_reporter.depends_on_result_in_sandbox() as is_keep_sandbox
    sp = 'exactly_lib.processing.standalone.processor'
    pr = ix.func(sp + ':Processor._processor')
    ex = ix.func(sp + ':Processor._executor')
    ok = False
    for call, d in util.calls_in(ix, pr):
        if d == ex:
            a = util.bound_call_args(ex, call, True) or {}
            v = a.get('is_keep_sandbox')
            ok = isinstance(v, ast.Call) and isinstance(v.func, ast.Attribute) \
                 and v.func.attr == 'depends_on_result_in_sandbox'
    c.expect(ok, 'C04-h', 'standalone/is_keep_sandbox-origin',
             'is_keep_sandbox of a standalone run is not result_reporter.depends_on_result_in_sandbox()', pr.loc())
    # chain of hand-overs by parameter name
    P = 'exactly_lib.processing.processors'
    chain = [
        (ex, ix.func(P + ':new_executor_that_may_pollute_current_processes2'), False),
        (ix.func(P + ':new_executor_that_may_pollute_current_processes2'), ix.cls(P + ':_Executor'), True),
        (ix.func(P + ':new_executor_that_may_pollute_current_processes'),
         ix.func(P + ':new_executor_that_may_pollute_current_processes2'), False),
    ]
    for caller, callee, is_cls in chain:
        ok = False
        for call, d in util.calls_in(ix, caller):
            if d == callee:
                a = (util.ctor_call_args(ix, callee, call) if is_cls else util.bound_call_args(callee, call, False)) or {}
                v = a.get('is_keep_sandbox')
                ok = v is not None and (unparse(v).split('.')[-1] == 'is_keep_sandbox')
        c.expect(ok, 'C04-h', 'hand-over/%s->%s' % (caller.name, callee.key.split(':')[-1]),
                 'is_keep_sandbox is not handed on unchanged', caller.loc())
    # _Executor.apply -> full execute -> partial execute
    ap = ix.func(P + ':_Executor.apply')
    full = ix.func('exactly_lib.execution.full_execution.execution:execute')
    part = ix.func(PE + ':execute')
    init = ix.func(P + ':_Executor.__init__')
    stored = None
    for meth, v, st in ix.self_attr_assignments(ix.cls(P + ':_Executor'), '_is_keep_sandbox'):
        if isinstance(v, ast.Name):
            stored = v.id
    for caller, callee, want in ((ap, full, '_is_keep_sandbox'), (full, part, 'is_keep_sandbox')):
        ok = False
        for call, d in util.calls_in(ix, caller):
            if d == callee:
                a = util.bound_call_args(callee, call, False) or {}
                v = a.get('is_keep_sandbox')
                ok = v is not None and unparse(v).split('.')[-1] == want
        c.expect(ok, 'C04-h', 'hand-over/%s->%s' % (caller.key.split(':')[-1], callee.key.split(':')[-1]),
                 'is_keep_sandbox is not handed on unchanged', caller.loc())
    c.expect(stored == 'is_keep_sandbox', 'C04-h', '_Executor/stores-flag',
             '_Executor stores %r as its keep-sandbox flag' % stored, init.loc())
    # suite runs never keep the sandbox
    mp = ix.func('exactly_lib.cli.main_program:MainProgram.execute_test_suite')
    conf = ix.cls(P + ':Configuration')
    ok = False
    for call, d in util.calls_in(ix, mp):
        if d == conf:
            a = util.ctor_call_args(ix, conf, call) or {}
            v = a.get('is_keep_sandbox')
            ok = isinstance(v, ast.Constant) and v.value is False
    c.expect(ok, 'C04-h', 'suite/is_keep_sandbox-false', 'a suite run may keep sandboxes', mp.loc())
