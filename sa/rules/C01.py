"""C01 Phased execution protocol (DESIGN.md section 5, clauses a-i)."""
import ast
from typing import List, Optional

from ..core import FuncDef, ClassDef, External, AnalysisError, unparse, walk_own, dotted_name
from ..fold import Record, EnumMember, Ref, is_unknown
from ..absint import Interp, Hooks, K, Sym, Exc, FuncVal, BoundMethod, Obj, NONE
from ..report import Check
from .. import util
from .executor_model import (ExecutorModel, Trace, Step, EXECUTOR_MOD, PSE_MOD, SYMVAL_MOD, _step_of_value)
from .common import ForkHooks, labels_of, check_record, expect_enum_value_agreement, run_factory

PS = 'exactly_lib.execution.phase_step'
SIE = 'exactly_lib.execution.impl.single_instruction_executor'
PSX = 'exactly_lib.execution.impl.phase_step_executors'

PHASES = ['SETUP', 'ACT', 'BEFORE_ASSERT', 'ASSERT', 'CLEANUP']
PHASE_ORD = {p: i for i, p in enumerate(PHASES)}

_model_cache = {}


def get_model(c: Check) -> ExecutorModel:
    k = id(c.ix)
    if k not in _model_cache:
        _model_cache[k] = ExecutorModel(c.ix, c.fo)
    return _model_cache[k]


def step_kinds(c: Check):
    """step-kind constants of phase_step.py (names are anchors; values may change freely)"""
    f = lambda n: c.fo.fold_path(PS + ':' + n)
    kinds = {
        'PARSE': f('STEP__ACT__PARSE'), 'SYMBOLS': f('STEP__VALIDATE_SYMBOLS'), 'PRE_SDS': f('STEP__VALIDATE_PRE_SDS'),
        'POST_SETUP': f('STEP__VALIDATE_POST_SETUP'), 'EXE_INPUT': f('STEP__ACT__VALIDATE_EXE_INPUT'),
        'PREPARE': f('STEP__ACT__PREPARE'), 'EXECUTE': f('STEP__ACT__EXECUTE'), 'MAIN': f('STEP__MAIN'),
    }
    for k, v in kinds.items():
        c.require(isinstance(v, str), 'C01: step kind constant %s does not fold to a string' % k)
    c.require(len(set(kinds.values())) == len(kinds), 'C01: step kind constants are not distinct')
    return {v: k for k, v in kinds.items()}


def rank(kind: str, phase: str) -> tuple:
    order = {'PARSE': 0, 'SYMBOLS': 1, 'PRE_SDS': 2, 'SANDBOX': 3, 'CHDIR': 4}
    if kind in order:
        return (order[kind], PHASE_ORD.get(phase, 0))
    if kind == 'MAIN':
        return {'SETUP': (5, 0), 'BEFORE_ASSERT': (10, 0), 'ASSERT': (11, 0), 'CLEANUP': (12, 0)}[phase]
    if kind == 'POST_SETUP':
        return (6, PHASE_ORD[phase])
    return {'EXE_INPUT': (7, 0), 'PREPARE': (8, 0), 'EXECUTE': (9, 0)}[kind]


def expected_steps(c: Check, kind_of):
    """the set of steps the property statement requires on a complete run, as (phase, kind)"""
    exp = set()
    for p in ('SETUP', 'BEFORE_ASSERT', 'ASSERT', 'CLEANUP'):
        exp.add((p, 'SYMBOLS'))
        exp.add((p, 'PRE_SDS'))
        exp.add((p, 'MAIN'))
    for p in ('SETUP', 'BEFORE_ASSERT', 'ASSERT'):
        exp.add((p, 'POST_SETUP'))
    for k in ('PARSE', 'SYMBOLS', 'PRE_SDS', 'POST_SETUP', 'EXE_INPUT', 'PREPARE', 'EXECUTE'):
        exp.add(('ACT', k))
    return exp


def check(c: Check):
    c.explanation = (
        'Typestate/path analysis of the partial executor: every event trace of _PartialExecutor.execute '
        '(calls inlined inside the executor, SymbolsValidator and ActHelper; every phase step is a may-raise point) is '
        'enumerated and checked for order, halt-at-first-failure, exactly-one cleanup, previous-phase argument and '
        'terminal; plus fold/handler/decision-table analyses of the step runners and plumbing checks of every step '
        'site. Decides the structural clauses a-i of DESIGN.md C01, each a necessary condition; does not decide what '
        'an individual instruction does.')
    c.trusted_base = ['CPython ast', '/verif/sa engine (resolver, folder, path interpreter)',
                      'closed world: src/exactly_lib']
    c.assumptions = ['instructions and actors signal failure only through their return value or an exception',
                     'phase-step wrappers raise only PhaseStepFailureException (checked by clause g)']
    kind_of = step_kinds(c)
    m = get_model(c)
    distinct = {}
    for t in m.traces:
        distinct.setdefault((t.short(), _asks_for_action_only(t)), t)
    traces = list(distinct.values())
    c.count(len(m.traces))
    c.floor('C01-TS', 'distinct event traces of _PartialExecutor.execute', len(traces), 30)
    c.sample({'trace': traces[-1].short()})
    c.sample({'trace': traces[0].short()})

    def sk(s: Step):
        k = kind_of.get(s.step)
        if k is None:
            raise AnalysisError('C01: unknown step kind %r' % s.step)
        return k

    clause_a(c, traces, sk, kind_of)
    clause_bcde(c, traces, sk)
    clause_f(c)
    clause_g(c)
    clause_h(c, traces, sk)
    clause_i(c)
    clause_e_full(c)
    clause_j(c)
    clause_k(c)
    from .common import sweep_records
    sweep_records(c, 'C01-rec', ['exactly_lib.execution'], floor=15)


def clause_e_full(c: Check):
    """a failing step is never turned into a success (and keeps its kind) by the status translation"""
    ix, fo = c.ix, c.fo
    FRm = 'exactly_lib.execution.full_execution.result'
    f = ix.func(FRm + ':translate_status')
    tcs = fo.enum_members(ix.cls('exactly_lib.test_case.test_case_status:TestCaseStatus'))
    efs = fo.enum_members(ix.cls('exactly_lib.execution.result:ExecutionFailureStatus'))
    pn = [p.arg for p in f.positional_params()]
    n = 0
    for sname, sm in sorted(tcs.items()):
        if sname == 'SKIP':
            continue
        for oname, om in sorted(efs.items()):
            outs = set()
            for p in util.func_paths(ix, fo, f, Hooks(), args={pn[0]: K(sm), pn[1]: K(om)}):
                outs.add(p.val.v.name if p.kind == 'return' and isinstance(p.val, K)
                                         and isinstance(p.val.v, EnumMember) else '?')
            n += 1
            allowed = {oname} if oname != 'FAIL' else {'FAIL', 'XFAIL'}
            c.expect(outs <= allowed and outs, 'C01-e', 'translate_status/%s/%s' % (sname, oname),
                     'a step failure of kind %s under status %s is reported as %s' % (oname, sname, sorted(outs)),
                     f.loc())
    c.floor('C01-e', 'status x failure kind', n, 10)


# ---------------------------------------------------------------- a
def clause_a(c: Check, traces: List[Trace], sk, kind_of):
    full = [t for t in traces if t.terminal == 'PASS' and t.first_raised() is None]
    c.require(full, 'C01-a: no all-success trace found')
    exp = expected_steps(c, kind_of)
    complete = []
    n_act_only = 0
    for t in full:
        got = {(s.phase, sk(s)) for s in t.steps if s.kind == 'step'}
        # the only mode in which a run without failure stops after the action: the configuration asks for the output
        # of the action to check (exe_atc_and_skip_assertions is given) - decided by the guards of the path, not by
        # the shape of the trace
        if _asks_for_action_only(t):
            n_act_only += 1
            continue
        complete.append((t, got))
    c.require(complete, 'C01-a: no complete (non --act) success trace found')
    c.require(n_act_only >= 1, 'C01-a: no success trace of the mode that runs the action only (--act) found')
    for t, got in complete:
        missing = sorted(exp - got)
        extra = sorted(got - exp)
        c.expect(not missing and not extra, 'C01-a', 'execute/complete-run/steps',
                 'complete run: steps missing %s, unexpected %s' % (missing, extra),
                 loc=EXECUTOR_MOD, detail='%d steps' % len(got), extra={'trace': t.short()})
    # order on every trace
    for t in traces:
        prev = None
        bad = None
        seen = set()
        for s in t.steps:
            if s.kind == 'step':
                k = sk(s)
                r = rank(k, s.phase)
                name = '%s/%s' % (s.phase, k)
            elif s.kind == 'marker' and s.name in ('SANDBOX', 'CHDIR'):
                r = rank(s.name, '')
                name = s.name
            else:
                continue
            if name in seen and name != 'CLEANUP/MAIN':
                bad = 'step %s occurs twice' % name
                break
            seen.add(name)
            if prev is not None and not (prev[0] < r):
                bad = '%s occurs after %s' % (name, prev[1])
                break
            prev = (r, name)
        c.expect(bad is None, 'C01-a', 'execute/order/' + _trace_id(t), 'step order violated: %s' % bad,
                 loc=EXECUTOR_MOD, extra={'trace': t.short()})


def _asks_for_action_only(t: Trace) -> bool:
    """the path took `exe_atc_and_skip_assertions` to be given (not None)"""
    for test, truth in t.path.guards:
        txt = unparse(test)
        if 'exe_atc_and_skip_assertions' not in txt:
            continue
        positive = True
        node = test
        while isinstance(node, ast.UnaryOp) and isinstance(node.op, ast.Not):
            positive = not positive
            node = node.operand
        if isinstance(node, ast.Compare) and len(node.ops) == 1 and unparse(node.comparators[0]) == 'None':
            if isinstance(node.ops[0], (ast.Is, ast.Eq)):
                positive = not positive
        if truth == positive:
            return True
    return False


def _trace_id(t: Trace) -> str:
    fr = t.first_raised()
    raised = [repr(s) for s in t.steps if s.kind == 'step' and s.raised]
    mode = ''
    if t.terminal == 'PASS' and not any(s.kind == 'step' and s.phase == 'ASSERT' and '9' in s.step for s in t.steps):
        mode = 'act-only'
    return (','.join(raised) or 'no-failure') + (':' + mode if mode else '')


# ---------------------------------------------------------------- b c d e
def clause_bcde(c: Check, traces: List[Trace], sk):
    for t in traces:
        tid = _trace_id(t)
        steps = [s for s in t.steps if s.kind == 'step']
        has_sandbox = any(s.kind == 'marker' and s.name == 'SANDBOX' for s in t.steps)
        # b: halt
        fr = t.first_raised()
        if fr is not None:
            i = steps.index(fr)
            after = [s for s in steps[i + 1:] if not (s.phase == 'CLEANUP' and sk(s) == 'MAIN')]
            c.expect(not after, 'C01-b', 'execute/halt/' + tid,
                     'after the failing step %r further steps are run: %s' % (fr, after), EXECUTOR_MOD,
                     extra={'trace': t.short()})
        # c: cleanup exactly once iff sandbox
        n_cleanup = sum(1 for s in steps if s.phase == 'CLEANUP' and sk(s) == 'MAIN')
        want = 1 if has_sandbox else 0
        c.expect(n_cleanup == want, 'C01-c', 'execute/cleanup-once/' + tid,
                 'cleanup main step runs %d times (expected %d, sandbox %s)' % (
                     n_cleanup, want, 'exists' if has_sandbox else 'does not exist'), EXECUTOR_MOD,
                 extra={'trace': t.short()})
        # markers: no use of an object that is still None
        nd = [s for s in t.steps if s.kind == 'marker' and s.name.startswith('NONE-DEREF')]
        c.expect(not nd, 'C01-a', 'execute/uninitialised/' + tid,
                 'an attribute of a value that is None on this path is used: %s' % nd, EXECUTOR_MOD,
                 extra={'trace': t.short()})
        # d: previous phase
        for s in steps:
            if s.phase == 'CLEANUP' and sk(s) == 'MAIN':
                pp = _previous_phase_arg(s)
                idx = t.steps.index(s)
                expected = 'SETUP'
                for q in t.steps[:idx]:
                    if q.kind != 'step':
                        continue
                    k = sk(q)
                    if (q.phase, k) == ('ACT', 'EXECUTE'):
                        expected = 'ACT'
                    elif (q.phase, k) == ('BEFORE_ASSERT', 'MAIN'):
                        expected = 'BEFORE_ASSERT'
                    elif (q.phase, k) == ('ASSERT', 'MAIN'):
                        expected = 'ASSERT'
                c.expect(pp == expected, 'C01-d', 'execute/previous-phase/' + tid,
                         'cleanup is told previous phase %s but the last phase begun is %s' % (pp, expected),
                         EXECUTOR_MOD, extra={'trace': t.short()})
        # e: terminal
        if t.terminal == 'ESCAPE':
            c.bad('C01-e', 'execute/terminal/' + tid, 'exception %s escapes execute()' % t.terminal_detail,
                  EXECUTOR_MOD, {'trace': t.short()})
        elif t.terminal == 'OTHER':
            c.bad('C01-e', 'execute/terminal/' + tid,
                  'result is not built by the final-result constructors: %s' % t.terminal_detail, EXECUTOR_MOD,
                  {'trace': t.short()})
        elif fr is None:
            c.expect(t.terminal == 'PASS', 'C01-e', 'execute/terminal/' + tid,
                     'no step failed but the result is %s' % t.terminal, EXECUTOR_MOD, extra={'trace': t.short()})
        else:
            if t.terminal == 'PASS':
                c.bad('C01-e', 'execute/terminal/' + tid, 'step %r failed but the result is a success' % fr,
                      EXECUTOR_MOD, {'trace': t.short()})
            else:
                org = t.terminal_detail
                ok = org is fr or (isinstance(org, Step) and org.raised and org.phase == 'CLEANUP' and sk(org) == 'MAIN')
                c.expect(ok, 'C01-e', 'execute/terminal/' + tid,
                         'result names %r; earliest failing step is %r' % (org, fr), EXECUTOR_MOD,
                         extra={'trace': t.short()})
                # an error dominates a failed assertion: the failure of [assert] may be the verdict FAIL (not an
                # error); when a later step (cleanup) fails too, that error must be what is reported ("an error
                # ... will be reported as an error, and not as a failed test")
                later = [s for s in t.steps[t.steps.index(fr) + 1:] if s.kind == 'step' and s.raised]
                if fr.phase == 'ASSERT' and sk(fr) == 'MAIN' and later:
                    c.expect(org is later[0], 'C01-e', 'execute/error-dominates-failed-assertion/' + tid,
                             'the assertion failed and then %r failed with an error, but the result names %r: the test '
                             'is reported as a failed test although its execution was interrupted by an error' % (
                                 later[0], org), EXECUTOR_MOD, extra={'trace': t.short()})
    # e/nonnull: the model assumes PhaseStepFailureException always carries a failure
    ix = c.ix
    psfe = ix.cls('exactly_lib.execution.result:PhaseStepFailureException')
    sites = util.call_sites_of(ix, psfe)
    c.floor('C01-e', 'constructions of PhaseStepFailureException', len(sites), 8)
    for s in sites:
        call = s.node
        ok = False
        why = ''
        if len(call.args) == 1:
            a = call.args[0]
            if isinstance(a, ast.Call):
                ok = True  # result of a constructor/factory call
                d = ix.callee(s.module, s.func, a)
                if isinstance(d, FuncDef) and d.node.returns is not None and 'Optional' in unparse(d.node.returns):
                    ok, why = False, 'argument is the result of %s which may return None' % d.key
            elif isinstance(a, ast.Name):
                # must be guarded by `a is not None`
                for anc in util.ancestors(call):
                    if isinstance(anc, ast.If) and _tests_not_none(anc.test, a.id) and _in_body(anc, call):
                        ok = True
                why = 'argument %s is not guarded by an is-not-None test' % a.id
            else:
                why = 'argument %s not understood' % unparse(a)
        c.expect(ok, 'C01-e', 'nonnull/%s@%s' % (s.where, unparse(call.args[0]) if call.args else ''),
                 'PhaseStepFailureException may be constructed without a failure: ' + why, s.loc)


def _tests_not_none(test, name) -> bool:
    if isinstance(test, ast.Compare) and len(test.ops) == 1 and isinstance(test.ops[0], ast.IsNot) \
            and isinstance(test.left, ast.Name) and test.left.id == name \
            and isinstance(test.comparators[0], ast.Constant) and test.comparators[0].value is None:
        return True
    if isinstance(test, ast.Name) and test.id == name:
        return True
    return False


def _in_body(if_node, node) -> bool:
    for s in if_node.body:
        for n in ast.walk(s):
            if n is node:
                return True
    return False


def _previous_phase_arg(s: Step) -> Optional[str]:
    ex = s.args[1] if len(s.args) > 1 else None
    if isinstance(ex, Sym) and ex.origin and ex.origin[0] == 'call':
        vals = list(ex.origin[2]) + list(ex.origin[3].values())
        found = [v.v.name for v in vals if isinstance(v, K) and isinstance(v.v, EnumMember)
                 and v.v.cls.name == 'PreviousPhase']
        if len(found) == 1:
            return found[0]
    return None


# ---------------------------------------------------------------- f
def clause_f(c: Check):
    """instruction order and halt inside a step: execute_phase_prim"""
    ix, fo = c.ix, c.fo
    fd = ix.func(PSE_MOD + ':execute_phase_prim')
    ee = ix.func(SIE + ':execute_element')
    hooks = ForkHooks(ix, loop_bound=2)
    hooks.fork_on(lambda d, n, cv: d == ee, [
        ('ok', lambda: NONE),
        ('fail', lambda: Sym('failure_info', nullness=False, origin=('exec-failure',))),
    ])
    paths = util.func_paths(ix, fo, fd, hooks)
    c.count(len(paths))
    # iteration source: phase_contents.elements, undecorated
    loops = [n for n in walk_own(fd.node) if isinstance(n, ast.For)]
    c.require(len(loops) >= 1, 'C01-f: execute_phase_prim has no loop')
    seq_param = fd.positional_params()[0].arg
    main_loop = None
    for lp in loops:
        if any(isinstance(n, ast.Call) and ix.callee(fd.module, fd, n) == ee for n in ast.walk(lp)):
            main_loop = lp
    c.require(main_loop is not None, 'C01-f: no loop calls execute_element')
    it = main_loop.iter
    direct = isinstance(it, ast.Attribute) and isinstance(it.value, ast.Name) and it.value.id == seq_param \
             and it.attr == 'elements'
    c.expect(direct, 'C01-f', 'execute_phase_prim/iterates-elements-in-order',
             'the loop iterates %s, not the phase contents\' elements in their own order' % unparse(it),
             fd.loc())
    n_exec = 0
    for p in paths:
        labs = labels_of(p)
        n_exec += len(labs)
        key = 'execute_phase_prim/path/' + ('-'.join(labs) or 'empty')
        if 'fail' in labs:
            i = labs.index('fail')
            ok_halt = len(labs) == i + 1
            ret = p.val if p.kind == 'return' else None
            con = util.constructed(ix, ret)
            is_failure = con is not None and con[0].endswith(':Failure')
            from_this = False
            if con is not None:
                for a in con[3].values():
                    base, chain = util.attr_chain(a)
                    if isinstance(base, Sym) and getattr(util.root_sym(base), 'label', None) == 'fail':
                        from_this = True
            c.expect(ok_halt and p.kind == 'return' and is_failure and from_this, 'C01-f', key,
                     'after a failing instruction: further instructions executed=%s, returns %s (built from that '
                     'failure: %s)' % (not ok_halt, util.describe(ret) if ret is not None else p.kind, from_this),
                     fd.loc())
        else:
            ok = p.kind == 'return' and isinstance(p.val, K) and p.val.v is None
            c.expect(ok, 'C01-f', key, 'all instructions succeeded but the step returns %s' % (
                util.describe(p.val) if p.kind == 'return' else p.kind), fd.loc())
    c.floor('C01-f', 'paths through execute_phase_prim', len(paths), 4)
    # which elements are executed: decision table over the kinds of element of a phase (one explicit element of each
    # kind): an INSTRUCTION element is handed to the instruction executor exactly once (after its header executor),
    # a COMMENT element to the comment header executor only, an EMPTY element to nothing
    from ..absint import State, ListVal
    et = fo.enum_members(ix.cls('exactly_lib.section_document.model:ElementType'))
    c.require(set(et) >= {'INSTRUCTION', 'COMMENT'}, 'C01-f: ElementType members %s' % sorted(et))
    pp = fd.positional_params()
    for kind, member in sorted(et.items()):
        it = Interp(ix, fo, hooks)
        element = it.new_obj(ix.cls('exactly_lib.section_document.model:SectionContentElement'))
        st = State()
        st.heap[(element.oid, 'element_type')] = K(member)
        st.heap[(element.oid, '_element_type')] = K(member)
        contents = it.new_obj(ix.cls('exactly_lib.section_document.model:SectionContents'))
        st.heap[(contents.oid, 'elements')] = ListVal([element], True)
        args = {pp[0].arg: contents}
        for prm in pp[1:]:
            args[prm.arg] = Sym(prm.arg, nullness=False, truth=True, origin=('given', prm.arg))
        seen = set()
        for p in it.run_function(fd, args, st):
            who = []
            for e in p.calls():
                if e.data.get('callee') == ee:
                    who.append('instruction-executor')
                elif isinstance(e.node.func, ast.Attribute) and e.node.func.attr == 'apply':
                    cv = e.data.get('callee_val')
                    r = util.root_sym(cv.origin[1]) if isinstance(cv, Sym) and cv.origin and cv.origin[0] == 'attr' else None
                    if isinstance(r, Sym) and r.origin and r.origin[0] == 'given':
                        who.append(r.origin[1])
            seen.add(tuple(who))
        want = {'INSTRUCTION': (pp[2].arg, 'instruction-executor'), 'COMMENT': (pp[1].arg,)}.get(kind, ())
        c.expect(seen == {want}, 'C01-f', 'execute_phase_prim/element-kind/' + kind,
                 'an element of kind %s is handed to %s (expected %s): %s' % (
                     kind, sorted(seen), want, 'instructions are not executed' if kind == 'INSTRUCTION' else
                     'something that is not an instruction is executed'), fd.loc())
    # execute_phase / run_instructions_phase_step propagate
    ep = ix.func(PSE_MOD + ':execute_phase')
    hooks2 = ForkHooks(ix)
    hooks2.fork_on(lambda d, n, cv: d == fd, [('none', lambda: NONE),
                                               ('failure', lambda: Sym('failure', nullness=False, origin=('f',)))])
    for p in util.func_paths(ix, fo, ep, hooks2):
        lab = labels_of(p)
        if lab == ['none']:
            c.expect(p.kind == 'return' and isinstance(p.val, K) and p.val.v is None, 'C01-f', 'execute_phase/none',
                     'no failure but execute_phase returns %s' % util.describe(p.val), ep.loc())
        elif lab == ['failure']:
            k = util.constructed_class(ix, p.val) if p.kind == 'return' else None
            c.expect(k is not None and k.endswith(':PhaseStepFailure'), 'C01-f', 'execute_phase/failure',
                     'a failure is not returned as PhaseStepFailure (%s)' % util.describe(p.val), ep.loc())
        else:
            c.bad('C01-f', 'execute_phase/calls', 'execute_phase_prim called %d times' % len(lab), ep.loc())
    rs = ix.func(PSE_MOD + ':run_instructions_phase_step')
    hooks3 = ForkHooks(ix)
    hooks3.fork_on(lambda d, n, cv: d == ep, [('none', lambda: NONE),
                                               ('failure', lambda: Sym('failure', nullness=False, origin=('f',)))])
    for p in util.func_paths(ix, fo, rs, hooks3):
        lab = labels_of(p)
        if lab == ['none']:
            c.expect(p.kind == 'return', 'C01-f', 'run_instructions_phase_step/none',
                     'no failure but the step runner raises', rs.loc())
        elif lab == ['failure']:
            ok = p.kind == 'raise' and isinstance(p.val, Exc) and p.val.cls.key.endswith(':PhaseStepFailureException')
            carried = ok and p.val.args and getattr(util.root_sym(p.val.args[0]), 'label', None) == 'failure'
            c.expect(bool(ok and carried), 'C01-f', 'run_instructions_phase_step/failure',
                     'a step failure does not raise PhaseStepFailureException carrying that failure', rs.loc())
        else:
            c.bad('C01-f', 'run_instructions_phase_step/calls', 'execute_phase called %d times' % len(lab), rs.loc())
    # arguments are passed on in role
    for caller, callee in ((ep, fd), (rs, ep)):
        for call, d in util.calls_in(ix, caller):
            if d == callee:
                b = util.bound_call_args(callee, call, False) or {}
                a = b.get('phase_contents')
                ok = isinstance(a, ast.Name) and a.id == 'phase_contents'
                ie = b.get('instruction_executor')
                ok = ok and isinstance(ie, ast.Name) and ie.id == 'instruction_executor'
                c.expect(ok, 'C01-f', caller.name + '/passes-contents-and-executor',
                         'phase contents / instruction executor are not passed on unchanged', caller.loc())


# ---------------------------------------------------------------- g
def clause_g(c: Check):
    ix, fo = c.ix, c.fo
    ee = ix.func(SIE + ':execute_element')
    hard = ix.cls('exactly_lib.test_case.hard_error:HardErrorException')
    psfe = ix.cls('exactly_lib.execution.result:PhaseStepFailureException')
    efs = ix.cls('exactly_lib.execution.result:ExecutionFailureStatus')
    EXC = External('builtins.Exception')
    VERR = External('builtins.ValueError')

    def is_apply(d, n, cv):
        return isinstance(n.func, ast.Attribute) and n.func.attr == 'apply' and isinstance(n.func.value, ast.Name) \
            and n.func.value.id == ee.positional_params()[0].arg

    hooks = ForkHooks(ix)
    hooks.fork_on(is_apply, [
        ('hard', ('raise', hard)), ('exception', ('raise', EXC)), ('value-error', ('raise', VERR)),
        ('none', lambda: NONE),
        ('info', lambda: Sym('fail_info', nullness=False, origin=('fail-info',))),
    ])
    paths = util.func_paths(ix, fo, ee, hooks)
    seen = set()
    for p in paths:
        labs = labels_of(p)
        c.require(len(labs) == 1, 'C01-g: execute_element applies the executor %d times on a path' % len(labs))
        lab = labs[0]
        seen.add(lab)
        key = 'execute_element/' + lab
        if p.kind != 'return':
            c.bad('C01-g', key, 'exception escapes execute_element (%s)' % util.describe(p.val), ee.loc())
            continue
        if lab == 'none':
            c.expect(isinstance(p.val, K) and p.val.v is None, 'C01-g', key,
                     'successful instruction is reported as %s' % util.describe(p.val), ee.loc())
            continue
        st = _status_arg(c, p.val, 'SingleInstructionExecutionFailure')
        if lab == 'hard':
            c.expect(_is_member(st, efs, 'HARD_ERROR'), 'C01-g', key,
                     'HardErrorException is reported with status %s' % util.describe(st), ee.loc())
        elif lab in ('exception', 'value-error'):
            c.expect(_is_member(st, efs, 'INTERNAL_ERROR'), 'C01-g', key,
                     'an arbitrary exception is reported with status %s' % util.describe(st), ee.loc())
        elif lab == 'info':
            ok = isinstance(st, Sym) and st.origin and st.origin[0] == 'enum-conv' and st.origin[1] == efs
            src = None
            if ok:
                base, chain = util.attr_chain(st.origin[2])
                ok = getattr(util.root_sym(base), 'label', None) == 'info' and chain == ('status', 'value')
            c.expect(bool(ok), 'C01-g', key,
                     'returned failure does not carry the status of the instruction\'s own result (%s)' %
                     util.describe(st), ee.loc())
    c.require(seen == {'hard', 'exception', 'value-error', 'none', 'info'}, 'C01-g: outcome classes missing: %s' % seen)

    # the act-step wrapper
    ea = ix.func(PSE_MOD + ':execute_action_and_catch_internal_error_exception')
    action_param = ea.positional_params()[0].arg

    def is_action(d, n, cv):
        return isinstance(n.func, ast.Name) and n.func.id == action_param

    hooks = ForkHooks(ix)
    hooks.fork_on(is_action, [
        ('psfe', ('raise', psfe)), ('hard', ('raise', hard)), ('exception', ('raise', EXC)),
        ('value', lambda: Sym('result', origin=('action-result',))),
    ])
    seen = set()
    for p in util.func_paths(ix, fo, ea, hooks):
        labs = labels_of(p)
        c.require(len(labs) == 1, 'C01-g: the action is invoked %d times on a path' % len(labs))
        lab = labs[0]
        seen.add(lab)
        key = 'execute_action_and_catch_internal_error_exception/' + lab
        if lab == 'value':
            c.expect(p.kind == 'return' and getattr(util.root_sym(p.val), 'label', None) == 'value', 'C01-g', key,
                     'the action\'s result is not returned', ea.loc())
            continue
        ok = p.kind == 'raise' and isinstance(p.val, Exc) and p.val.cls == psfe
        if not ok:
            c.bad('C01-g', key, 'does not end by raising PhaseStepFailureException (%s %s)' % (
                p.kind, util.describe(p.val)), ea.loc())
            continue
        if lab == 'psfe':
            c.expect(getattr(p.val, 'label', None) == 'psfe', 'C01-g', key,
                     'a PhaseStepFailureException of the action is replaced instead of re-raised', ea.loc())
        else:
            arg = p.val.args[0] if p.val.args else None
            k = util.origin_call_key(arg) or ''
            want = 'hard_error' if lab == 'hard' else 'internal_error'
            c.expect(k.endswith('PhaseStepFailureResultConstructor.' + want), 'C01-g', key,
                     'failure is built by %s (expected failure_con.%s)' % (k or util.describe(arg), want), ea.loc())
    c.require(seen == {'psfe', 'hard', 'exception', 'value'}, 'C01-g: outcome classes missing: %s' % seen)
    # the constructor methods name the status they promise
    pcon = ix.cls(PSE_MOD + ':PhaseStepFailureResultConstructor')
    for meth, member in (('hard_error', 'HARD_ERROR'), ('internal_error', 'INTERNAL_ERROR'),
                         ('internal_error_msg', 'INTERNAL_ERROR')):
        f = ix.class_member(pcon, meth)
        c.require(isinstance(f, FuncDef), 'C01-g: PhaseStepFailureResultConstructor.%s missing' % meth)
        ok = False
        for call, d in util.calls_in(ix, f):
            if isinstance(call.func, ast.Attribute) and call.func.attr == 'apply' and call.args:
                v = fo.fold(f.module, f, call.args[0])
                ok = isinstance(v, EnumMember) and v.cls == efs and v.name == member
        c.expect(ok, 'C01-g', 'PhaseStepFailureResultConstructor.' + meth,
                 '%s does not build a failure with status %s' % (meth, member), f.loc())
    # enum value agreement behind the value-based conversions
    pcfe = ix.cls(SIE + ':PartialControlledFailureEnum')
    fers = ix.cls('exactly_lib.execution.full_execution.result:FullExeResultStatus')
    svh_e = ix.cls('exactly_lib.test_case.result.svh:SuccessOrValidationErrorOrHardErrorEnum')
    pfh_e = ix.cls('exactly_lib.test_case.result.pfh:PassOrFailOrHardErrorEnum')
    for a, b in ((pcfe, efs), (efs, fers), (svh_e, efs), (pfh_e, pcfe), (pfh_e, efs), (svh_e, pcfe)):
        expect_enum_value_agreement(c, 'C01-g', a, b, skip=('PASS', 'SUCCESS'))
    # conversion sites are total
    n_sites = 0
    for modname in (SIE, PSX, SYMVAL_MOD, EXECUTOR_MOD, 'exactly_lib.execution.partial_execution.impl.atc_execution',
                    'exactly_lib.execution.full_execution.result'):
        mod = ix.module(modname)
        for n in ast.walk(mod.tree):
            if isinstance(n, ast.Call) and len(n.args) == 1 and isinstance(n.args[0], ast.Attribute) \
                    and n.args[0].attr == 'value':
                f = mod.enclosing_func(n)
                d = ix.callee(mod, f, n)
                if isinstance(d, ClassDef) and fo.is_enum(d):
                    src = ix.type_of(mod, f, n.args[0].value)
                    key = 'conversion/%s/%s' % (f.key if f else modname, unparse(n))
                    if not (isinstance(src, ClassDef) and fo.is_enum(src)):
                        raise AnalysisError('C01-g: source enum of conversion %s not resolved (%s:%d)' % (
                            unparse(n), mod.relpath, n.lineno))
                    n_sites += 1
                    tgt_by_val = {m.value: m.name for m in fo.enum_members(d).values()}
                    problems = []
                    for name, m_ in fo.enum_members(src).items():
                        if name in ('PASS', 'SUCCESS'):
                            continue
                        if tgt_by_val.get(m_.value) != name:
                            problems.append('%s.%s(=%r) -> %s' % (src.name, name, m_.value,
                                                                   tgt_by_val.get(m_.value, 'ValueError')))
                    c.expect(not problems, 'C01-g', key, 'value-based enum conversion is not name preserving: %s'
                             % problems, '%s:%d' % (mod.relpath, n.lineno))
    c.floor('C01-g', 'enum conversion sites', n_sites, 5)
    # decision tables of the three result translators
    _translator_tables(c)


def _status_arg(c: Check, v, cls_name: str):
    con = util.constructed(c.ix, v)
    if con is not None and con[0].endswith(':' + cls_name):
        return con[3].get('status')
    return None


def _is_member(v, enum_cls, name) -> bool:
    return isinstance(v, K) and isinstance(v.v, EnumMember) and v.v.cls == enum_cls and v.v.name == name


def _translator_tables(c: Check):
    ix, fo = c.ix, c.fo
    pcfe = ix.cls(SIE + ':PartialControlledFailureEnum')
    svh_cls = ix.cls('exactly_lib.test_case.result.svh:SuccessOrValidationErrorOrHardError')
    svh_e = ix.cls('exactly_lib.test_case.result.svh:SuccessOrValidationErrorOrHardErrorEnum')
    sh_cls = ix.cls('exactly_lib.test_case.result.sh:SuccessOrHardError')
    pfh_cls = ix.cls('exactly_lib.test_case.result.pfh:PassOrFailOrHardError')
    pfh_e = ix.cls('exactly_lib.test_case.result.pfh:PassOrFailOrHardErrorEnum')

    R = 'exactly_lib.test_case.result.'

    def outcomes(f, rec):
        pn = f.positional_params()[0].arg
        outs = set()
        for p in util.func_paths(ix, fo, f, Hooks(), args={pn: K(rec)}):
            if p.kind != 'return':
                outs.add('raises')
            elif isinstance(p.val, K) and p.val.v is None:
                outs.add('None')
            else:
                st = _status_arg(c, p.val, 'PartialInstructionControlledFailureInfo')
                if isinstance(st, K) and isinstance(st.v, EnumMember) and st.v.cls == pcfe:
                    outs.add(st.v.name)
                else:
                    outs.add('?' + util.describe(p.val))
        return outs

    table = [
        ('_from_success_or_validation_error_or_hard_error', [
            ('SUCCESS', run_factory(c, R + 'svh:new_svh_success'), 'None'),
            ('VALIDATION_ERROR', run_factory(c, R + 'svh:new_svh_validation_error', 'MSG'), 'VALIDATION_ERROR'),
            ('HARD_ERROR', run_factory(c, R + 'svh:new_svh_hard_error', 'MSG'), 'HARD_ERROR')]),
        ('_from_success_or_hard_error', [
            ('SUCCESS', run_factory(c, R + 'sh:new_sh_success'), 'None'),
            ('HARD_ERROR', run_factory(c, R + 'sh:new_sh_hard_error', 'MSG'), 'HARD_ERROR')]),
        ('_from_pass_or_fail_or_hard_error', [
            ('PASS', run_factory(c, R + 'pfh:new_pfh_pass'), 'None'),
            ('FAIL', run_factory(c, R + 'pfh:new_pfh_fail', 'MSG'), 'FAIL'),
            ('HARD_ERROR', run_factory(c, R + 'pfh:new_pfh_hard_error', 'MSG'), 'HARD_ERROR')]),
    ]
    for fname, rows in table:
        f = ix.func(PSX + ':' + fname)
        for label, rec, want in rows:
            outs = outcomes(f, rec)
            c.expect(outs == {want}, 'C01-g', '%s/%s' % (fname, label),
                     'an instruction result %s is translated to %s (expected %s)' % (label, sorted(outs), want),
                     f.loc())
    # every executor class feeds the instruction's result through the translator of its result type
    n = 0
    mod = ix.module(PSX)
    want_tr = {'validate_pre_sds': '_from_success_or_validation_error_or_hard_error',
               'validate_post_setup': '_from_success_or_validation_error_or_hard_error'}
    for cls in mod.all_classes:
        ap = cls.methods.get('apply')
        if ap is None or util.is_abstract_body(ap):
            continue
        n += 1
        r = None
        for st in ap.node.body:
            if isinstance(st, ast.Return):
                r = util.return_value(ap, st)
        ok = False
        msg = 'apply does not return a translated instruction result'
        if isinstance(r, ast.Call):
            tr = ix.callee(mod, ap, r)
            inner = r.args[0] if r.args else None
            if isinstance(tr, FuncDef) and isinstance(inner, ast.Call) and isinstance(inner.func, ast.Attribute):
                meth = inner.func.attr
                ann = unparse(tr.positional_params()[0].annotation) if tr.positional_params()[0].annotation else ''
                # the instruction method's declared result type must be the translator's parameter type
                icls = ix.annotation_class(mod, None, ap.positional_params()[1].annotation)
                im = ix.class_member(icls, meth) if isinstance(icls, ClassDef) else None
                rt = unparse(im.node.returns) if isinstance(im, FuncDef) and im.node.returns is not None else None
                ok = rt is not None and rt.split('.')[-1] == ann.split('.')[-1]
                msg = '%s.%s returns %s but is translated by %s(%s)' % (
                    icls.name if isinstance(icls, ClassDef) else '?', meth, rt, tr.name, ann)
        c.expect(ok, 'C01-g', 'executor-translator/' + cls.name, msg, ap.loc())
    c.floor('C01-g', 'instruction executor classes', n, 12)


# ---------------------------------------------------------------- h
INSTR_CLASS_PHASE = {
    'SetupPhaseInstruction': 'SETUP', 'BeforeAssertPhaseInstruction': 'BEFORE_ASSERT',
    'AssertPhaseInstruction': 'ASSERT', 'CleanupPhaseInstruction': 'CLEANUP',
    'ConfigurationPhaseInstruction': 'CONFIGURATION',
}
CONTENTS_ATTR_PHASE = {'setup_phase': 'SETUP', 'act_phase': 'ACT', 'before_assert_phase': 'BEFORE_ASSERT',
                       'assert_phase': 'ASSERT', 'cleanup_phase': 'CLEANUP', 'configuration_phase': 'CONFIGURATION'}
KIND_METHOD = {'PRE_SDS': 'validate_pre_sds', 'POST_SETUP': 'validate_post_setup', 'MAIN': 'main',
               'SYMBOLS': 'symbol_usages'}
ATC_STEP_METHODS = {'PARSE': 'parse', 'SYMBOLS': 'symbol_usages', 'PRE_SDS': 'validate_pre_sds',
                    'POST_SETUP': 'validate_post_setup', 'EXE_INPUT': 'validate', 'PREPARE': 'prepare',
                    'EXECUTE': 'execute'}


def executor_class_info(c: Check, cls: ClassDef):
    """(phase from the apply parameter annotation or None, instruction methods invoked by apply)"""
    ix = c.ix
    ap = ix.class_member(cls, 'apply')
    if not isinstance(ap, FuncDef) or util.is_abstract_body(ap):
        raise AnalysisError('C01-h: %s has no concrete apply' % cls.key)
    pp = ap.positional_params()
    c.require(len(pp) == 2, 'C01-h: %s.apply signature' % cls.key)
    ann = ix.annotation_class(ap.module, None, pp[1].annotation)
    phase = INSTR_CLASS_PHASE.get(ann.name) if isinstance(ann, ClassDef) else None
    methods = set()
    for n in ast.walk(ap.node):
        if isinstance(n, ast.Call) and isinstance(n.func, ast.Attribute) and isinstance(n.func.value, ast.Name) \
                and n.func.value.id == pp[1].arg:
            methods.add(n.func.attr)
    return phase, methods, ap


def clause_h(c: Check, traces: List[Trace], sk):
    ix, fo = c.ix, c.fo
    # the trace with most steps: complete success run
    full = max((t for t in traces if t.terminal == 'PASS' and t.first_raised() is None), key=lambda t: len(t.steps))
    n_instr, n_sym, n_act = 0, 0, 0
    atc_exe = ix.cls('exactly_lib.execution.partial_execution.impl.atc_execution:ActionToCheckExecutor')
    for s in full.steps:
        if s.kind != 'step':
            continue
        kind = sk(s)
        loc = '%s:%d' % (s.event.func.module.relpath, s.event.node.lineno)
        key = 'step-site/%s/%s' % (s.phase, kind)
        if s.via == 'instructions':
            ex, contents = s.args[1], s.args[2]
            base, chain = util.attr_chain(contents)
            cphase = CONTENTS_ATTR_PHASE.get(chain[-1]) if chain else None
            ecls = None
            ctor_vals = []
            if isinstance(ex, Sym) and isinstance(ex.cls, ClassDef):
                ecls = ex.cls
                if ex.origin and ex.origin[0] == 'call':
                    ctor_vals = list(ex.origin[2]) + list(ex.origin[3].values())
            if ecls is None:
                raise AnalysisError('C01-h: executor object of step %s/%s not resolved' % (s.phase, kind))
            ephase, methods, ap = executor_class_info(c, ecls)
            problems = []
            if cphase != s.phase:
                problems.append('runs the instructions of %s' % (chain[-1] if chain else util.describe(contents)))
            if ephase is not None and ephase != s.phase:
                problems.append('executor %s is for %s instructions' % (ecls.name, ephase))
            want_m = KIND_METHOD[kind]
            if want_m not in methods or (methods & set(KIND_METHOD.values())) - {want_m}:
                problems.append('executor %s invokes %s (expected %s)' % (ecls.name, sorted(methods), want_m))
            for v in ctor_vals:
                if isinstance(v, Sym) and v.tag.startswith('generator:') and v.origin and v.origin[0] == 'call':
                    gen_args = v.origin[2]
                    if gen_args and isinstance(gen_args[0], K) and isinstance(gen_args[0].v, Record):
                        en = fo.record_attr(gen_args[0].v, 'the_enum')
                        if isinstance(en, EnumMember) and en.name != s.phase:
                            problems.append('instruction environments are those of phase %s' % en.name)
                    want_gen = '_post_setup_validation_environments' if kind == 'POST_SETUP' else '_post_sds_main_environments'
                    if not v.tag.endswith(want_gen):
                        problems.append('environment generator is %s (expected %s)' % (v.tag, want_gen))
            c.expect(not problems, 'C01-h', key, 'step %s/%s: %s' % (s.phase, kind, '; '.join(problems)), loc,
                     detail='%s on %s' % (ecls.name, chain[-1] if chain else '?'))
            if kind == 'SYMBOLS':
                n_sym += 1
            else:
                n_instr += 1
        else:
            n_act += 1
            action = s.args[0]
            want = ATC_STEP_METHODS[kind]
            got = set()
            fds = []
            if isinstance(action, FuncVal) and action.fd is not None:
                fds.append(action.fd)
            elif isinstance(action, Sym) and action.origin and action.origin[0] == 'call':
                d = ix.try_lookup(action.origin[1]) if ':' in action.origin[1] else None
                if isinstance(d, FuncDef):
                    fds.append(d)
            if not fds:
                raise AnalysisError('C01-h: action of act step %s not resolved (%s)' % (kind, util.describe(action)))
            seen = set()
            while fds:
                f = fds.pop()
                if f in seen:
                    continue
                seen.add(f)
                for n in ast.walk(f.node):
                    if isinstance(n, ast.Call) and isinstance(n.func, ast.Attribute):
                        got.add(n.func.attr)
                        owner = f
                        while owner is not None and owner.cls is None:
                            owner = owner.parent
                        ef = f.module.enclosing_func(n) or f
                        d = ix.callee(f.module, ef, n)
                        if isinstance(d, FuncDef) and owner is not None and d.cls == owner.cls and d.cls == atc_exe:
                            fds.append(d)
                        elif isinstance(d, FuncDef) and d.module.name in (SYMVAL_MOD, EXECUTOR_MOD) \
                                and d.cls is not None and d.name == 'apply':
                            fds.append(d)
            others = (got & set(ATC_STEP_METHODS.values())) - {want}
            if kind == 'EXECUTE':
                others -= {'validate', 'parse'}
            ok = want in got and not (others - {'parse'} if kind != 'PARSE' else others)
            c.expect(ok, 'C01-h', key, 'act step %s invokes %s of the action to check (expected %s)' % (
                kind, sorted(got & set(ATC_STEP_METHODS.values())), want), loc, detail=want)
    c.floor('C01-h', 'instruction step sites', n_instr, 11)
    c.floor('C01-h', 'symbol validation sites', n_sym, 4)
    c.floor('C01-h', 'act step sites', n_act, 7)
    # the TestCase record (contents attribute <-> slot)
    tc = ix.cls('exactly_lib.execution.partial_execution.configuration:TestCase')
    n = check_record(c, 'C01-h', tc)
    c.floor('C01-h', 'TestCase record properties', n, 5)


# ---------------------------------------------------------------- i
def clause_i(c: Check):
    ix, fo = c.ix, c.fo
    FE = 'exactly_lib.execution.full_execution.execution'
    fd = ix.func(FE + ':execute')
    conf = ix.func(FE + ':execute_configuration_phase')
    pexe = ix.func('exactly_lib.execution.partial_execution.execution:execute')
    skipped = ix.func('exactly_lib.execution.full_execution.result:new_skipped')
    tcs = ix.cls('exactly_lib.test_case.test_case_status:TestCaseStatus')
    skip = fo.enum_members(tcs).get('SKIP')
    c.require(skip is not None, 'C01-i: TestCaseStatus.SKIP missing')
    hooks = ForkHooks(ix)
    hooks.fork_on(lambda d, n, cv: d == conf, [('conf-ok', lambda: NONE),
                                                ('conf-fail', lambda: Sym('conf_failure', nullness=False,
                                                                          origin=('conf',)))])
    paths = util.func_paths(ix, fo, fd, hooks)
    seen = set()
    for p in paths:
        calls = [e.data['callee'] for e in p.calls()]
        lab = labels_of(p)[0] if labels_of(p) else None
        ran = pexe in calls
        first = calls[0] if calls else None
        c.expect(first == conf, 'C01-i', 'full-execute/conf-phase-first',
                 'the configuration phase is not the first thing executed', fd.loc())
        status_skip = None
        for g, truth in p.guards:
            if 'SKIP' in unparse(g):
                status_skip = truth
        if lab == 'conf-fail':
            seen.add('conf-fail')
            k = util.origin_call_key(p.val) if p.kind == 'return' else None
            c.expect(not ran and k is not None and k.endswith('new_configuration_phase_failure_from'), 'C01-i',
                     'full-execute/conf-failure-halts',
                     'a failing configuration phase does not end the execution (partial execution run: %s)' % ran,
                     fd.loc())
        elif status_skip:
            seen.add('skip')
            k = util.origin_call_key(p.val) if p.kind == 'return' else None
            c.expect(not ran and k == skipped.key, 'C01-i', 'full-execute/skip',
                     'status SKIP does not return new_skipped() before executing', fd.loc())
        else:
            seen.add('run')
            k = util.origin_call_key(p.val) if p.kind == 'return' else None
            c.expect(ran and k is not None and k.endswith('new_from_result_of_partial_execution'), 'C01-i',
                     'full-execute/run', 'normal path does not run partial execution and translate its result',
                     fd.loc())
    c.require(seen == {'conf-fail', 'skip', 'run'}, 'C01-i: paths of full execute not recognised: %s' % seen)
    # SKIP test compares the configured status with TestCaseStatus.SKIP
    ok = False
    for n in walk_own(fd.node):
        if isinstance(n, ast.Compare) and len(n.ops) == 1 and isinstance(n.ops[0], (ast.Is, ast.Eq)):
            v = fo.fold(fd.module, fd, n.comparators[0])
            if v == skip and 'test_case_status' in unparse(n.left):
                ok = True
    c.expect(ok, 'C01-i', 'full-execute/skip-test', 'no test of test_case_status against TestCaseStatus.SKIP', fd.loc())
    # PLUMB: TestCase(...) construction
    tc = ix.cls('exactly_lib.execution.partial_execution.configuration:TestCase')
    n_sites = 0
    for call, d in util.calls_in(ix, fd):
        if d == tc:
            n_sites += 1
            b = util.ctor_call_args(ix, tc, call) or {}
            for pn, a in b.items():
                ok = isinstance(a, ast.Attribute) and a.attr == pn
                c.expect(ok, 'C01-i', 'full-execute/TestCase/' + pn,
                         'phase contents %s are passed as %s' % (unparse(a), pn), fd.loc())
            c.expect(len(b) == 5, 'C01-i', 'full-execute/TestCase/arity', 'TestCase built with %d phases' % len(b),
                     fd.loc())
    c.floor('C01-i', 'TestCase constructions in full execute', n_sites, 1)
    # configuration phase runs the configuration contents with the configuration executor and step
    ep = ix.func(PSE_MOD + ':execute_phase')
    okc = False
    for call, d in util.calls_in(ix, conf):
        if d == ep:
            b = util.bound_call_args(ep, call, False) or {}
            stepv = fo.fold(conf.module, conf, b.get('phase_step'))
            exn = b.get('instruction_executor')
            ecls = ix.callee(conf.module, conf, exn) if isinstance(exn, ast.Call) else None
            ph = None
            if isinstance(stepv, Record):
                phr = fo.record_attr(stepv, 'phase')
                en = fo.record_attr(phr, 'the_enum') if isinstance(phr, Record) else None
                ph = en.name if isinstance(en, EnumMember) else None
            ephase = executor_class_info(c, ecls)[0] if isinstance(ecls, ClassDef) else None
            pc = b.get('phase_contents')
            okc = ph == 'CONFIGURATION' and ephase == 'CONFIGURATION' and isinstance(pc, ast.Name) \
                  and pc.id == conf.positional_params()[1].arg
    c.expect(okc, 'C01-i', 'execute_configuration_phase/plumbing',
             'configuration phase is not run with the configuration executor, step and contents', conf.loc())
    # conf-phase status translation is name preserving: the failure of a configuration instruction is reported as the
    # kind of failure it is - whatever `status = ...` an earlier configuration instruction has set (decision table by
    # abstract evaluation of the translating function, however it is written: dictionary, helper, if-chain)
    from ..absint import State
    import itertools
    nf = ix.func(FE + ':new_configuration_phase_failure_from')
    psf = ix.cls('exactly_lib.execution.result:PhaseStepFailure')
    efs = fo.enum_members(ix.cls('exactly_lib.execution.result:ExecutionFailureStatus'))
    fers_cls = ix.cls('exactly_lib.execution.full_execution.result:FullExeResult')
    svh_e = ix.cls('exactly_lib.test_case.result.svh:SuccessOrValidationErrorOrHardErrorEnum')
    need = sorted({n for n in fo.enum_members(svh_e) if n != 'SUCCESS'} | {'INTERNAL_ERROR'})
    other_params = []
    fail_param = None
    for prm in nf.positional_params():
        ann = unparse(prm.annotation).split('.')[-1] if prm.annotation is not None else ''
        if ann == 'PhaseStepFailure':
            fail_param = prm.arg
        else:
            d_ = ix.resolve_static(nf.module, nf, prm.annotation) if prm.annotation is not None else None
            c.require(isinstance(d_, ClassDef) and fo.enum_members(d_),
                      'C01-i: parameter %s of new_configuration_phase_failure_from is not an enumeration' % prm.arg)
            other_params.append((prm.arg, fo.enum_members(d_)))
    c.require(fail_param is not None, 'C01-i: new_configuration_phase_failure_from takes no PhaseStepFailure')

    class HT(Hooks):
        def inline(self, fd, st):
            return fd.module.name.startswith('exactly_lib.execution.') and not fd.is_generator

    n_tr = 0
    for kind in need:
        c.require(kind in efs, 'C01-i: ExecutionFailureStatus has no member %s' % kind)
        for combo in itertools.product(*[sorted(members.items()) for _, members in other_params]):
            it = Interp(ix, fo, HT())
            insts = it.instantiate(psf, State(), {'status': K(efs[kind]), 'failure_info': Sym('failure-info', nullness=False)})
            c.require(len(insts) == 1, 'C01-i: constructor of PhaseStepFailure has %d paths' % len(insts))
            obj, st = insts[0]
            args = {fail_param: obj}
            for (pn, _), (mn, mv) in zip(other_params, combo):
                args[pn] = K(mv)
            label = kind + ''.join('/%s=%s' % (pn, mn) for (pn, _), (mn, mv) in zip(other_params, combo))
            outs = set()
            for p in it.run_function(nf, args, st):
                n_tr += 1
                if p.kind != 'return':
                    outs.add(p.kind)
                    continue
                con = util.constructed(ix, p.val)
                v = con[3].get('status') if con and con[0] == fers_cls.key else None
                outs.add(v.v.name if isinstance(v, K) and isinstance(v.v, EnumMember) else '?' + util.describe(v if v is not None else p.val))
            c.expect(outs == {kind}, 'C01-i', 'conf-status-translation/' + label,
                     'a configuration instruction that fails with %s%s is reported as %s' % (
                         kind, ''.join(' after %s = %s' % (pn, mn) for (pn, _), (mn, mv) in zip(other_params, combo)),
                         sorted(outs)), nf.loc())
    c.floor('C01-i', 'evaluations of the configuration failure translation', n_tr, 3)


# ---------------------------------------------------------------- j
# state a step executor keeps on purpose (read and confirmed)
STEP_EXECUTOR_STATE = {
    ('ValidateSymbolsExecutor', '__symbols'):
        'the table of the symbols defined so far: every definition validated is added to it - accumulating it IS the step',
}


def clause_j(c: Check):
    """every instruction handed to a step executor is executed: on every returning path of `apply(instruction)` of
    each ControlledInstructionExecutor (12 classes: the validation and main steps of every phase) a method of the
    instruction is called - a step executor has no business deciding that an instruction "need not" run (the order
    and the halting are decided by execute_phase_prim alone, C01-f)"""
    ix, fo = c.ix, c.fo
    m = ix.module('exactly_lib.execution.impl.phase_step_executors')
    base = ix.cls('exactly_lib.execution.impl.single_instruction_executor:ControlledInstructionExecutor')
    n = 0

    class H(Hooks):
        def inline(self, fd, st):
            return False

    for k in m.all_classes:
        if k is base or base not in ix.mro(k):
            continue
        ap = k.methods.get('apply')
        if ap is None:
            continue
        n += 1
        ip = ap.positional_params()[1].arg
        for p in util.func_paths(ix, fo, ap, H()):
            if p.kind != 'return':
                continue
            on_instr = []
            for e in p.calls():
                recv = e.data.get('recv')
                if recv is None:
                    cv = e.data.get('callee_val')
                    recv = cv.origin[1] if isinstance(cv, Sym) and cv.origin and cv.origin[0] == 'attr' else None
                r = util.root_sym(recv) if recv is not None else None
                if isinstance(r, Sym) and r.origin and r.origin[:2] == ('param', ip):
                    on_instr.append(e)
            guards = [('' if t else 'not ') + unparse(g) for g, t in p.guards]
            c.expect(bool(on_instr), 'C01-j', 'step-executor-executes/%s' % k.name,
                     '%s.apply returns without calling the instruction%s: the instruction is silently left out of the '
                     'step' % (k.name, (' when ' + ', '.join(guards)) if guards else ''), ap.loc())
    c.floor('C01-j', 'step executors', n, 12)
    # ... and keeps nothing from one instruction to the next: a step executor is applied to every instruction of its
    # step in turn; state kept in it makes what is done for one instruction depend on the ones before it
    from .purity import Purity
    pu = Purity(ix)
    n2 = 0
    for mod in ('exactly_lib.execution.impl.phase_step_executors', 'exactly_lib.execution.partial_execution.impl.symbol_validation',
                'exactly_lib.execution.impl.symbol_validation'):
        for k in ix.module(mod).all_classes:
            if k is base or base not in ix.mro(k):
                continue
            ap = k.methods.get('apply')
            if ap is None:
                continue
            n2 += 1
            changed = [a for a in pu.self_mutations(ap) if (k.name, a) not in STEP_EXECUTOR_STATE]
            c.expect(not changed, 'C01-j', 'step-executor-keeps-no-state/%s' % k.name,
                     '%s.apply changes %s of the executor: what is done for an instruction depends on the instructions '
                     'handled before it (e.g. a usage "already validated" is skipped although it stands in another '
                     'context)' % (k.name, ', '.join('self.' + a for a in changed)), ap.loc())
    c.floor('C01-j', 'step executors checked for state', n2, 13)


# ---------------------------------------------------------------- k
def clause_k(c: Check):
    """ERR / DT of the steps of the action to check: each action the ATC executor builds for a step (validation of the
    execution input, validate-post-setup, prepare, execute) asks the actor / the input and raises the step's failure
    exactly when the answer says "not successful" (`not res.is_success`, `not x.is_exit_code`, a failure message
    that is present) and returns normally otherwise.  A reversed or dropped test lets a failed preparation go on to
    execution - or fails every successful one."""
    ix, fo = c.ix, c.fo
    ae = ix.cls('exactly_lib.execution.partial_execution.impl.atc_execution:ActionToCheckExecutor')
    psfe = ix.cls(RESULT_MOD + ':PhaseStepFailureException') if 'RESULT_MOD' in globals() else \
        ix.cls('exactly_lib.execution.result:PhaseStepFailureException')
    sv_cls = ix.cls('exactly_lib.execution.partial_execution.impl.symbol_validation:SymbolsValidator')
    n_actions = 0
    step_methods = sorted(ae.methods.items()) + [(k, v) for k, v in sorted(sv_cls.methods.items()) if k == '_validate_atc']
    for name, m in step_methods:
        nested = [b[1] for bs in m.local_bindings().values() for b in bs if b[0] == 'def']
        if not nested or not (any(p_.arg == 'failure_con' for p_ in m.positional_params())
                              or 'failure_con' in m.local_bindings()):
            continue
        for act in nested:
            n_actions += 1
            outcomes = {}
            for p in util.func_paths(ix, fo, act, Hooks()):
                verdicts = []
                for test, truth in p.guards:
                    t = test
                    neg = False
                    while isinstance(t, ast.UnaryOp) and isinstance(t.op, ast.Not):
                        neg = not neg
                        t = t.operand
                    if isinstance(t, ast.Attribute) and t.attr in ('is_success', 'is_exit_code'):
                        verdicts.append('ok' if (truth != neg) else 'failed')
                    elif isinstance(t, (ast.Name, ast.Attribute)) and 'message' in unparse(t):
                        verdicts.append('failed' if (truth != neg) else 'ok')
                    elif isinstance(t, ast.Compare) and len(t.ops) == 1 and isinstance(t.ops[0], (ast.Is, ast.IsNot)) \
                            and isinstance(t.comparators[0], ast.Constant) and t.comparators[0].value is None \
                            and ('message' in unparse(t.left) or (isinstance(t.left, ast.Name) and any(
                                b_[0] == 'assign' and isinstance(b_[1], ast.Call) for b_ in act.local_bindings().get(t.left.id, [])))):
                        is_none = truth == isinstance(t.ops[0], ast.Is)
                        verdicts.append('ok' if (is_none != neg) else 'failed')
                if not verdicts:
                    continue
                raised = p.kind == 'raise' and isinstance(p.val, Exc) and p.val.cls is psfe
                outcomes.setdefault(verdicts[-1], set()).add('raises the failure of the step' if raised else
                                                             ('returns' if p.kind == 'return' else 'raises something else'))
            c.require(set(outcomes) == {'ok', 'failed'},
                      'C01-k: the test of the result in %s.%s is not understood (%s)' % (ae.name, name, sorted(outcomes)))
            c.expect(outcomes['failed'] == {'raises the failure of the step'} and outcomes['ok'] == {'returns'},
                     'C01-k', 'atc-step-action/%s' % name,
                     'the action of %s %s when the answer is "not successful" and %s when it is successful' % (
                         name, ' / '.join(sorted(outcomes['failed'])), ' / '.join(sorted(outcomes['ok']))), act.loc())
    c.floor('C01-k', 'step actions of the ATC executor and of the symbol validation of the action', n_actions, 5)
    # ... and with the KIND of failure the answer carries: where the answer of the actor has a status of its own (a
    # validation error or a hard error), the failure raised is made from that status - not from a constant
    n_kind = 0
    for name, m in step_methods:
        for act in [b[1] for bs in m.local_bindings().values() for b in bs if b[0] == 'def']:
            for rname, bs in act.local_bindings().items():
                if len(bs) != 1 or bs[0][0] != 'assign' or not isinstance(bs[0][1], ast.Call):
                    continue
                d = ix.callee(act.module, act, bs[0][1])
                ret = d.node.returns if isinstance(d, FuncDef) else None
                rcls = ix.resolve_static(d.module, d, ret) if ret is not None else None
                if not (isinstance(rcls, ClassDef) and isinstance(ix.class_member(rcls, 'status'), FuncDef)):
                    continue
                for call in ast.walk(act.node):
                    if isinstance(call, ast.Call) and call.args and (
                            (isinstance(call.func, ast.Name) and call.func.id == 'failure_con') or
                            (isinstance(call.func, ast.Attribute) and isinstance(call.func.value, ast.Name)
                             and call.func.value.id == 'failure_con')):
                        n_kind += 1
                        a0 = call.args[0]
                        uses_status = any(isinstance(x, ast.Attribute) and x.attr == 'status' and isinstance(x.value, ast.Name)
                                          and x.value.id == rname for x in ast.walk(a0))
                        c.expect(uses_status, 'C01-k', 'atc-step-action/%s/kind-of-failure' % name,
                                 'the failure of %s is raised with the status `%s` although the answer of the actor (%s) '
                                 'says which kind of failure it is: a hard error is reported as another kind' % (
                                     name, unparse(a0), rcls.name), act.loc())
    c.floor('C01-k', 'step actions whose answer carries a status', n_kind, 2)
