"""C20 Built-in help agrees with what the program accepts; the manual has no dead links (DESIGN.md section 5,
clauses a-h)."""
import ast
from typing import List, Optional

from ..core import Index, FuncDef, ClassDef, VarDef, ModuleRef, External, AnalysisError, unparse, walk_own, dotted_name, parent
from ..fold import Folder, Record, EnumMember, Ref, is_unknown, single_return_expr
from ..absint import Interp, Hooks, State, K, Sym, Obj, Exc, NONE, ListVal, FuncVal, BoundMethod
from ..report import Check
from .. import util
from .common import ForkHooks, labels_of, check_record, check_no_shared_class_state

PH = 'exactly_lib.cli_default.program_modes.test_case.phases.'
IS = 'exactly_lib.common.instruction_setup'
TCH = 'exactly_lib.help.program_modes.test_case.the_test_case_help'
TSH = 'exactly_lib.help.program_modes.test_suite.the_test_suite_help'
AH = 'exactly_lib.help.the_application_help'
MP = 'exactly_lib.cli.main_program'
DE = 'exactly_lib.definitions.entity.'
HE = 'exactly_lib.help.entities.'
CR = 'exactly_lib.definitions.cross_ref.concrete_cross_refs'
HTML = 'exactly_lib.util.textformat.rendering.html'
CORE = 'exactly_lib.util.textformat.structure.core'

PHASE_TABLES = {  # phase table module -> (package of its instructions, InstructionsSetup parameter, phase enum name)
    'configuration': ('exactly_lib.impls.instructions.configuration', 'config_instruction_set', 'CONFIGURATION'),
    'setup': ('exactly_lib.impls.instructions.setup', 'setup_instruction_set', 'SETUP'),
    'before_assert': ('exactly_lib.impls.instructions.before_assert', 'before_assert_instruction_set', 'BEFORE_ASSERT'),
    'assert_': ('exactly_lib.impls.instructions.assert_', 'assert_instruction_set', 'ASSERT'),
    'cleanup': ('exactly_lib.impls.instructions.cleanup', 'cleanup_instruction_set', 'CLEANUP'),
}

ENTITY_KINDS = [
    ('actors', DE + 'actors:ALL_ACTORS', HE + 'actors.all_actor_docs:ALL_ACTOR_DOCS'),
    ('types', DE + 'types:ALL_TYPES_INFO_TUPLE', HE + 'types.all_types:all_types'),
    ('directives', DE + 'directives:ALL_DIRECTIVES', HE + 'directives.all_directives:all_directives'),
    ('configuration parameters', DE + 'conf_params:ALL_CONF_PARAM_INFOS',
     HE + 'configuration_parameters.all_configuration_parameters:all_configuration_parameters'),
    ('suite reporters', DE + 'suite_reporters:ALL_SUITE_REPORTERS',
     HE + 'suite_reporters.objects.all_suite_reporters:ALL_SUITE_REPORTERS'),
]


def check(c: Check):
    c.explanation = (
        'Table agreement between what the program accepts and what the help lists: the five phase instruction tables '
        'and the suite table (literal (name, setup) pairs, distinct names, each setup from the package of its phase, '
        'the name flowing into the documentation of the one object that also carries the parser); origin chains '
        'showing that the help is built from the very instruction sets the parsers use and that every phase\'s help '
        'is built from the instruction set of that phase; per entity type, the help list documents exactly the '
        'constants of the definition list, and the tables the program accepts from (define-symbol types, suite '
        'reporters, configuration parameters) cover the same constants; cross-reference visitors are total; in the '
        'HTML renderer the id of an anchor and the href of a reference are the same function of the target, URL '
        'targets are never rendered as in-document ids, and the id prefixes of the target kinds are pairwise '
        'distinct. Decides clauses a-h of DESIGN.md C20; not that every page renders or that every href has an id in '
        'the generated document (needs the document to be built).')
    clause_a(c)
    clause_b(c)
    clause_c(c)
    clause_d(c)
    clause_e(c)
    clause_f(c)
    clause_g(c)
    clause_h(c)
    # i: cross-reference targets / documentation objects are made per section, entity, instruction: nothing made for
    # one of them is kept in a container shared by all (a memo keyed by less than what the value depends on gives
    # the anchor of one phase to the same instruction of every other phase)
    clause_j(c)
    clause_k(c)
    clause_l(c)
    check_no_shared_class_state(c, 'C20-i', ['exactly_lib.definitions', 'exactly_lib.help', 'exactly_lib.cli.program_modes.help',
                                             'exactly_lib.common.help', 'exactly_lib.util.textformat'], 300,
                                'a target or text made for one section / entity is handed out for the others')
    from .common import sweep_records
    sweep_records(c, 'C20-rec', ['exactly_lib.help.contents_structure', 'exactly_lib.definitions.cross_ref', 'exactly_lib.common.help'], floor=8)


def _table_entries(c: Check, modname: str, var: str):
    """[(name node, setup node)] of `VAR = instruction_set_from_name_and_setup_constructor_list([...])`"""
    ix = c.ix
    m = ix.module(modname)
    d = m.defs.get(var)
    c.require(d is not None and isinstance(d.value, ast.Call), 'C20-a: %s.%s is not a call' % (modname, var))
    cal = ix.callee(m, None, d.value)
    c.require(isinstance(cal, FuncDef) and cal.key == IS + ':instruction_set_from_name_and_setup_constructor_list',
              'C20-a: %s.%s is not built by instruction_set_from_name_and_setup_constructor_list' % (modname, var))
    lst = d.value.args[0] if d.value.args else None
    c.require(isinstance(lst, (ast.List, ast.Tuple)), 'C20-a: %s.%s is not a literal list' % (modname, var))
    out = []
    for t in lst.elts:
        c.require(isinstance(t, ast.Tuple) and len(t.elts) == 2, 'C20-a: entry of %s.%s is not a pair' % (modname, var))
        out.append((t.elts[0], t.elts[1]))
    return m, out


# ---------------------------------------------------------------- a, b
def clause_a(c: Check):
    ix, fo = c.ix, c.fo
    total = 0
    setups = []
    tables = [(PH + k, 'INSTRUCTIONS', v[0], k) for k, v in sorted(PHASE_TABLES.items())]
    tables.append(('exactly_lib.cli_default.program_modes.test_suite', 'CONFIGURATION_SECTION_INSTRUCTIONS',
                   'exactly_lib.test_suite.instruction_set.sections.configuration', 'suite-conf'))
    for modname, var, pkg, label in tables:
        m, entries = _table_entries(c, modname, var)
        names = {}
        for name_node, setup_node in entries:
            total += 1
            name = fo.fold(m, None, name_node)
            c.expect(isinstance(name, str) and name != '', 'C20-a', 'table/%s/%s/name' % (label, unparse(name_node)),
                     'instruction name %s does not fold to a string (%r)' % (unparse(name_node), name), m.relpath)
            if isinstance(name, str):
                c.expect(name not in names, 'C20-a', 'table/%s/distinct/%s' % (label, name),
                         'the name %r is registered twice in [%s] (%s and %s): the first registration is silently '
                         'dropped' % (name, label, names.get(name), unparse(setup_node)), '%s:%d' % (m.relpath, name_node.lineno))
                names[name] = unparse(setup_node)
            d = ix.resolve_static(m, None, setup_node)
            ok = isinstance(d, FuncDef) and (d.module.name == pkg or d.module.name.startswith(pkg + '.'))
            c.expect(ok, 'C20-a', 'table/%s/%s/package' % (label, unparse(setup_node)),
                     'the setup %s registered in [%s] is %s - not an instruction of that phase' % (
                         unparse(setup_node), label, getattr(d, 'key', None)), '%s:%d' % (m.relpath, setup_node.lineno))
            if isinstance(d, FuncDef):
                setups.append((label, name, d))
    c.floor('C20-a', 'registered (section, instruction) pairs', total, 45)
    c.sample({'registered instructions': total})
    # the table constructor gives each setup constructor its own name
    f = ix.func(IS + ':instruction_set_from_name_and_setup_constructor_list')
    r = single_return_expr(f)
    ok = isinstance(r, ast.DictComp) and len(r.generators) == 1 and not r.generators[0].ifs \
         and isinstance(r.generators[0].target, ast.Tuple) and len(r.generators[0].target.elts) == 2
    if ok:
        n, sc = (e.id for e in r.generators[0].target.elts)
        ok = unparse(r.key) == n and unparse(r.value) == '%s(%s)' % (sc, n) \
             and unparse(r.generators[0].iter) == f.positional_params()[0].arg
    c.expect(bool(ok), 'C20-a', 'instruction_set_from_name_and_setup_constructor_list',
             'the table is not {name: setup_constructor(name)} over all given pairs', f.loc())
    # the default setup: each phase parameter gets the table of that phase
    dm = ix.module('exactly_lib.cli_default.program_modes.test_case.default_instructions_setup')
    d = dm.defs.get('INSTRUCTIONS_SETUP')
    iset = ix.cls('exactly_lib.processing.instruction_setup:InstructionsSetup')
    c.require(d is not None and isinstance(d.value, ast.Call), 'C20-a: INSTRUCTIONS_SETUP not found')
    b = util.ctor_call_args(ix, iset, d.value) or {}
    for k, (pkg, param, en) in sorted(PHASE_TABLES.items()):
        v = b.get(param)
        dv = ix.resolve_static(dm, None, v) if v is not None else None
        ok = isinstance(dv, VarDef) and dv.module.name == PH + k and dv.name == 'INSTRUCTIONS'
        c.expect(ok, 'C20-a', 'INSTRUCTIONS_SETUP/' + param, 'InstructionsSetup.%s is given %s' % (
            param, unparse(v) if v is not None else None), dm.relpath)
    check_record(c, 'C20-a', iset)
    # b: one object carries parser and documentation, and the documentation is built with the registered name
    sis = ix.cls(IS + ':SingleInstructionSetup')

    class H(Hooks):
        def inline(self, fd, st):
            return fd.module.name == 'exactly_lib.impls.instructions.multi_phase.define_symbol.instruction_setup'

        def inline_class(self, cd, st):
            return False

    n = 0
    for label, name, f in setups:
        it = Interp(ix, fo, H())
        nm = Sym('registered-name')
        pp = f.positional_params()
        if len(pp) != 1:
            c.bad('C20-b', 'setup/%s' % f.key, 'setup constructor takes %d parameters' % len(pp), f.loc())
            continue
        paths = it.run_function(f, {pp[0].arg: nm})
        ok = len(paths) >= 1
        for p in paths:
            con = util.constructed(ix, p.val) if p.kind == 'return' else None
            good = con is not None and con[0] == sis.key and len(con[1]) + len(con[2]) == 2
            if good:
                doc = con[1][1] if len(con[1]) > 1 else con[2].get('documentation')
                good = _mentions(doc, nm)
            ok = ok and good
        n += 1
        c.expect(ok, 'C20-b', 'setup/%s' % f.key,
                 '%s does not return SingleInstructionSetup(parser, documentation built with the registered name): the '
                 'help entry would be listed under another name than the one the parser accepts' % f.key, f.loc())
    c.floor('C20-b', 'setup constructors analysed', n, 45)
    pf = ix.class_member(sis, 'parse')
    r = single_return_expr(pf)
    c.expect(isinstance(r, ast.Call) and unparse(r.func) == 'self._parser.parse', 'C20-b', 'SingleInstructionSetup.parse',
             'SingleInstructionSetup.parse does not delegate to its parser', pf.loc())
    df = ix.class_member(sis, 'documentation')
    r = single_return_expr(df)
    c.expect(isinstance(r, ast.Attribute) and r.attr == '_documentation', 'C20-b', 'SingleInstructionSetup.documentation',
             'SingleInstructionSetup.documentation is not the documentation it was given', df.loc())


def _mentions(v, target, depth=0) -> bool:
    """target occurs in the construction of abstract value v"""
    if v is target:
        return True
    if depth > 8:
        return False
    if isinstance(v, ListVal):
        return any(_mentions(x, target, depth + 1) for x in v.items)
    if isinstance(v, Sym) and v.origin:
        o = v.origin
        if o[0] == 'call':
            return any(_mentions(x, target, depth + 1) for x in list(o[2]) + list(o[3].values()))
        if o[0] in ('attr', 'index', 'op', 'aug', 'comp'):
            for x in o[1:]:
                for y in (x if isinstance(x, (list, tuple)) else [x]):
                    if isinstance(y, (Sym, ListVal)) and _mentions(y, target, depth + 1):
                        return True
    return False


def clause_b(c: Check):
    pass  # decided together with clause a (needs the resolved table entries)


# ---------------------------------------------------------------- c
def clause_c(c: Check):
    ix, fo = c.ix, c.fo
    # the help of each phase is built from the instruction set of that phase
    f = ix.func(TCH + ':phase_helps_for')
    isp = f.positional_params()[0].arg
    helper = ix.func(TCH + ':_phase_instruction_set_help')
    paths = util.func_paths(ix, fo, f, Hooks())
    c.require(len(paths) == 1 and paths[0].kind == 'return' and isinstance(paths[0].val, ListVal),
              'C20-c: phase_helps_for does not return one literal list')
    pi = 'exactly_lib.test_case.phase_identifier'
    ident = {}
    for en in ('CONFIGURATION', 'SETUP', 'ACT', 'BEFORE_ASSERT', 'ASSERT', 'CLEANUP'):
        rec = fo.fold_path(pi + ':' + en)
        ident[fo.record_attr(rec, 'identifier') if isinstance(rec, Record) else None] = en
    want_set = {v[2]: v[1] for v in PHASE_TABLES.values()}
    seen = []
    for item in paths[0].val.items:
        con = util.constructed(ix, item)
        c.require(con is not None, 'C20-c: an element of phase_helps_for is not a constructed documentation')
        cls_name = con[0].split(':')[-1]
        ph = ident.get(con[1][0].v) if con[1] and isinstance(con[1][0], K) else None
        seen.append(ph)
        key = 'phase_helps_for/%s' % (ph or cls_name)
        norm = lambda s: s.replace('_', '').lower()
        c.expect(ph is not None and norm(cls_name).startswith(norm(ph).replace('configuration', 'configuration')),
                 'C20-c', key + '/documentation-class', 'phase %s is documented by %s' % (ph, cls_name), f.loc())
        if ph == 'ACT':
            continue
        a = con[1][1] if len(con[1]) > 1 else None
        o = a.origin if isinstance(a, Sym) else None
        ok = bool(o) and o[0] == 'call' and o[1] == helper.key and len(o[2]) == 1
        got = util.attr_chain(o[2][0]) if ok else (None, ())
        pr = util.root_sym(got[0]) if got[0] is not None else None
        ok = ok and isinstance(pr, Sym) and pr.origin and pr.origin[0] == 'param' and pr.origin[1] == isp \
             and got[1] == (want_set.get(ph),)
        c.expect(bool(ok), 'C20-c', key + '/instruction-set',
                 'the help of phase %s lists the instructions of %s (expected %s.%s): instructions are shown that the '
                 'phase does not accept / accepted ones are missing' % (
                     ph, '.'.join(got[1]) if got[1] else '?', isp, want_set.get(ph)), f.loc())
    c.expect(seen == ['CONFIGURATION', 'SETUP', 'ACT', 'BEFORE_ASSERT', 'ASSERT', 'CLEANUP'], 'C20-c',
             'phase_helps_for/phases', 'phases documented: %s' % seen, f.loc())
    # every instruction of a set is listed
    r = single_return_expr(helper)
    ok = isinstance(r, ast.Call) and len(r.args) == 1 and '.values()' in unparse(r.args[0]) and 'documentation' in unparse(r.args[0]) \
         and 'filter' not in unparse(r.args[0]) and ' if ' not in unparse(r.args[0])
    c.expect(ok, 'C20-c', '_phase_instruction_set_help', 'the help of a phase does not list the documentation of every '
                                                         'instruction of the set', helper.loc())
    sh = ix.func(TSH + ':_instruction_set_help')
    r = single_return_expr(sh)
    ok = isinstance(r, ast.Call) and len(r.args) == 1 and '.values()' in unparse(r.args[0]) and 'documentation' in unparse(r.args[0]) \
         and 'filter' not in unparse(r.args[0]) and ' if ' not in unparse(r.args[0])
    c.expect(ok, 'C20-c', 'suite/_instruction_set_help', 'the help of the suite configuration section does not list every '
                                                         'instruction', sh.loc())
    # the help is built from the instruction sets the parsers use
    mp = ix.cls(MP + ':MainProgram')
    hf = ix.class_member(mp, '_parse_and_execute_help')
    init = ix.class_member(mp, '__init__')

    class H(Hooks):
        def inline(self, fd, st):
            return False

    it = Interp(ix, fo, H())
    tcd = Sym('test-case-definition')
    tsd = Sym('test-suite-definition')
    given = {}
    for p in init.positional_params()[1:]:
        if p.arg == 'test_case_definition':
            given[p.arg] = tcd
        elif p.arg == 'test_suite_definition':
            given[p.arg] = tsd
    c.require(len(given) == 2, 'C20-c: MainProgram.__init__ parameters not recognised')
    insts = it.instantiate(mp, State(), given)
    c.require(len(insts) == 1, 'C20-c: MainProgram.__init__ has %d paths' % len(insts))
    obj, st = insts[0]
    parse_setup_ok = False
    for e in st.trace:
        if e.kind == 'call' and isinstance(e.data.get('callee'), ClassDef) and e.data['callee'].name == 'TestCaseDefinition':
            a0 = e.data['args'][0] if e.data['args'] else None
            parse_setup_ok = util.attr_chain(a0) == (tcd, ('test_case_parsing_setup',))
    c.expect(parse_setup_ok, 'C20-c', 'MainProgram/parsing-setup',
             'the test case definition used for processing is not built from test_case_definition.test_case_parsing_setup',
             init.loc())
    ok_case = ok_suite = False
    for p in it.run_function(hf, {}, st.fork(), recv=obj):
        for e in p.calls():
            d = e.data.get('callee')
            if isinstance(d, FuncDef) and d.key == AH + ':new_application_help' and len(e.data['args']) >= 2:
                ok_case = util.attr_chain(e.data['args'][0]) == (tcd, ('test_case_parsing_setup', 'instruction_setup'))
                ok_suite = util.attr_chain(e.data['args'][1]) == (tsd, ('configuration_section_instructions',))
    c.expect(ok_case, 'C20-c', 'MainProgram/help-from-parsing-setup',
             'the help is not built from the instruction setup of the parsing setup in use', hf.loc())
    c.expect(ok_suite, 'C20-c', 'MainProgram/suite-help-from-suite-definition',
             'the suite help is not built from the configuration-section instructions of the suite definition', hf.loc())
    nah = ix.func(AH + ':new_application_help')
    ok = False
    for p in util.func_paths(ix, fo, nah, Hooks()):
        calls = {e.data['callee'].name: e for e in p.calls() if isinstance(e.data.get('callee'), FuncDef)}
        pa = [p_.arg for p_ in nah.positional_params()]
        ok = 'test_case_help' in calls and 'test_suite_help' in calls \
             and util.attr_chain(calls['test_case_help'].data['args'][0])[1] == () \
             and util.root_sym(calls['test_case_help'].data['args'][0]).origin[1] == pa[0] \
             and util.root_sym(calls['test_suite_help'].data['args'][0]).origin[1] == pa[1]
    c.expect(ok, 'C20-c', 'new_application_help/plumbing', 'the application help does not hand its instruction sets to the '
                                                           'test-case and suite help', nah.loc())
    # suite definition: one table for parser and help
    sm = ix.module('exactly_lib.cli_default.program_modes.test_suite')
    tsdf = ix.func(sm.name + ':test_suite_definition')
    r = single_return_expr(tsdf)
    np_ = ix.func(sm.name + ':new_parser')
    ok = isinstance(r, ast.Call) and r.args and unparse(r.args[0]) == 'CONFIGURATION_SECTION_INSTRUCTIONS' \
         and 'CONFIGURATION_SECTION_INSTRUCTIONS' in unparse(np_.node) and unparse(r.args[1]) == 'new_parser()'
    c.expect(ok, 'C20-c', 'suite-definition/one-table', 'the suite parser and the suite help do not use the same table', tsdf.loc())
    # suite sections: help lists the sections the reader registers
    def section_consts(node):
        return {n.attr for n in ast.walk(node) if isinstance(n, ast.Attribute) and n.attr.startswith('SECTION_NAME__')}

    helped = section_consts(ix.func(TSH + ':test_suite_help').node)
    rd = ix.module('exactly_lib.test_suite.file_reading.suite_file_reading')
    registered = set()
    for n in ast.walk(rd.tree):
        if isinstance(n, ast.Call) and n.args and isinstance(n.args[0], ast.Attribute) and n.args[0].attr.startswith('SECTION_NAME__') \
                and 'elements_for_section' not in unparse(n.func):
            registered.add(n.args[0].attr)
    c.expect(helped == registered and len(helped) >= 8, 'C20-c', 'suite-sections',
             'sections listed by the suite help %s, sections registered by the suite reader %s' % (sorted(helped), sorted(registered)),
             rd.relpath)


# ---------------------------------------------------------------- d
ONE_SHOT = ('itertools.chain', 'itertools.chain.from_iterable', 'builtins.map', 'builtins.filter', 'builtins.zip',
            'builtins.iter', 'builtins.reversed')


def _flatten_listing(c: Check, m, f, v, depth=0):
    """elements of a listing expression: a list / tuple display, a constant naming one, `a + b`, list(..) / tuple(..)
    / itertools.chain(..) of such"""
    ix = c.ix
    c.require(depth <= 5, 'C20-d: listing too deeply nested in %s' % m.name)
    if isinstance(v, (ast.List, ast.Tuple)):
        out = []
        for e in v.elts:
            if isinstance(e, ast.Starred):
                out.extend(_flatten_listing(c, m, f, e.value, depth + 1))
            else:
                out.append((m, f, e))
        return out
    if isinstance(v, ast.BinOp) and isinstance(v.op, ast.Add):
        return _flatten_listing(c, m, f, v.left, depth + 1) + _flatten_listing(c, m, f, v.right, depth + 1)
    if isinstance(v, (ast.Name, ast.Attribute)):
        d = ix.resolve_static(m, f, v)
        if isinstance(d, VarDef) and isinstance(d.value, (ast.List, ast.Tuple, ast.BinOp, ast.Call)):
            return _flatten_listing(c, d.module, None, d.value, depth + 1)
    if isinstance(v, ast.Call):
        cal = ix.callee(m, f, v)
        if isinstance(cal, External) and cal.dotted in ('builtins.list', 'builtins.tuple') and len(v.args) == 1:
            return _flatten_listing(c, m, f, v.args[0], depth + 1)
        if isinstance(cal, External) and cal.dotted == 'itertools.chain':
            out = []
            for a in v.args:
                out.extend(_flatten_listing(c, m, f, a, depth + 1))
            return out
    raise AnalysisError('C20-d: listing %s in %s is not understood' % (unparse(v)[:60], m.name))


def _is_one_shot(ix: Index, m, f, v) -> bool:
    """the expression gives an iterator that can be traversed only once"""
    if isinstance(v, ast.GeneratorExp):
        return True
    if isinstance(v, ast.Call):
        cal = ix.callee(m, f, v)
        return isinstance(cal, External) and cal.dotted in ONE_SHOT
    return False


def _list_elts(c: Check, d):
    if isinstance(d, VarDef):
        v, m, f = d.value, d.module, None
    else:
        v, m, f = single_return_expr(d), d.module, d
    c.require(v is not None, 'C20-d: %s is not a listing expression' % d.key)
    items = _flatten_listing(c, m, f, v)
    ms = {id(x[0]) for x in items}
    fs = {id(x[1]) for x in items}
    if len(ms) <= 1 and len(fs) <= 1 and items:
        return items[0][0], items[0][1], [x[2] for x in items]
    # elements from several modules: resolve each where it is written (callers resolve by (m, f) of the first; keep
    # the elements only when they can be resolved from there too)
    return m, f, [x[2] for x in items]


def _primary(ix: Index, m, f, e, members, depth=0):
    """the definition constant a documentation object is built for"""
    if depth > 6:
        return None
    if isinstance(e, (ast.Name, ast.Attribute)):
        d = ix.resolve_static(m, f, e)
        if d in members:
            return d
        if isinstance(d, VarDef) and d.value is not None:
            return _primary(ix, d.module, None, d.value, members, depth + 1)
        return None
    if isinstance(e, ast.Call):
        for a in e.args:
            if isinstance(a, (ast.Name, ast.Attribute)):
                r = _primary(ix, m, f, a, members, depth + 1)
                if r is not None:
                    return r
        cal = ix.callee(m, f, e)
        if isinstance(cal, ClassDef):
            init = ix.class_member(cal, '__init__')
            if isinstance(init, FuncDef):
                for n in ast.walk(init.node):
                    if isinstance(n, ast.Call) and isinstance(n.func, ast.Attribute) and n.func.attr == '__init__':
                        for a in n.args:
                            if isinstance(a, (ast.Name, ast.Attribute)):
                                r = _primary(ix, init.module, init, a, members, depth + 1)
                                if r is not None:
                                    return r
        if isinstance(cal, FuncDef):
            r = single_return_expr(cal)
            if r is not None:
                return _primary(ix, cal.module, cal, r, members, depth + 1)
    return None


def clause_d(c: Check):
    ix, fo = c.ix, c.fo
    defs = {}
    for kind, dl, hl in ENTITY_KINDS:
        dd = ix.lookup(dl)
        m, f, elts = _list_elts(c, dd)
        members = [ix.resolve_static(m, f, e) for e in elts]
        c.require(all(isinstance(x, VarDef) for x in members), 'C20-d: members of %s are not module constants' % dl)
        defs[kind] = members
        hd = ix.lookup(hl)
        hm, hf, helts = _list_elts(c, hd)
        documented = []
        for e in helts:
            p = _primary(ix, hm, hf, e, members)
            c.expect(p is not None, 'C20-d', '%s/help-entry/%s' % (kind, unparse(e)[:60]),
                     'the help entry %s is not built for one of the defined %s' % (unparse(e)[:60], kind),
                     '%s:%d' % (hm.relpath, e.lineno))
            if p is not None:
                documented.append(p)
        for mem in members:
            c.expect(mem in documented, 'C20-d', '%s/documented/%s' % (kind, mem.name),
                     '%s is defined (and accepted by the program) but the help list of %s has no entry for it' % (mem.name, kind),
                     hm.relpath)
        c.expect(len(documented) == len(set(documented)), 'C20-d', '%s/no-duplicate-entries' % kind,
                 'the help list of %s documents a constant twice' % kind, hm.relpath)
    c.floor('C20-d', 'entity kinds compared', len(defs), 5)
    # a listing that is traversed more than once (once per partition / per rendering) must be traversable more than
    # once: a help listing that is a one-shot iterator (itertools.chain, map, filter, a generator) is only all right
    # when the record that holds the entities of a type materialises it
    from ..fold import tuple_record_elements
    eth = ix.cls('exactly_lib.help.contents_structure.entity:EntityTypeHelp')
    tre = tuple_record_elements(ix, eth)
    c.require(tre is not None, 'C20-d: EntityTypeHelp is not a tuple record')
    newf, elts = tre
    stored = [e for e in elts if any(isinstance(x, ast.Name) and x.id == 'entities' for x in ast.walk(e))]
    c.require(len(stored) == 1, 'C20-d: the entities element of EntityTypeHelp not found')
    se = stored[0]
    materialised = isinstance(se, ast.Call) and isinstance(ix.callee(newf.module, newf, se), External) \
                   and ix.callee(newf.module, newf, se).dotted in ('builtins.list', 'builtins.tuple', 'builtins.sorted')
    for kind, dl, hl in ENTITY_KINDS:
        hd = ix.lookup(hl)
        v = hd.value if isinstance(hd, VarDef) else single_return_expr(hd)
        one_shot = _is_one_shot(ix, hd.module, hd if isinstance(hd, FuncDef) else None, v)
        c.expect(materialised or not one_shot, 'C20-d', '%s/listing-can-be-traversed-again' % kind,
                 'the help listing of %s is a one-shot iterator (%s) and EntityTypeHelp keeps it as given: the first '
                 'traversal (the first partition of `help %s`, the first chapter of the manual) drains it and the rest '
                 'of the entries vanish' % (kind, unparse(v)[:50], kind.split()[0]), hd.loc() if hasattr(hd, 'loc') else hd.module.relpath,
                 detail='materialised by the record' if materialised else 're-iterable listing')
    # entity type registry of the help
    f = ix.func(AH + ':entity_name_2_entity_configuration')
    r = single_return_expr(f)
    c.require(isinstance(r, ast.Dict), 'C20-d: entity_name_2_entity_configuration is not a literal table')
    keys = []
    for k, v in zip(r.keys, r.values):
        kn = unparse(k)
        vn = unparse(v.func) if isinstance(v, ast.Call) else unparse(v)
        pre = kn.replace('_ENTITY_TYPE_NAMES.identifier', '')
        keys.append(pre)
        c.expect(kn.endswith('_ENTITY_TYPE_NAMES.identifier') and pre.lower() in vn.lower().replace('symbols', 'symbol'),
                 'C20-d', 'entity-configuration/' + pre, 'entity type %s is configured by %s' % (kn, vn), f.loc())
    am = ix.module(DE + 'all_entity_types')
    allv = am.defs.get('ALL_ENTITY_TYPES_IN_DISPLAY_ORDER')
    names = [unparse(e).replace('_ENTITY_TYPE_NAMES', '') for e in allv.value.elts] if allv is not None else []
    c.expect(sorted(names) == sorted(keys) and len(keys) == len(set(keys)) and len(keys) >= 8, 'C20-d', 'entity-types',
             'entity types with a help configuration %s, entity types defined %s' % (sorted(keys), sorted(names)), f.loc())
    idents = [fo.record_attr(fo.fold_var(am.defs[n + '_ENTITY_TYPE_NAMES']), 'identifier') if n + '_ENTITY_TYPE_NAMES' in am.defs else None
              for n in names]
    c.expect(all(isinstance(i, str) for i in idents) and len(set(idents)) == len(idents), 'C20-d', 'entity-type-identifiers',
             'entity type identifiers are not distinct strings: %s' % idents, am.relpath)
    # what the program accepts: types of def
    tm = ix.module('exactly_lib.impls.instructions.multi_phase.define_symbol.type_setup')
    tl = tm.defs.get('TYPE_SETUPS_LIST')
    c.require(tl is not None and isinstance(tl.value, (ast.List, ast.Tuple)), 'C20-d: TYPE_SETUPS_LIST is not a literal list')
    accepted = []
    for e in tl.value.elts:
        a0 = e.args[0] if isinstance(e, ast.Call) and e.args else None
        accepted.append(ix.resolve_static(tm, None, a0) if a0 is not None else None)
    for mem in defs['types']:
        c.expect(mem in accepted, 'C20-d', 'types/accepted/' + mem.name,
                 'type %s is documented but `def` has no setup for it' % mem.name, tm.relpath)
    c.expect(len(accepted) == len(defs['types']) and all(a in defs['types'] for a in accepted), 'C20-d', 'types/accepted-are-documented',
             '`def` accepts %d types, %d are defined and documented' % (len(accepted), len(defs['types'])), tm.relpath)
    # suite reporters
    ap = ix.module('exactly_lib.cli.program_modes.test_suite.argument_parsing')
    keys = None
    for n in ast.walk(ap.tree):
        if isinstance(n, ast.Assign) and unparse(n.targets[0]).endswith('reporter_name_2_reporter') and isinstance(n.value, ast.Dict):
            keys = [ix.resolve_static(ap, ap.enclosing_func(n), k.value) if isinstance(k, ast.Attribute) else None for k in n.value.keys]
    c.require(keys is not None, 'C20-d: reporter_name_2_reporter table not found')
    c.expect(sorted(k.name for k in keys if k is not None) == sorted(m_.name for m_ in defs['suite reporters']) and None not in keys,
             'C20-d', 'suite-reporters/accepted', 'the suite command accepts reporters %s, documented %s' % (
                 [getattr(k, 'name', None) for k in keys], [m_.name for m_ in defs['suite reporters']]), ap.relpath)
    # configuration parameters <-> instructions of the configuration phase
    cm, entries = _table_entries(c, PH + 'configuration', 'INSTRUCTIONS')
    instr = sorted(fo.fold(cm, None, n) for n, s in entries)
    params = []
    for mem in defs['configuration parameters']:
        rec = fo.fold_var(mem)
        v = fo.record_attr(rec, 'configuration_parameter_name') if isinstance(rec, Record) else None
        params.append(v)
    if all(isinstance(p, str) for p in params):
        c.expect(sorted(params) == instr, 'C20-d', 'configuration-parameters/instructions',
                 'configuration parameters documented %s, instructions of [conf] %s' % (sorted(params), instr), cm.relpath)
    else:
        c.note('configuration parameter names do not fold (%s): the agreement with the [conf] instructions is not decided' % params)


# ---------------------------------------------------------------- e
def clause_e(c: Check):
    ix, fo = c.ix, c.fo
    vis = ix.cls(CR + ':CrossReferenceTargetVisitor')
    visit = ix.class_member(vis, 'visit')
    routed = {}
    for n in walk_own(visit.node):
        if isinstance(n, ast.If) and isinstance(n.test, ast.Call) and unparse(n.test.func) == 'isinstance':
            d = ix.resolve_static(visit.module, visit, n.test.args[1])
            r = util.block_return(visit, n.body)
            if isinstance(d, ClassDef) and isinstance(r, ast.Call) and isinstance(r.func, ast.Attribute):
                routed[d.key] = r.func.attr
    base = ix.cls(CORE + ':CrossReferenceTarget')
    concrete = [k for k in ix.subclasses_of(base) if not ix.subclasses_of(k) and k.module.name.startswith('exactly_lib.')]
    for k in concrete:
        handled = any(ix.is_subclass(k, ix.lookup(r)) or k.key == r for r in routed)
        c.expect(handled, 'C20-e', 'visitor/handles/' + k.name, 'cross-reference target %s is not handled by the visitor' % k.name,
                 visit.loc())
    c.floor('C20-e', 'concrete cross-reference target classes', len(concrete), 6)
    methods = sorted(set(routed.values()))
    c.expect(len(methods) == len(routed), 'C20-e', 'visitor/one-method-per-kind', 'two target kinds share a visit method: %s' % routed,
             visit.loc())
    impls = [k for k in ix.subclasses_of(vis)]
    for k in impls:
        for mname in methods:
            f = ix.class_member(k, mname)
            ok = isinstance(f, FuncDef) and f.cls is not vis and not util.is_abstract_body(f)
            c.expect(ok, 'C20-e', 'visitor-impl/%s.%s' % (k.name, mname), '%s does not implement %s' % (k.name, mname), k.loc())
    c.floor('C20-e', 'cross-reference visitors', len(impls), 3)
    tab = fo.fold_path('exactly_lib.help.render.cross_reference:_PREDEFINED_PART_TITLE')
    parts = fo.enum_members(ix.cls(CR + ':HelpPredefinedContentsPart'))
    ok = isinstance(tab, dict) and {k.name for k in tab if isinstance(k, EnumMember)} == set(parts)
    c.expect(ok, 'C20-e', '_PREDEFINED_PART_TITLE', 'titles of the predefined help parts are not total over the parts', CR)
    # id prefixes of the HTML target kinds are pairwise distinct and prefix free
    htr = ix.cls('exactly_lib.help.html_doc.cross_ref_target_renderer:HtmlTargetRenderer')
    prefixes = {}
    for mname in methods:
        if mname == 'visit_url':
            continue
        f = ix.class_member(htr, mname)
        r = single_return_expr(f) if isinstance(f, FuncDef) else None
        pre = None
        node = r
        while isinstance(node, ast.BinOp) and isinstance(node.op, (ast.Add, ast.Mod)):
            node = node.left
        if isinstance(node, ast.Constant) and isinstance(node.value, str):
            pre = node.value.split('%')[0]
            if isinstance(r, ast.BinOp) and isinstance(r.op, ast.Add):
                # 'entity' + '.' + ...: join the leading constants
                parts_, n2 = [], r
                flat = []
                def flatten(x):
                    if isinstance(x, ast.BinOp) and isinstance(x.op, ast.Add):
                        flatten(x.left); flatten(x.right)
                    else:
                        flat.append(x)
                flatten(r)
                pre = ''
                for x in flat:
                    if isinstance(x, ast.Constant) and isinstance(x.value, str):
                        pre += x.value
                    else:
                        break
        c.expect(bool(pre) and pre.endswith('.'), 'C20-e', 'html-id-prefix/' + mname,
                 'ids of %s targets do not start with a constant kind prefix (%r)' % (mname[6:], pre), htr.loc())
        if pre:
            prefixes[mname] = pre
    ps = sorted(prefixes.items())
    clash = [(a, b) for i, (a, pa) in enumerate(ps) for (b, pb) in ps[i + 1:] if pa.startswith(pb) or pb.startswith(pa)]
    c.expect(not clash, 'C20-e', 'html-id-prefixes-distinct', 'two kinds of target can give the same anchor id: %s (%s)' % (clash, prefixes),
             htr.loc())


# ---------------------------------------------------------------- f
def clause_f(c: Check):
    """anchors and references of the HTML manual: one function of the target on both sides"""
    ix, fo = c.ix, c.fo
    n_id = 0
    for modname in ix.all_module_names():
        if not modname.startswith(HTML):
            continue
        m = ix.module(modname)
        for node in ast.walk(m.tree):
            val = None
            if isinstance(node, ast.Assign) and len(node.targets) == 1 and isinstance(node.targets[0], ast.Subscript) \
                    and isinstance(node.targets[0].slice, ast.Constant) and node.targets[0].slice.value == 'id':
                val = node.value
            elif isinstance(node, ast.Call) and isinstance(node.func, ast.Attribute) and node.func.attr == 'set' and len(node.args) == 2 \
                    and isinstance(node.args[0], ast.Constant) and node.args[0].value == 'id':
                val = node.args[1]
            if val is None:
                continue
            n_id += 1
            f = m.enclosing_func(node)
            v = val
            if isinstance(v, ast.Name) and f is not None:
                bs = [b for b in f.local_bindings().get(v.id, []) if b[0] == 'assign']
                v = bs[0][1] if len(bs) == 1 else v
            ok = isinstance(v, ast.Call) and isinstance(v.func, ast.Attribute) and v.func.attr == 'apply' \
                 and unparse(v.func.value).endswith('target_renderer') and len(v.args) == 1
            c.expect(ok, 'C20-f', 'anchor-id@%s' % (f.key if f else modname),
                     'the id attribute of an anchor is %s, not the plain rendering target_renderer.apply(target): a '
                     'reference to that target (href = "#" + target_renderer.apply(target)) no longer finds it' % unparse(val),
                     '%s:%d' % (m.relpath, node.lineno))
    c.floor('C20-f', 'anchor id sites in the HTML renderer', n_id, 2)
    ts = ix.func(HTML + '.text:TextRenderer._target_str') if ix.try_lookup(HTML + '.text:TextRenderer._target_str') else None
    if ts is None:
        tm = ix.module(HTML + '.text')
        cands = [f for f in tm.all_funcs if f.name == '_target_str']
        c.require(len(cands) == 1, 'C20-f: _target_str of the HTML text renderer not found')
        ts = cands[0]
    ok = False
    seen = set()
    for p in util.func_paths(ix, fo, ts, Hooks()):
        g = [e.data for e in p.trace if e.kind == 'guard']
        same_doc = [truth for t, truth in g if isinstance(t, ast.Attribute) and t.attr == 'target_is_id_in_same_document']
        applies = [e for e in p.calls() if isinstance(e.node.func, ast.Attribute) and e.node.func.attr == 'apply']
        if len(applies) != 1 or not same_doc or p.kind != 'return':
            continue
        res = util.root_sym(applies[0].data['args'][0]) if applies[0].data['args'] else None
        rendered = None
        for x in [p.val]:
            rendered = x
        tgt_ok = util.attr_chain(applies[0].data['args'][0])[1] == ('target',)
        if same_doc[0]:
            o = p.val.origin if isinstance(p.val, Sym) else None
            good = tgt_ok and bool(o) and o[0] == 'op' and isinstance(p.val.node, ast.BinOp) and isinstance(o[2][0], K) \
                   and o[2][0].v == '#' and isinstance(o[2][1], Sym) and o[2][1].origin[0] == 'call' \
                   and o[2][1].origin[5] == p.trace.index(applies[0])
            seen.add('same-document')
        else:
            o = p.val.origin if isinstance(p.val, Sym) else None
            good = tgt_ok and bool(o) and o[0] == 'call' and o[5] == p.trace.index(applies[0])
            seen.add('external')
        c.expect(good, 'C20-f', 'href/%s' % ('same-document' if same_doc[0] else 'external'),
                 'the href of a reference %s is not %starget_renderer.apply(its target)' % (
                     'inside the document' if same_doc[0] else 'to another document', '"#" + ' if same_doc[0] else ''), ts.loc())
    c.expect(seen == {'same-document', 'external'}, 'C20-f', 'href/cases', 'href cases analysed: %s' % sorted(seen), ts.loc())
    # URL targets are never in-document ids
    crt = ix.cls(CORE + ':CrossReferenceText')
    url = ix.cls(CORE + ':UrlCrossReferenceTarget')
    n_url = 0
    for s in util.call_sites_of(ix, url):
        fkey = s.where
        f = ix.try_lookup(fkey)
        if not isinstance(f, FuncDef):
            continue

        class H(Hooks):
            def inline(self, fd, st):
                return fd.module.name == 'exactly_lib.util.textformat.structure.structures'

        for p in util.func_paths(ix, fo, f, H()):
            for e in p.calls():
                if e.data.get('callee') == crt:
                    args = e.data['args']
                    kw = e.data['kwargs']
                    tgt = args[1] if len(args) > 1 else kw.get('target')
                    con = util.constructed(ix, tgt) if tgt is not None else None
                    if con is None or con[0] != url.key:
                        continue
                    n_url += 1
                    flag = kw.get('target_is_id_in_same_document', args[2] if len(args) > 2 else None)
                    c.expect(isinstance(flag, K) and flag.v is False, 'C20-f', 'url-reference@' + fkey,
                             'a reference to a URL is built with target_is_id_in_same_document=%s: it is rendered as '
                             'href="#<url>", a dead link' % (util.describe(flag) if flag is not None else 'default (True)'),
                             s.loc)
    c.floor('C20-f', 'URL references analysed', n_url, 1)
    init = ix.class_member(crt, '__init__')
    dflt = {p.arg: d for p, d in zip(init.positional_params()[len(init.positional_params()) - len(init.node.args.defaults):],
                                     init.node.args.defaults)}
    c.note('CrossReferenceText default target_is_id_in_same_document=%s' % (unparse(dflt.get('target_is_id_in_same_document'))
                                                                           if dflt.get('target_is_id_in_same_document') is not None else None))


# ---------------------------------------------------------------- g
def clause_g(c: Check):
    """DT of the help request router over the folded keyword tables: `help PHASE` is the help of that phase,
    `help PHASE NAME` the instruction of that phase, `help ENTITY-TYPE ...` the entity help - evaluated for every phase
    name and every entity type identifier with the real tables (an entity type id that is an extension of a phase
    name - `confparam` / `conf`, `actor` / `act` - must not capture the request of the phase)"""
    ix, fo = c.ix, c.fo
    AP = 'exactly_lib.cli.program_modes.help.argument_parsing'
    P = ix.cls(AP + ':Parser')
    ap = ix.class_member(P, 'apply')
    am = ix.module(DE + 'all_entity_types')
    allv = am.defs.get('ALL_ENTITY_TYPES_IN_DISPLAY_ORDER')
    c.require(allv is not None, 'C20-g: ALL_ENTITY_TYPES_IN_DISPLAY_ORDER not found')
    ent_ids = []
    for e in allv.value.elts:
        rec = fo.fold(am, None, e)
        v = fo.record_attr(rec, 'identifier') if isinstance(rec, Record) else None
        c.require(isinstance(v, str), 'C20-g: entity type identifier of %s does not fold' % unparse(e))
        ent_ids.append(v)
    pi = 'exactly_lib.test_case.phase_identifier'
    phases = []
    for en in ('CONFIGURATION', 'SETUP', 'ACT', 'BEFORE_ASSERT', 'ASSERT', 'CLEANUP'):
        rec = fo.fold_path(pi + ':' + en)
        v = fo.record_attr(rec, 'section_name') if isinstance(rec, Record) else None
        c.require(isinstance(v, str), 'C20-g: section name of phase %s does not fold' % en)
        phases.append(v)
    c.expect(not (set(ent_ids) & set(phases)), 'C20-g', 'keywords/entity-types-vs-phases',
             'an entity type identifier is also a phase name: %s' % sorted(set(ent_ids) & set(phases)), am.relpath)
    tc_req = None
    item_phase = None

    class H(Hooks):
        loop_bound = 1

        def inline(self, fd, st):
            return fd.cls is P and fd.name.startswith('_') and not fd.name.startswith('_parse') \
                and not fd.name.startswith('_lookup')

    def run(args):
        it = Interp(ix, fo, H())
        st = State()
        obj = it.new_obj(P)
        ah = it.new_obj(ix.cls('exactly_lib.help.contents_structure.application:ApplicationHelp'))
        st.heap[(obj.oid, 'application_help')] = ah
        st.heap[(ah.oid, 'entity_type_id_2_entity_type_conf')] = K({k: 'conf-of-' + k for k in ent_ids})
        tch = it.new_obj(ix.cls('exactly_lib.help.program_modes.test_case.contents_structure.test_case_help:TestCaseHelp'))
        st.heap[(ah.oid, 'test_case_help')] = tch
        st.heap[(tch.oid, 'phase_name_2_phase_help')] = K({p_: 'help-of-' + p_ for p_ in phases})
        return it.run_function(ap, {ap.positional_params()[1].arg: ListVal([K(a) for a in args])}, st, recv=obj)

    def route_of(p):
        if p.kind != 'return':
            return ('raises', util.describe(p.val))
        con = util.constructed(ix, p.val)
        if con is not None:
            def show(a):
                if isinstance(a, K):
                    return a.v.name if isinstance(a.v, EnumMember) else a.v
                ch = util.attr_chain(a)[1]
                return ch[-1] if ch else '?'

            return (con[0].split(':')[-1],) + tuple(show(a) for a in con[1][:2])
        o = p.val.origin if isinstance(p.val, Sym) else None
        if o and o[0] == 'call':
            return (o[1].split('.')[-1].split(':')[-1],) + tuple(a.v if isinstance(a, K) else '?' for a in o[2][:2])
        return ('?', util.describe(p.val))

    n = 0
    for ph in phases:
        routes = {route_of(p) for p in run([ph])}
        n += 1
        c.expect(routes == {('TestCaseHelpRequest', 'PHASE', ph)}, 'C20-g', 'route/help-%s' % ph,
                 '`help %s` is routed to %s (expected the help of phase %s)' % (ph, sorted(routes), ph), ap.loc())
        routes = {route_of(p) for p in run([ph, 'some-instruction'])}
        n += 1
        c.expect(routes == {('Parser._parse_instruction_in_phase', ph, 'some-instruction')}, 'C20-g',
                 'route/help-%s-INSTRUCTION' % ph,
                 '`help %s INSTRUCTION` is routed to %s (expected the instruction of phase %s)' % (ph, sorted(routes), ph),
                 ap.loc())
    for e in ent_ids:
        routes = {route_of(p)[:2] for p in run([e])}
        n += 1
        c.expect(routes == {('Parser._parse_entity_help', e)}, 'C20-g', 'route/help-%s' % e,
                 '`help %s` is routed to %s (expected the entity help of %s)' % (e, sorted(routes), e), ap.loc())
    c.floor('C20-g', 'help requests routed', n, 20)


# ---------------------------------------------------------------- h
def clause_h(c: Check):
    """every entity type is rendered exactly once in the HTML manual: the types rendered inside the test-case /
    test-suite chapters are exactly the ones the general entity chapter excludes - decided with the folded tables
    and the filter of _entity_sections (key attribute compared with the *kind of value* the exclusion list holds)"""
    ix, fo = c.ix, c.fo
    HM = 'exactly_lib.help.html_doc.main'
    m = ix.module(HM)
    gen = ix.func(HM + ':_generator')
    cs = ix.func(HM + ':_case_and_suite_sections')
    es = ix.func(HM + ':_entity_sections')
    am = ix.module(DE + 'all_entity_types')
    allv = am.defs.get('ALL_ENTITY_TYPES_IN_DISPLAY_ORDER')
    recs = [fo.fold(am, None, e) for e in allv.value.elts]
    c.require(all(isinstance(r, Record) for r in recs), 'C20-h: entity type records do not fold')
    all_ids = [fo.record_attr(r, 'identifier') for r in recs]
    # rendered inside the chapters
    inside = []
    for n in ast.walk(cs.node):
        if isinstance(n, ast.Call) and isinstance(n.func, ast.Attribute) and n.func.attr == 'entity_type_conf_for' and n.args:
            v = fo.fold(m, cs, n.args[0])
            c.require(isinstance(v, str), 'C20-h: argument of entity_type_conf_for does not fold: %s' % unparse(n.args[0]))
            inside.append(v)
    # the exclusion list given to _entity_sections
    excl = None
    for n in ast.walk(gen.node):
        if isinstance(n, ast.Call) and ix.callee(m, gen, n) == es:
            b = {kw.arg: kw.value for kw in n.keywords}
            names = [p.arg for p in es.positional_params()]
            for i, a in enumerate(n.args):
                b[names[i]] = a
            lst = b.get(names[1])
            if isinstance(lst, (ast.List, ast.Tuple)):
                excl = [fo.fold(m, gen, e) for e in lst.elts]
    c.require(excl is not None and not any(is_unknown(x) for x in excl), 'C20-h: the exclusion list of _entity_sections does not fold')
    # the filter: which attribute of an entity type is looked up in the exclusion list
    key_attr = None
    for n in ast.walk(es.node):
        if isinstance(n, ast.Compare) and len(n.ops) == 1 and isinstance(n.ops[0], (ast.NotIn, ast.In)) \
                and isinstance(n.comparators[0], ast.Name) and n.comparators[0].id == es.positional_params()[1].arg:
            if isinstance(n.left, ast.Attribute):
                key_attr = n.left.attr
            elif isinstance(n.left, ast.Name):
                key_attr = ''
    c.require(key_attr is not None, 'C20-h: the filter of _entity_sections is not a membership test in the exclusion list')
    kept = []
    for r, ident in zip(recs, all_ids):
        key = fo.record_attr(r, key_attr) if key_attr else r
        present = any((type(x) is type(key)) and x == key for x in excl)
        if not present:
            kept.append(ident)
    twice = sorted(set(kept) & set(inside))
    never = sorted(set(all_ids) - set(kept) - set(inside))
    c.expect(not twice, 'C20-h', 'entity-chapters/rendered-once',
             'entity types %s are rendered inside the test-case / test-suite chapters and again in the entity chapter '
             '(the exclusion list holds %s, the filter looks up %s): their anchors exist twice' % (
                 twice, sorted({type(x).__name__ for x in excl}), 'the ' + key_attr if key_attr else 'the object'), es.loc())
    c.expect(not never, 'C20-h', 'entity-chapters/all-rendered', 'entity types %s are rendered nowhere in the manual' % never, es.loc())
    c.floor('C20-h', 'entity types placed in the manual', len(all_ids), 8)


# ---------------------------------------------------------------- j
def clause_j(c: Check):
    """EVAL of the name lookup behind `help PHASE NAME`, `help suite SECTION NAME`, `help ENTITY-TYPE NAME`
    (util.value_lookup.lookup) over explicit lists of 1-3 symbolic (key, value) pairs and every way the pattern can
    relate to each key (no match / sub string / identical; at most one identical): an identical key wins wherever it
    stands in the list, otherwise a single sub-string match is the result, none is NoMatchError, several are
    MultipleMatchesError.  A name that is also part of an earlier name (`home` / `act-home`, `STRING` /
    `RICH-STRING`) must still be found."""
    import itertools
    ix, fo = c.ix, c.fo
    VL = 'exactly_lib.util.value_lookup'
    lk = ix.func(VL + ':lookup')
    match_cls = ix.cls(VL + ':Match')
    no_match = ix.cls(VL + ':NoMatchError')
    multi = ix.cls(VL + ':MultipleMatchesError')
    # users: the help argument lookup goes through it
    users = [s_ for s_ in util.call_sites_of(ix, lk)]
    c.floor('C20-j', 'users of value_lookup.lookup', len(users), 1)
    n_worlds = 0
    pk, pv = [p_.arg for p_ in lk.positional_params()[:2]]
    for n in ((1, 2, 3, 4) if c.tier == 'thorough' else (1, 2, 3)):
        for world in itertools.product(('none', 'sub', 'exact'), repeat=n):
            if world.count('exact') > 1:
                continue
            n_worlds += 1
            keys = [Sym('key%d' % i, origin=('key', i)) for i in range(n)]
            vals = [Sym('value%d' % i, origin=('value', i)) for i in range(n)]
            pattern = Sym('pattern', origin=('pattern',))

            def norm(v):
                # the (possibly case-normalised) key / pattern a value stands for
                seen = 0
                while isinstance(v, Sym) and seen < 6:
                    seen += 1
                    o = util.root_sym(v).origin
                    if o and o[0] in ('key', 'pattern'):
                        return o
                    if o and o[0] == 'normalised':
                        v = o[1]
                        continue
                    return None
                return None

            class H(Hooks):
                loop_bound = 5

                def on_call(self, interp, node, callee, callee_def, args, kwargs, st):
                    if isinstance(node.func, ast.Attribute) and node.func.attr in ('upper', 'lower', 'casefold') and not args:
                        recv = None
                        if isinstance(callee, Sym) and callee.origin and callee.origin[0] == 'attr':
                            recv = callee.origin[1]
                        if recv is not None and norm(recv) is not None:
                            return [('val', Sym('normalised', origin=('normalised', recv), truth=None), st)]
                    return None

                def on_compare(self, interp, op, l, r, st, test, world=world):
                    a, b = norm(l), norm(r)
                    if a is None or b is None:
                        return None
                    neg = isinstance(op, (ast.NotEq, ast.NotIn))
                    if isinstance(op, (ast.Eq, ast.NotEq)):
                        if {a[0], b[0]} != {'key', 'pattern'}:
                            return None
                        i = a[1] if a[0] == 'key' else b[1]
                        return (world[i] == 'exact') != neg
                    if isinstance(op, (ast.In, ast.NotIn)) and a[0] == 'pattern' and b[0] == 'key':
                        return (world[b[1]] in ('sub', 'exact')) != neg
                    return None

            it = Interp(ix, fo, H())
            pairs = ListVal([ListVal([k, v], True) for k, v in zip(keys, vals)])
            paths = it.run_function(lk, {pk: pattern, pv: pairs})
            c.count(len(paths))
            if 'exact' in world:
                j = world.index('exact')
                want = ('match', j, True)
            else:
                subs = [i for i, w in enumerate(world) if w == 'sub']
                want = ('none',) if not subs else (('match', subs[0], False) if len(subs) == 1 else ('multiple',))
            got = set()
            for p in paths:
                if p.kind == 'raise':
                    cls_ = p.val.cls if isinstance(p.val, Exc) else None
                    got.add(('none',) if cls_ == no_match else ('multiple',) if cls_ == multi else ('raises', util.describe(p.val)))
                    continue
                con = util.constructed(ix, p.val)
                if con is None or con[0] != match_cls.key:
                    got.add(('?', util.describe(p.val)))
                    continue
                by = con[3]
                k_, v_, e_ = by.get('key'), by.get('value'), by.get('is_exact_match')
                ko = util.root_sym(k_).origin if isinstance(k_, Sym) else None
                vo = util.root_sym(v_).origin if isinstance(v_, Sym) else None
                if ko and vo and ko[0] == 'key' and vo[0] == 'value' and ko[1] == vo[1] and isinstance(e_, K):
                    got.add(('match', ko[1], e_.v))
                else:
                    got.add(('?', util.describe(k_), util.describe(v_), util.describe(e_)))
            c.expect(got == {want}, 'C20-j', 'lookup/' + '-'.join(world),
                     'looking up a name that relates to the keys of the list as %s gives %s (documented: %s)' % (
                         list(world), sorted(got, key=str), want), lk.loc())
    c.floor('C20-j', 'key lists the name lookup is evaluated on', n_worlds, 30)


# ---------------------------------------------------------------- k
def clause_k(c: Check):
    """TAB the predefined parts of the manual (test case / suite specification, the three CLI pages): every member of
    HelpPredefinedContentsPart is the FIXED ROOT TARGET of exactly one section (`with_fixed_root_target(<reference to the
    member>, ..)`) - none twice (an anchor that exists twice), none never (every link to it is dead)."""
    ix, fo = c.ix, c.fo
    enum_cls = ix.cls('exactly_lib.definitions.cross_ref.concrete_cross_refs:HelpPredefinedContentsPart')
    ref_cls = ix.cls('exactly_lib.definitions.cross_ref.concrete_cross_refs:PredefinedHelpContentsPartReference')
    members = fo.enum_members(enum_cls)
    used = {}
    n_sites = 0
    for name in ix.all_module_names():
        if 'with_fixed_root_target' not in ix.text(name):
            continue
        m = ix.module(name)
        for n in ast.walk(m.tree):
            if isinstance(n, ast.Call) and isinstance(n.func, (ast.Attribute, ast.Name)) and \
                    (n.func.attr if isinstance(n.func, ast.Attribute) else n.func.id) == 'with_fixed_root_target' and n.args:
                f = m.enclosing_func(n)
                a = util.resolve_temp(f, n.args[0]) if f is not None else n.args[0]
                if isinstance(a, ast.Call) and ix.callee(m, f, a) is ref_cls and a.args:
                    n_sites += 1
                    v = fo.fold(m, f, a.args[0])
                    if isinstance(v, EnumMember):
                        used.setdefault(v.name, []).append('%s:%d' % (m.relpath, n.lineno))
                    else:
                        c.require(False, 'C20-k: the predefined part of %s:%d does not fold' % (m.relpath, n.lineno))
    for mem in sorted(members):
        sites = used.get(mem, [])
        c.expect(len(sites) == 1, 'C20-k', 'predefined-part-target/%s' % mem,
                 'the predefined part %s is the fixed root target of %d sections (%s): %s' % (
                     mem, len(sites), ', '.join(sites) or 'none',
                     'its anchor exists more than once' if len(sites) > 1 else 'every link to it is dead'),
                 sites[0] if sites else enum_cls.loc())
    c.floor('C20-k', 'sections with a predefined part as fixed root target', n_sites, 4)


# ---------------------------------------------------------------- l
def clause_l(c: Check):
    """TS `help PHASE NAME` / `help suite SECTION NAME`: when NAME is not an instruction of that phase / section (the
    lookup in the instruction set of THAT phase fails) the request fails - it is never answered with something found
    elsewhere (the help would list, for a phase, an instruction the phase does not accept)."""
    ix, fo = c.ix, c.fo
    AP = 'exactly_lib.cli.program_modes.help.argument_parsing'
    P = ix.cls(AP + ':Parser')
    he = ix.cls(AP + ':HelpError') if ix.try_lookup(AP + ':HelpError') is not None else None
    if he is None:
        d = ix.resolve_static(ix.module(AP), None, ast.parse('HelpError', mode='eval').body)
        he = d if isinstance(d, ClassDef) else None
    c.require(he is not None, 'C20-l: HelpError not found')
    lookup_names = ('lookup_argument__dict', 'lookup_argument')
    n = 0
    for mname in ('_parse_instruction_in_phase', '_parse_suite_help'):
        m = ix.class_member(P, mname)
        c.require(isinstance(m, FuncDef), 'C20-l: Parser.%s not found' % mname)

        class H(Hooks):
            loop_bound = 1

            def inline(self, fd, st):
                return False

            def may_raise(self, callee_def, node, st):
                if isinstance(callee_def, FuncDef) and callee_def.name in lookup_names:
                    return [he]
                return []

        it = Interp(ix, fo, H())
        for p in it.run_function(m, {}):
            raised_by_lookup = any(e.kind == 'raised' for e in p.trace)
            if not raised_by_lookup:
                continue
            n += 1
            c.expect(p.kind == 'raise', 'C20-l', '%s/unknown-name-fails' % mname,
                     'when the name is not found in the instruction set of the phase / section the request is answered '
                     'with %s instead of failing' % (util.describe(p.val) if p.kind == 'return' else p.kind), m.loc())
    c.floor('C20-l', 'paths with a failed lookup in the phase / section', n, 1)
