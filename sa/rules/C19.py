"""C19 Timeouts are enforced on every OS process (DESIGN.md section 5, clauses a-f)."""
import ast
from typing import List, Optional

from ..core import Index, FuncDef, ClassDef, External, AnalysisError, unparse, walk_own, dotted_name, parent
from ..fold import Folder, Record, EnumMember, Ref, is_unknown
from ..absint import Interp, Hooks, State, K, Sym, Obj, Exc, NONE
from ..report import Check
from .. import util
from .common import ForkHooks, labels_of, check_record
from .common import check_zero_is_a_value
from .C03 import process_start_sites, ALLOWED_PROCESS_START

PE = 'exactly_lib.util.process_execution.process_executor'
EE = 'exactly_lib.util.process_execution.execution_elements'
CE = 'exactly_lib.impls.program_execution.impl.cmd_exe_from_proc_exe'
EXECUTOR_MOD = 'exactly_lib.execution.partial_execution.impl.executor'

# primitives of the standard library that kill and reap the child when `timeout=` expires (trusted base)
KILLING_PRIMITIVES = {'subprocess.call', 'subprocess.run', 'subprocess.check_call', 'subprocess.check_output'}
TIMEOUT_DROPPING_FACTORIES = {'with_environ', 'with_empty_environ', 'null'}


def check(c: Check):
    c.explanation = (
        'Who-may-call analysis of process start primitives (closed world), plumbing and exception-path analysis of '
        'the single process-start site and its wrapper (timeout argument taken from the settings; TimeoutExpired -> '
        'HARD_ERROR), closed-world construction analysis of ProcessExecutionSettings (every construction in the '
        'source carries a timeout that originates from the live instruction settings; the timeout-dropping factories '
        'are unreferenced), typing of the settings argument at every user of the command executor, and folding of '
        'the default. Cleanup/sandbox removal after a timeout is the ordinary step-failure path (C01-c, C04-a). '
        'Trusted: subprocess.call kills and reaps the child when the timeout expires.')
    c.trusted_base = ['CPython ast', '/verif/sa engine', 'CPython subprocess.call kills and reaps the child on timeout']
    clause_a(c)
    clause_b(c)
    clause_c(c)
    clause_d(c)
    clause_e(c)
    clause_f(c)
    clause_g(c)
    from .common import check_nothing_is_swallowed
    check_nothing_is_swallowed(c, 'C19-i', ['exactly_lib.impls.instructions.multi_phase.timeout',
                                            'exactly_lib.util.process_execution', 'exactly_lib.execution'], 5,
                               '`timeout = 0` is a timeout of zero seconds, not "no timeout"')
    # h: a timeout of 0 seconds is a timeout, not "no timeout"
    check_zero_is_a_value(c, 'C19-h', ['exactly_lib.util.process_execution.execution_elements',
                                       'exactly_lib.util.process_execution.process_executor',
                                       'exactly_lib.test_case.phases.instruction_settings',
                                       'exactly_lib.execution.configuration',
                                       'exactly_lib.execution.partial_execution.impl.executor',
                                       'exactly_lib.impls.instructions.multi_phase.timeout.impl',
                                       'exactly_lib.definitions.os_proc_env'], 6,
                          '`timeout = 0` is a timeout of zero seconds, None is "no timeout"')


def timeout_origin_ok(ix: Index, m, f, node) -> bool:
    """the expression is `<something>.timeout_in_seconds` / `.timeout_in_seconds()`: the timeout of a live
    settings object (InstructionSettings, ProcessExecutionSettings, ExecutionConfiguration)"""
    if node is None:
        return False
    if isinstance(node, ast.Call) and not node.args and not node.keywords:
        node = node.func
    if isinstance(node, ast.Attribute) and node.attr in ('timeout_in_seconds',):
        return True
    if isinstance(node, ast.Name) and f is not None:
        # a parameter or local carrying it: accept a parameter named like the timeout of a factory method
        p = f.param(node.id)
        if p is not None and node.id == 'timeout_in_seconds':
            return True
        b = f.local_bindings().get(node.id, [])
        if len(b) == 1 and b[0][0] == 'assign':
            return timeout_origin_ok(ix, m, f, b[0][1])
    return False


# ---------------------------------------------------------------- a
def clause_a(c: Check):
    ix = c.ix
    sites = process_start_sites(ix)
    n_exec = 0
    for s in sites:
        f = s.func
        while f is not None and f.parent is not None:
            f = f.parent
        where = f.key if f else s.where
        c.expect(where in ALLOWED_PROCESS_START, 'C19-a', 'process-start/%s@%s' % (s.dotted, where),
                 'an OS process can be started (%s) in %s: outside the one site that enforces the timeout' % (
                     s.dotted, where), s.loc)
        if where == PE + ':ProcessExecutor.execute':
            n_exec += 1
            call = parent(s.node) if isinstance(parent(s.node), ast.Call) and parent(s.node).func is s.node else None
            if s.dotted in KILLING_PRIMITIVES:
                c.ok('C19-a', 'primitive/' + s.dotted, 'kills and reaps the child on timeout')
            elif s.dotted == 'subprocess.Popen':
                # accepted only with an explicit kill on the timeout path
                fn = s.func
                kills = any(isinstance(n, ast.Call) and isinstance(n.func, ast.Attribute) and n.func.attr == 'kill'
                            for n in ast.walk(fn.node))
                waits = any(isinstance(n, ast.Call) and isinstance(n.func, ast.Attribute)
                            and n.func.attr in ('wait', 'communicate') and util.keyword_arg(n, 'timeout') is not None
                            for n in ast.walk(fn.node))
                c.expect(kills and waits, 'C19-a', 'primitive/' + s.dotted,
                         'subprocess.Popen does not terminate the child on timeout by itself and the site has no '
                         'wait(timeout=...) + kill()' , s.loc)
            else:
                c.bad('C19-a', 'primitive/' + s.dotted,
                      'process start primitive %s is not known to kill the child on timeout' % s.dotted, s.loc)
    c.floor('C19-a', 'process start references in ProcessExecutor.execute', n_exec, 1)
    c.note('informational: PreprocessorViaExternalProgram.apply starts the --preprocessor program without a timeout; '
           'it runs before a test case exists and is not in the property\'s enumeration')


# ---------------------------------------------------------------- b
def clause_b(c: Check):
    ix, fo = c.ix, c.fo
    fd = ix.func(PE + ':ProcessExecutor.execute')
    pes = ix.cls(EE + ':ProcessExecutionSettings')
    pex = ix.cls(PE + ':ProcessExecutionException')
    # the settings parameter
    sp = None
    for p in fd.positional_params()[1:]:
        if ix.annotation_class(fd.module, None, p.annotation) == pes:
            sp = p.arg
    c.require(sp is not None, 'C19-b: ProcessExecutor.execute has no ProcessExecutionSettings parameter')
    starts = []
    for call, d in util.calls_in(ix, fd, deep=True):
        if isinstance(d, External) and d.dotted.startswith('subprocess.') and d.dotted not in (
                'subprocess.TimeoutExpired',):
            starts.append((call, d.dotted))
    c.require(starts, 'C19-b: no process start in ProcessExecutor.execute')
    timeout_sites = 0
    for call, dotted in starts:
        t = util.keyword_arg(call, 'timeout')
        if t is None and dotted == 'subprocess.Popen':
            # timeout given to wait()/communicate()
            for n in ast.walk(fd.node):
                if isinstance(n, ast.Call) and isinstance(n.func, ast.Attribute) and n.func.attr in ('wait', 'communicate'):
                    t = util.keyword_arg(n, 'timeout') or t
        ok = isinstance(t, ast.Attribute) and t.attr == 'timeout_in_seconds' and isinstance(t.value, ast.Name) \
             and t.value.id == sp
        timeout_sites += 1
        c.expect(ok, 'C19-b', 'ProcessExecutor.execute/timeout-argument',
                 'the process is started with timeout=%s, not the timeout of the given settings' % (
                     unparse(t) if t is not None else 'nothing'), '%s:%d' % (fd.module.relpath, call.lineno))
    # exceptional outcomes of the start primitive
    TE = External('subprocess.TimeoutExpired')
    hooks = ForkHooks(ix)
    hooks.fork_on(lambda d, n, cv: isinstance(d, External) and d.dotted in KILLING_PRIMITIVES, [
        ('timeout', ('raise', TE)), ('oserror', ('raise', External('builtins.OSError'))),
        ('valueerror', ('raise', External('builtins.ValueError'))),
        ('exit-code', lambda: Sym('exit_code', origin=('exit-code',)))])
    seen = set()
    for p in util.func_paths(ix, fo, fd, hooks):
        labs = labels_of(p)
        if len(labs) != 1:
            continue
        seen.add(labs[0])
        key = 'ProcessExecutor.execute/' + labs[0]
        if labs[0] == 'exit-code':
            c.expect(p.kind == 'return' and getattr(util.root_sym(p.val), 'label', None) == 'exit-code', 'C19-b', key,
                     'the exit code of the process is not returned', fd.loc())
        else:
            ok = p.kind == 'raise' and isinstance(p.val, Exc) and p.val.cls == pex
            c.expect(ok, 'C19-b', key, '%s of the process start is not converted to ProcessExecutionException (%s)' % (
                labs[0], util.describe(p.val)), fd.loc())
    if starts and all(d in KILLING_PRIMITIVES for _, d in starts):
        c.require(seen == {'timeout', 'oserror', 'valueerror', 'exit-code'}, 'C19-b: outcomes %s' % seen)
    # the wrapper: ProcessExecutionException -> HardErrorException, settings passed on unchanged
    w = ix.func(CE + ':CommandExecutorFromProcessExecutor.execute')
    hard = ix.cls('exactly_lib.test_case.hard_error:HardErrorException')
    hooks = ForkHooks(ix)
    hooks.fork_on(lambda d, n, cv: d == fd, [('failed', ('raise', pex)), ('exit-code', lambda: Sym('exit_code',
                                                                                                    origin=('ec',)))])
    hooks.inline_set = {ix.func(CE + ':_raise_hard_error')}
    seen = set()
    for p in util.func_paths(ix, fo, w, hooks):
        labs = labels_of(p)
        c.require(len(labs) == 1, 'C19-b: the wrapper starts %d processes on a path' % len(labs))
        seen.add(labs[0])
        if labs[0] == 'failed':
            ok = p.kind == 'raise' and isinstance(p.val, Exc) and p.val.cls == hard
            c.expect(ok, 'C19-b', 'CommandExecutorFromProcessExecutor.execute/failed',
                     'a timed-out / unstartable process does not raise HardErrorException (%s %s)' % (
                         p.kind, util.describe(p.val)), w.loc())
        else:
            c.expect(p.kind == 'return' and getattr(util.root_sym(p.val), 'label', None) == 'exit-code', 'C19-b',
                     'CommandExecutorFromProcessExecutor.execute/exit-code', 'the exit code is not returned', w.loc())
        ev = [e for e in p.trace if e.kind == 'call' and 'label' in e.data][0]
        b = util.bound_call_args(fd, ev.node, True) or {}
        a = b.get(sp)
        c.expect(isinstance(a, ast.Name) and a.id == 'settings' and w.param('settings') is not None, 'C19-b',
                 'CommandExecutorFromProcessExecutor.execute/settings-unchanged',
                 'the wrapper gives %s to the process executor, not its own settings argument' % (
                     unparse(a) if a is not None else None), w.loc())
    c.require(seen == {'failed', 'exit-code'}, 'C19-b: wrapper outcomes %s' % seen)
    # what the process executor itself catches when the process cannot be started or times out is raised on as its
    # own exception on every path of every handler: no handler makes up an exit code for a process that never ran
    pex = ix.cls(PE + ':ProcessExecutionException')
    n_h = 0
    for tr in ast.walk(fd.node):
        if isinstance(tr, ast.Try):
            for h in tr.handlers:
                n_h += 1
                stmts = [st_ for st_ in h.body if not (isinstance(st_, ast.Expr) and isinstance(st_.value, ast.Constant))]
                last = stmts[-1] if stmts else None
                raises = isinstance(last, ast.Raise) and not any(isinstance(x, ast.Return) for x in ast.walk(h))
                c.expect(raises, 'C19-b', 'ProcessExecutor.execute/handler-raises/%s' % (unparse(h.type) if h.type is not None else 'any'),
                         'the handler of %s in ProcessExecutor.execute does not end by raising: a process that could not '
                         'be started (or timed out) is given an exit code as if it had run' % (
                             unparse(h.type) if h.type is not None else 'every exception'), '%s:%d' % (fd.module.relpath, h.lineno))
    c.floor('C19-b', 'handlers in ProcessExecutor.execute', n_h, 1)
    # layering
    pcls = ix.cls(PE + ':ProcessExecutor')
    for s in util.call_sites_of(ix, pcls):
        c.expect(s.where.startswith('exactly_lib.impls.os_services.os_services_access:'), 'C19-b',
                 'ProcessExecutor()@' + s.where, 'a ProcessExecutor is constructed in %s' % s.where, s.loc)
    n = 0
    for m in ix.modules_mentioning('ProcessExecutor', '_process_executor', 'process_executor'):
        for node in ast.walk(m.tree):
            if isinstance(node, ast.Call):
                f = m.enclosing_func(node)
                if ix.callee(m, f, node) == fd:
                    n += 1
                    c.expect(f is not None and f.key == w.key, 'C19-b',
                             'ProcessExecutor.execute-caller@' + (f.key if f else m.name),
                             'ProcessExecutor.execute is called from %s, bypassing the hard-error wrapper' % (
                                 f.key if f else m.name), '%s:%d' % (m.relpath, node.lineno))
    c.floor('C19-b', 'callers of ProcessExecutor.execute', n, 1)
    # users of the command executor: the settings argument is a ProcessExecutionSettings value
    ce = ix.func('exactly_lib.test_case.command_executor:CommandExecutor.execute')
    n = 0
    for m in ix.modules_mentioning('command_executor', 'CommandExecutor'):
        for node in ast.walk(m.tree):
            if isinstance(node, ast.Call) and isinstance(node.func, ast.Attribute) and node.func.attr == 'execute':
                f = m.enclosing_func(node)
                d = ix.callee(m, f, node)
                if d == ce or (isinstance(d, FuncDef) and d.cls is not None and ix.is_subclass(d.cls, ce.cls)
                               and d.name == 'execute'):
                    n += 1
                    b = util.bound_call_args(ce, node, True) or {}
                    a = b.get('settings')
                    t = ix.type_of(m, f, a) if a is not None else None
                    is_ctor = isinstance(a, ast.Call) and ix.callee(m, f, a) == pes
                    c.expect(t == pes and not is_ctor, 'C19-b', 'command_executor.execute-settings@' + (f.key if f else m.name),
                             'the settings given to the command executor (%s) are not a ProcessExecutionSettings value '
                             'received from the environment' % (unparse(a) if a is not None else None),
                             '%s:%d' % (m.relpath, node.lineno))
    c.floor('C19-b', 'users of command_executor.execute', n, 6)


# ---------------------------------------------------------------- c
def clause_c(c: Check):
    ix = c.ix
    pes = ix.cls(EE + ':ProcessExecutionSettings')
    n_ctor = 0
    for m in ix.modules_mentioning('ProcessExecutionSettings'):
        for node in ast.walk(m.tree):
            if not isinstance(node, ast.Call):
                continue
            f = m.enclosing_func(node)
            d = ix.callee(m, f, node)
            where = f.key if f else m.name
            loc = '%s:%d' % (m.relpath, node.lineno)
            if d == pes:
                if f is not None and f.cls == pes:
                    continue  # the factories of the class itself: judged at their call sites
                n_ctor += 1
                b = util.ctor_call_args(ix, pes, node) or {}
                t = b.get('timeout_in_seconds')
                c.expect(timeout_origin_ok(ix, m, f, t), 'C19-c', 'ProcessExecutionSettings()@' + where,
                         'process execution settings are constructed with timeout %s, which is not the timeout of '
                         'the live settings' % (unparse(t) if t is not None else 'absent (= no timeout)'), loc)
            elif isinstance(d, FuncDef) and d.cls == pes and d.is_static:
                if f is not None and f.cls == pes:
                    continue
                n_ctor += 1
                if d.name in TIMEOUT_DROPPING_FACTORIES:
                    c.bad('C19-c', 'ProcessExecutionSettings.%s@%s' % (d.name, where),
                          'settings without a timeout are constructed (%s)' % d.name, loc)
                else:
                    b = util.bound_call_args(d, node, False) or {}
                    t = b.get('timeout_in_seconds')
                    c.expect(timeout_origin_ok(ix, m, f, t), 'C19-c',
                             'ProcessExecutionSettings.%s@%s' % (d.name, where),
                             'process execution settings are constructed with timeout %s' % (
                                 unparse(t) if t is not None else 'absent (= no timeout)'), loc)
    c.floor('C19-c', 'constructions of ProcessExecutionSettings', n_ctor, 2)
    # references to the dropping factories that are not calls (passed as values)
    for name in TIMEOUT_DROPPING_FACTORIES:
        d = ix.class_member(pes, name)
        if isinstance(d, FuncDef):
            for s in util.references_to(ix, d):
                c.bad('C19-c', 'ProcessExecutionSettings.%s-ref@%s' % (name, s.where),
                      'the timeout-dropping factory %s is referenced' % name, s.loc)
    check_record(c, 'C19-c', pes)
    # the factories that keep a timeout pass it on
    for name in ('from_non_immutable', 'with_timeout'):
        d = ix.class_member(pes, name)
        if isinstance(d, FuncDef):
            ok = False
            for call, cd in util.calls_in(ix, d):
                if cd == pes:
                    b = util.ctor_call_args(ix, pes, call) or {}
                    t = b.get('timeout_in_seconds')
                    ok = isinstance(t, ast.Name) and t.id == 'timeout_in_seconds'
            c.expect(ok, 'C19-c', 'ProcessExecutionSettings.%s/passes-timeout' % name,
                     '%s does not pass its timeout argument on' % name, d.loc())


# ---------------------------------------------------------------- d
def clause_d(c: Check):
    ix = c.ix
    pes = ix.cls(EE + ':ProcessExecutionSettings')
    ae = ix.cls('exactly_lib.test_case.app_env:ApplicationEnvironment')
    n = 0
    for s in util.call_sites_of(ix, ae):
        n += 1
        b = util.ctor_call_args(ix, ae, s.node) or {}
        a = b.get('process_execution_settings')
        t = ix.type_of(s.module, s.func, a) if a is not None else None
        c.expect(t == pes, 'C19-d', 'ApplicationEnvironment()@' + s.where,
                 'an application environment is built with settings %s, which are not ProcessExecutionSettings taken '
                 'from the instruction environment' % (unparse(a) if a is not None else None), s.loc)
    c.floor('C19-d', 'constructions of ApplicationEnvironment', n, 6)
    # currency: the environments are generated per instruction from the live settings
    for name in ('_post_sds_main_environments', '_post_setup_validation_environments'):
        g = ix.func(EXECUTOR_MOD + ':_PartialExecutor.' + name)
        ok = False
        for node in ast.walk(g.node):
            if isinstance(node, (ast.For, ast.While)):
                for y in ast.walk(node):
                    if isinstance(y, ast.Yield) and isinstance(y.value, ast.Call):
                        d = ix.callee(g.module, g, y.value)
                        ok = isinstance(d, FuncDef) and d.name == '_post_sds_environment'
        c.expect(ok, 'C19-d', name + '/rebuilt-per-instruction',
                 'the instruction environment (with its timeout) is not rebuilt inside the per-instruction loop', g.loc())
    # every instruction environment built by the executor carries settings made from the LIVE instruction settings when
    # the environment is built - not a snapshot kept by the executor (a `timeout` / `env` instruction that ends a
    # phase must be seen by the first instruction of the next phase)
    ex_cls = ix.cls(EXECUTOR_MOD + ':_PartialExecutor')
    n_env = 0
    for env_name in ('InstructionEnvironmentForPreSdsStep', 'InstructionEnvironmentForPostSdsStep'):
        env_cls = ix.cls('exactly_lib.test_case.phases.instruction_environment:' + env_name)
        for s in util.call_sites_of(ix, env_cls):
            if s.func is None or s.func.cls is not ex_cls:
                continue
            n_env += 1
            b = util.ctor_call_args(ix, env_cls, s.node) or {}
            a = b.get('proc_exe_settings')
            c.require(a is not None, 'C19-d: the settings argument of %s at %s is not understood' % (env_name, s.loc))
            bad = _not_live_settings(ix, pes, s.func, a, 0)
            c.expect(bad is None, 'C19-d', '%s@%s/live-settings' % (env_name, s.func.name),
                     'the process execution settings of a new instruction environment are %s - a `timeout` or `env` '
                     'instruction executed since that value was made is not seen by the following instructions' % bad,
                     s.loc)
    c.floor('C19-d', 'instruction environments built by the executor', n_env, 2)


def _not_live_settings(ix, pes, f: FuncDef, expr, depth: int):
    """None when `expr` (in f) builds ProcessExecutionSettings now, from self._instruction_settings.timeout_in_seconds();
    otherwise a description of what it is"""
    if depth > 3:
        return 'computed more than 3 calls away'
    expr = util.resolve_temp(f, expr)
    if isinstance(expr, ast.Call):
        d = ix.callee(f.module, f, expr)
        if d == pes:
            b = util.ctor_call_args(ix, pes, expr) or {}
            t = b.get('timeout_in_seconds')
            t = util.resolve_temp(f, t) if t is not None else None
            ok = isinstance(t, ast.Call) and isinstance(t.func, ast.Attribute) and t.func.attr == 'timeout_in_seconds' \
                and isinstance(t.func.value, ast.Attribute) and t.func.value.attr == '_instruction_settings' and not t.args
            return None if ok else 'built with timeout `%s`, not the live instruction settings\' timeout' % (
                unparse(t) if t is not None else None)
        if isinstance(d, FuncDef) and d.cls is not None and f.cls is not None and ix.is_subclass(f.cls, d.cls) \
                and not d.is_generator:
            rets = util.returned_values(d)
            if not rets:
                return 'the result of %s, which returns nothing' % d.name
            for r in rets:
                bad = _not_live_settings(ix, pes, d, r, depth + 1)
                if bad is not None:
                    return bad + ' (returned by %s)' % d.name
            return None
        return 'the result of `%s`' % unparse(expr.func)
    if isinstance(expr, ast.Attribute):
        return 'the stored value `%s`' % unparse(expr)
    return '`%s`' % unparse(expr)


# ---------------------------------------------------------------- e
def clause_e(c: Check):
    ix, fo = c.ix, c.fo
    v = fo.fold_path('exactly_lib.definitions.os_proc_env:TIMEOUT__DEFAULT')
    c.expect(isinstance(v, int) and not isinstance(v, bool) and v > 0, 'C19-e', 'TIMEOUT__DEFAULT',
             'the default timeout is %r (must be a positive number of seconds)' % (v,),
             'src/exactly_lib/definitions/os_proc_env.py')
    # main program passes it to PredefinedProperties(timeout_in_seconds=...)
    pp = ix.cls('exactly_lib.execution.configuration:PredefinedProperties')
    sites = util.call_sites_of(ix, pp)
    n = 0
    for s in sites:
        b = util.ctor_call_args(ix, pp, s.node) or {}
        t = b.get('timeout_in_seconds')
        if t is None:
            continue
        n += 1
        val = fo.fold(s.module, s.func, t)
        c.expect(val == v and isinstance(v, int), 'C19-e', 'PredefinedProperties(timeout)@' + s.where,
                 'predefined timeout is %s' % unparse(t), s.loc)
    c.floor('C19-e', 'PredefinedProperties constructions with a timeout', n, 1)
    # ... to ExecutionConfiguration ... to InstructionSettings
    for path in ('exactly_lib.processing.standalone.processor:Processor._executor',
                 'exactly_lib.processing.processors:Configuration.execution_configuration',
                 'exactly_lib.processing.processors:_Executor._exe_conf_that_may_be_updated'):
        f = ix.func(path)
        ec = ix.cls('exactly_lib.execution.configuration:ExecutionConfiguration')
        ok = False
        for call, d in util.calls_in(ix, f):
            if d == ec:
                b = util.ctor_call_args(ix, ec, call) or {}
                t = b.get('timeout_in_seconds')
                ok = isinstance(t, ast.Attribute) and t.attr == 'timeout_in_seconds'
        c.expect(ok, 'C19-e', 'ExecutionConfiguration(timeout)@' + path.split(':')[-1],
                 'the configured timeout is not handed on', f.loc())
    check_record(c, 'C19-e', ix.cls('exactly_lib.execution.configuration:ExecutionConfiguration'))
    init = ix.func(EXECUTOR_MOD + ':_PartialExecutor.__init__')
    iset = ix.cls('exactly_lib.test_case.phases.instruction_settings:InstructionSettings')
    ok = False
    for call, d in util.calls_in(ix, init):
        if d == iset:
            b = util.ctor_call_args(ix, iset, call) or {}
            t = b.get('timeout_in_seconds')
            ok = isinstance(t, ast.Attribute) and t.attr == 'timeout_in_seconds' and 'exe_conf' in unparse(t)
    c.expect(ok, 'C19-e', 'InstructionSettings(timeout)', 'the instruction settings do not start with the configured '
                                                          'timeout', init.loc())
    # InstructionSettings: timeout_in_seconds() returns what set_timeout stored / the constructor argument
    it = Interp(ix, fo, _InlineSettings())
    objs = it.instantiate(iset, State(), {'timeout_in_seconds': Sym('T0', origin=('t0',))})
    obj, st = objs[0]
    tm = ix.class_member(iset, 'timeout_in_seconds')
    r = it.run_function(tm, st=st.fork(), recv=obj)
    c.expect(len(r) == 1 and isinstance(r[0].val, Sym) and util.root_sym(r[0].val).tag == 'T0', 'C19-e',
             'InstructionSettings/initial-timeout', 'timeout_in_seconds() is not the constructor argument', tm.loc())
    sm = ix.class_member(iset, 'set_timeout')
    r = it.run_function(sm, args={sm.positional_params()[1].arg: Sym('T1', origin=('t1',))}, st=st, recv=obj)
    r2 = it.run_function(tm, st=r[0].state, recv=obj)
    c.expect(len(r2) == 1 and isinstance(r2[0].val, Sym) and util.root_sym(r2[0].val).tag == 'T1', 'C19-e',
             'InstructionSettings/set-then-get', 'timeout_in_seconds() after set_timeout(x) is not x', tm.loc())
    # who may lift / change the timeout
    for s in util.references_to(ix, sm):
        c.expect(s.where.startswith('exactly_lib.impls.instructions.multi_phase.timeout.'), 'C19-e',
                 'set_timeout@' + s.where, 'the timeout is changed in %s (only the timeout instruction may)' % s.where,
                 s.loc)
    # direct writes of the attribute from outside the class
    for m in ix.modules_mentioning('_timeout_in_seconds'):
        for node in ast.walk(m.tree):
            if isinstance(node, ast.Attribute) and node.attr == '_timeout_in_seconds' and isinstance(node.ctx, ast.Store):
                f = m.enclosing_func(node)
                own = f is not None and f.cls is not None and f.cls.name in ('InstructionSettings',
                                                                             'PredefinedProperties')
                c.expect(own, 'C19-e', '_timeout_in_seconds-write@' + (f.key if f else m.name),
                         'the timeout attribute is written outside its class', '%s:%d' % (m.relpath, node.lineno))


class _InlineSettings(Hooks):
    def inline(self, fd, st):
        return fd.cls is not None and fd.cls.name == 'InstructionSettings'


# ---------------------------------------------------------------- f
def clause_f(c: Check):
    """after a timeout the step is an ordinary HARD_ERROR step failure: cleanup and sandbox removal are the
    executor paths decided under C01-c / C04-a; here: HardErrorException is what the step runners turn into
    HARD_ERROR (instruction steps and act steps)"""
    ix, fo = c.ix, c.fo
    from .C01 import get_model
    m = get_model(c)
    n = 0
    seen = set()
    for t in m.traces:
        if t.short() in seen:
            continue
        seen.add(t.short())
        fr = t.first_raised()
        if fr is None:
            continue
        has_sandbox = any(s.kind == 'marker' and s.name == 'SANDBOX' for s in t.steps)
        if not has_sandbox:
            continue
        n += 1
        cleanup = [s for s in t.steps if s.kind == 'step' and s.phase == 'CLEANUP' and s.step.endswith('main')]
        c.expect(len(cleanup) == 1 and t.terminal == 'FAIL', 'C19-f', 'after-failure/%r' % fr,
                 'after a failing (e.g. timed-out) step %r cleanup runs %d times and the execution ends with %s' % (
                     fr, len(cleanup), t.terminal), EXECUTOR_MOD)
    c.floor('C19-f', 'post-sandbox failure traces', n, 18)


# ---------------------------------------------------------------- g
def clause_g(c: Check):
    """PLUMB "the value last set": the stdin of the action to check may be the output of a program. That program is
    run with the process execution settings (timeout, environment) that are in force when the action to check is
    executed - the settings of the ApplicationEnvironment handed to `resolve(environment)` by the act execution -
    not the ones of the moment the `stdin` instruction ran. So the `stdin` instruction stores an object that makes
    the text source from that environment: its main step creates no primitive, and `resolve(environment)` of the
    stored object passes its own `environment` to `.primitive(..)`."""
    ix, fo = c.ix, c.fo
    M = 'exactly_lib.impls.instructions.setup.stdin'
    main = ix.func(M + ':_Instruction.main')

    class H(Hooks):
        def inline(self, fd, st):
            return False

    sb = [p.arg for p in main.positional_params() if 'settings_builder' in p.arg]
    c.require(len(sb) == 1, 'C19-g: settings builder parameter of stdin main not found')
    n = 0
    for p in util.func_paths(ix, fo, main, H()):
        if p.kind != 'return':
            continue
        prims = [e for e in p.calls() if isinstance(e.node.func, ast.Attribute) and e.node.func.attr == 'primitive']
        c.expect(not prims, 'C19-g', 'stdin-main/no-primitive-created-at-instruction-time',
                 'the stdin instruction makes the text source while it runs (%s): a program that produces stdin is run '
                 'with the timeout of that moment, not with the one in force when the action to check is executed' % (
                     ', '.join(unparse(e.node)[:60] for e in prims)), main.loc())
        stored = [e for e in p.trace if e.kind == 'setattr' and e.data[1] == 'stdin']
        for e in stored:
            base, _, v = e.data
            r = util.root_sym(base)
            if not (isinstance(r, Sym) and r.origin and r.origin[:2] == ('param', sb[0])):
                continue
            n += 1
            con = util.constructed(ix, v)
            k = ix.try_lookup(con[0]) if con is not None and ':' in con[0] else None
            rs = ix.class_member(k, 'resolve') if isinstance(k, ClassDef) else None
            ok = isinstance(rs, FuncDef) and len(rs.positional_params()) == 2
            how = 'an object whose class is not understood (%s)' % util.describe(v)
            if ok:
                envp = rs.positional_params()[1].arg
                ok = False
                how = 'a %s, whose resolve(%s) does not make the text source from that environment' % (k.name, envp)
                for q in util.func_paths(ix, fo, rs, H()):
                    if q.kind != 'return':
                        continue
                    o = q.val.origin if isinstance(q.val, Sym) else None
                    ev = q.trace[o[5]] if o and o[0] == 'call' and o[5] is not None else None
                    ok = ev is not None and isinstance(ev.node.func, ast.Attribute) and ev.node.func.attr == 'primitive' \
                         and len(ev.data['args']) == 1 and isinstance(ev.data['args'][0], Sym) \
                         and ev.data['args'][0].origin[:2] == ('param', envp)
                    if not ok:
                        break
            c.expect(ok, 'C19-g', 'stdin-main/text-source-made-when-the-action-is-executed',
                     'the stdin instruction stores %s: the program behind stdin is not run with the settings (timeout) in '
                     'force when the action to check is executed' % how, main.loc())
    c.floor('C19-g', 'stdin values stored by the stdin instruction', n, 1)
